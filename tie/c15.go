package main

// C15 — token layout, comments and literal escapes do not change meaning.
//
// Property predicates on the implementation (real tokenizer through Parser.VerifTokens, real parser
// and evaluator of value.New()):
//   same     two spellings of one lexeme sequence (other separators / alias runes / superscripts /
//            omitted '*') give the same (kind,image) token stream and the same AST dump
//   lines    every token's line = 1 + number of LF before the first rune of its lexeme
//   errline  the line of a parse error that names a marker token = line on which the marker starts
//   string   the literal written with the five escapes is tokenized and evaluated to exactly the string
//   qident   quoted identifiers are taken verbatim
// Correspondence: every source string used above, plus a malformed stream, is tokenized by the compiled
// Lean model (request LEX) and compared token by token (kind, image, line).

import (
	"encoding/json"
	"fmt"
	"io"
	"log"
	"math/rand"
	"os"
	"reflect"
	"regexp"
	"sort"
	"strconv"
	"strings"
	"unicode"
	"unicode/utf8"

	"github.com/hneemann/parser2"
	"github.com/hneemann/parser2/funcGen"
	"github.com/hneemann/parser2/value"
)

func init() { props["C15"] = runC15 }

// ---- scanner configuration of a parser (read by reflection: no hook needed) -------------------------

type lexConf struct {
	name     string
	ops      []string
	textOps  map[string]string
	textKeys []string
	keywords []string
	comments bool
	comfort  bool
	tokens   func(string) []parser2.VerifToken
	fg       *funcGen.FunctionGenerator[value.Value] // nil: token level only
	reqConf  string                                  // ops \t textops \t keywords \t extra
	idents   []string                                // identifier pool for lexeme soups
}

func lexReadParserConf(p any, conf *lexConf) {
	v := reflect.ValueOf(p).Elem()
	get := func(n string) reflect.Value {
		f := v.FieldByName(n)
		if !f.IsValid() {
			fatal("C15: parser2.Parser has no field %s any more (harness reads the scanner configuration by reflection)", n)
		}
		return f
	}
	conf.ops = nil
	ops := get("operators")
	for i := 0; i < ops.Len(); i++ {
		conf.ops = append(conf.ops, ops.Index(i).String())
	}
	conf.ops = append(conf.ops, "=", "->")
	var un []string
	for _, k := range get("unary").MapKeys() {
		un = append(un, k.String())
	}
	sort.Strings(un)
	conf.ops = append(conf.ops, un...)
	conf.textOps = map[string]string{}
	conf.textKeys = nil
	to := get("textOperators")
	if to.Kind() == reflect.Map {
		it := to.MapRange()
		for it.Next() {
			conf.textOps[it.Key().String()] = it.Value().String()
			conf.textKeys = append(conf.textKeys, it.Key().String())
		}
	}
	sort.Strings(conf.textKeys)
	conf.keywords = nil
	kw := get("keyWords")
	for i := 0; i < kw.Len(); i++ {
		conf.keywords = append(conf.keywords, kw.Index(i).String())
	}
	conf.comments = get("allowComments").Bool()
	conf.comfort = get("comfort").Bool()
}

var lexTab *lexExtract
var lexAlias map[rune]rune

func lexClsOf(r rune) int {
	k := 0
	if unicode.IsLetter(r) {
		k |= 1
	}
	if unicode.IsNumber(r) {
		k |= 2
	}
	return k
}

func (conf *lexConf) finish() {
	var ops, tops, kws, extra []string
	for _, o := range conf.ops {
		ops = append(ops, cps(o))
	}
	for _, k := range conf.textKeys {
		tops = append(tops, cps(k)+"="+cps(conf.textOps[k]))
	}
	for _, k := range conf.keywords {
		kws = append(kws, cps(k))
	}
	for _, a := range lexTab.aliases {
		extra = append(extra, fmt.Sprintf("%d:%d", a[1], lexClsOf(a[1])))
	}
	conf.reqConf = strings.Join(ops, " ") + "\t" + strings.Join(tops, " ") + "\t" + strings.Join(kws, " ") + "\t" + strings.Join(extra, " ")
}

func lexB01(b bool) string {
	if b {
		return "1"
	}
	return "0"
}

func (conf *lexConf) request(src string, pinned bool) string {
	var b strings.Builder
	b.WriteString("LEX\t")
	b.WriteString(lexB01(conf.comments) + lexB01(conf.comfort) + lexB01(pinned))
	b.WriteByte('\t')
	b.WriteString(conf.reqConf)
	b.WriteByte('\t')
	first := true
	for _, r := range src { // invalid bytes decode to U+FFFD of width 1, exactly as utf8.DecodeRuneInString
		if !first {
			b.WriteByte(' ')
		}
		first = false
		b.WriteString(strconv.Itoa(int(r)))
		if k := lexClsOf(r); k != 0 {
			b.WriteByte(':')
			b.WriteString(strconv.Itoa(k))
		}
	}
	return b.String()
}

func lexCanonTokens(ts []parser2.VerifToken) string {
	if len(ts) == 0 {
		return "-"
	}
	var parts []string
	for _, t := range ts {
		parts = append(parts, fmt.Sprintf("%d:%s:%d", t.Kind, cps(t.Image), t.Line))
	}
	return strings.Join(parts, " ")
}

func lexKiTokens(ts []parser2.VerifToken) string {
	var parts []string
	for _, t := range ts {
		parts = append(parts, fmt.Sprintf("%d:%q", t.Kind, t.Image))
	}
	return strings.Join(parts, " ")
}

func lexValueConf(comments, comfort bool) *lexConf {
	fg := value.New()
	fg.SetComfort(comfort)
	p := fg.GetParser()
	if comments {
		p.AllowComments()
	}
	conf := &lexConf{name: "value/comments=" + lexB01(comments) + "/comfort=" + lexB01(comfort), fg: fg.FunctionGenerator, tokens: p.VerifTokens}
	lexReadParserConf(p, conf)
	conf.finish()
	return conf
}

func lexCustomConf(name string, ops, unary, keywords []string, textOps map[string]string, comments, comfort bool) *lexConf {
	p := parser2.NewParser[int]().Op(ops...).Unary(unary...).SetKeyWords(keywords...).TextOperator(textOps).Comfort(comfort)
	if comments {
		p.AllowComments()
	}
	conf := &lexConf{name: name + "/comments=" + lexB01(comments) + "/comfort=" + lexB01(comfort), tokens: p.VerifTokens}
	lexReadParserConf(p, conf)
	conf.finish()
	return conf
}

// ---- lexemes ---------------------------------------------------------------------------------------

const (
	lexKNum = iota
	lexKIdent
	lexKKw
	lexKOp
	lexKSym
	lexKStr
	lexKQId
	lexKSuper
	lexKTextOp
)

var lexLxKindNames = []string{"num", "ident", "kw", "op", "sym", "str", "qident", "super", "textop"}

type lexKI struct {
	kind  int
	image string
}

type lexLx struct {
	k    int
	text string // spelling
	img  string // image of the (last) token
	glue int    // comfort mode, gap before this lexeme: 1 no blank allowed, 2 blank required
}

var lexSymKinds = map[string]int{"(": 2, ")": 3, "[": 4, "]": 5, "{": 6, "}": 7, ".": 8, ",": 9, ":": 10, ";": 11}
var lexSuperDigits = map[rune]string{}
var lexSuperRunesGo []rune // the runes with a superscript case in run's switch, in source order

func (l lexLx) expect() []lexKI {
	switch l.k {
	case lexKNum:
		return []lexKI{{12, l.img}}
	case lexKIdent, lexKQId:
		return []lexKI{{0, l.img}}
	case lexKKw:
		return []lexKI{{1, l.img}}
	case lexKOp, lexKTextOp:
		return []lexKI{{14, l.img}}
	case lexKSym:
		return []lexKI{{lexSymKinds[l.text], l.text}}
	case lexKStr:
		return []lexKI{{13, l.img}}
	case lexKSuper:
		return []lexKI{{14, "^"}, {12, l.img}}
	}
	return nil
}

func lexEscapeLit(s string) string {
	var b strings.Builder
	b.WriteByte('"')
	for _, r := range s {
		switch r {
		case '\\':
			b.WriteString("\\\\")
		case '"':
			b.WriteString("\\\"")
		case '\n':
			b.WriteString("\\n")
		case '\r':
			b.WriteString("\\r")
		case '\t':
			b.WriteString("\\t")
		default:
			b.WriteRune(r)
		}
	}
	b.WriteByte('"')
	return b.String()
}

func lexAliasRune(r rune) rune {
	if a, ok := lexAlias[r]; ok {
		return a
	}
	return r
}

func lexIsExcl(s string, r rune) bool { return strings.ContainsRune(s, r) }

func lexNumberNextGo(prev, c rune) bool {
	return (unicode.IsNumber(c) && !lexIsExcl(lexTab.numExcl, c)) || c == '.' || c == 'e' || (prev == 'e' && (c == '-' || c == '+'))
}

func lexIdentNextGo(c rune) bool {
	return unicode.IsLetter(c) || (unicode.IsNumber(c) && !lexIsExcl(lexTab.identExcl, c)) || c == '_'
}

func (conf *lexConf) extends(p string) bool {
	for _, o := range conf.ops {
		if strings.HasPrefix(o, p) {
			return true
		}
	}
	return false
}

// canFollow: the lexeme l, written directly before the text `next`, is still scanned as l
// ("none where lexically possible"); used only to choose admissible separators.
func (conf *lexConf) canFollow(l lexLx, next string) bool {
	c, n := utf8.DecodeRuneInString(next)
	if n == 0 {
		c = 0
	}
	ac := lexAliasRune(c)
	if _, isSuper := lexSuperDigits[c]; isSuper && l.k != lexKOp {
		return true // the property wants x² and 2² to work: a superscript never continues a number or identifier
	}
	switch l.k {
	case lexKNum:
		rs := []rune(l.img)
		return n == 0 || ac == 0 || !lexNumberNextGo(rs[len(rs)-1], ac)
	case lexKIdent, lexKKw, lexKTextOp:
		return n == 0 || ac == 0 || !lexIdentNextGo(ac)
	case lexKOp:
		if n != 0 && conf.extends(l.img+string(ac)) {
			return false
		}
		if conf.comments && strings.HasPrefix(l.text, "/") {
			rest := l.text[1:] + next
			if strings.HasPrefix(rest, "/") || strings.HasPrefix(rest, "*") {
				return false
			}
		}
		return true
	}
	return true
}

// spellable: an operator that can be written at all under the configuration
func (conf *lexConf) spellable(op string) bool {
	if op == "" {
		return false
	}
	if conf.comments && (strings.HasPrefix(op, "//") || strings.HasPrefix(op, "/*")) {
		return false
	}
	r, _ := utf8.DecodeRuneInString(op)
	if unicode.IsLetter(r) || unicode.IsNumber(r) || r == '_' {
		return false
	}
	for _, c := range op {
		if lexAliasRune(c) != c {
			return false
		}
	}
	return true
}

// ---- separators ------------------------------------------------------------------------------------

const (
	lexSepNone = iota
	lexSepBlank
	lexSepTab
	lexSepCR
	lexSepLF
	lexSepMixed
	lexSepBlockSpaced
	lexSepBlockTight
	lexSepLineSpaced
	lexSepLineTight
	lexSepSeveral
	lexSepBlockMultiTight
	lexSepKinds
)

var lexSepNames = []string{"none", "blank", "tab", "cr", "lf", "mixed", "block-spaced", "block-tight", "line-spaced", "line-tight", "several-comments", "multiline-block-tight"}

var lexCommentAlphabet = []string{"a", "b", " ", "\"", "'", "*", "/", "**", "* /", "/ *", "//", "/*", "x=1", "(", ")", "\\", "é", "×", "²", "\t", "+", "-", "e", "1", ";", "let"}

func lexCommentBody(r *rand.Rand, block bool, wantLF bool) string {
	var b strings.Builder
	n := r.Intn(5)
	for i := 0; i < n; i++ {
		b.WriteString(lexCommentAlphabet[r.Intn(len(lexCommentAlphabet))])
		if block && r.Intn(4) == 0 {
			b.WriteByte('\n')
		}
	}
	if block && wantLF {
		b.WriteString("\n")
		if r.Intn(2) == 0 {
			b.WriteString("\n*")
		}
	}
	s := b.String()
	if block {
		for strings.Contains(s, "*/") {
			s = strings.Replace(s, "*/", "* /", 1)
		}
	} else {
		s = strings.NewReplacer("\n", " ", "\r", " ").Replace(s)
	}
	return s
}

func lexBlockComment(r *rand.Rand, lf bool) string { return "/*" + lexCommentBody(r, true, lf) + "*/" }
func lexLineComment(r *rand.Rand) string {
	nl := "\n"
	if r.Intn(6) == 0 {
		nl = "\r"
	}
	return "//" + lexCommentBody(r, false, false) + nl
}

func lexBlanks(r *rand.Rand) string {
	var b strings.Builder
	n := 1 + r.Intn(3)
	for i := 0; i < n; i++ {
		b.WriteByte(" \t\r\n"[r.Intn(4)])
	}
	return b.String()
}

// lexGenSep returns a separator of the kind and whether it has a blank, tab, CR or LF outside comments.
func lexGenSep(r *rand.Rand, kind int) (string, bool) {
	switch kind {
	case lexSepNone:
		return "", false
	case lexSepBlank:
		return " ", true
	case lexSepTab:
		return "\t", true
	case lexSepCR:
		return "\r", true
	case lexSepLF:
		return "\n", true
	case lexSepMixed:
		return lexBlanks(r), true
	case lexSepBlockSpaced:
		return lexBlanks(r) + lexBlockComment(r, r.Intn(3) == 0) + lexBlanks(r), true
	case lexSepBlockTight:
		return lexBlockComment(r, false), false
	case lexSepLineSpaced:
		return lexBlanks(r) + lexLineComment(r) + lexBlanks(r), true
	case lexSepLineTight:
		return lexLineComment(r), true
	case lexSepSeveral:
		var b strings.Builder
		blank := false
		n := 2 + r.Intn(2)
		for i := 0; i < n; i++ {
			switch r.Intn(3) {
			case 0:
				b.WriteString(lexBlockComment(r, r.Intn(3) == 0))
			case 1:
				b.WriteString(lexLineComment(r))
				blank = true
			default:
				b.WriteString(lexBlockComment(r, false) + " ")
				blank = true
			}
		}
		return b.String(), blank
	case lexSepBlockMultiTight:
		return lexBlockComment(r, true), false
	}
	return " ", true
}

// blockOnly: comment separators without any blank character (for "no blank before '('")
func lexGenTightNoBlank(r *rand.Rand) string {
	b := "/*" + strings.NewReplacer(" ", "_", "\t", "_", "\n", "_", "\r", "_").Replace(lexCommentBody(r, true, false)) + "*/"
	if r.Intn(3) == 0 {
		b += b
	}
	return b
}

// chooseSep picks a separator of a random kind admissible between left and right.
func (conf *lexConf) chooseSep(r *rand.Rand, left *lexLx, right *lexLx, profile int) (string, int) {
	for try := 0; try < 6; try++ {
		var kind int
		switch profile {
		case 0: // anything
			kind = r.Intn(lexSepKinds)
		case 1: // blanks only
			kind = r.Intn(lexSepMixed + 1)
		default: // comment heavy
			kind = lexSepBlockSpaced + r.Intn(lexSepKinds-lexSepBlockSpaced)
		}
		if kind >= lexSepBlockSpaced && !conf.comments {
			kind = r.Intn(lexSepMixed + 1)
		}
		s, blank := lexGenSep(r, kind)
		glue := 0
		if conf.comfort && right != nil && left != nil && left.k == lexKIdent && right.k == lexKSym && right.text == "(" {
			glue = right.glue
			if glue == 0 {
				glue = 1
			}
		}
		if glue == 1 && blank {
			if conf.comments && r.Intn(2) == 0 {
				s, kind = lexGenTightNoBlank(r), lexSepBlockTight
			} else {
				s, kind = "", lexSepNone
			}
		}
		if glue == 2 && !blank {
			s = " " + s
			if kind == lexSepNone {
				kind = lexSepBlank
			}
		}
		next := s
		if right != nil {
			next += right.text
		}
		if left != nil && !conf.canFollow(*left, next) {
			continue
		}
		return s, kind
	}
	if conf.comfort && right != nil && left != nil && left.k == lexKIdent && right.k == lexKSym && right.text == "(" && right.glue != 2 {
		return "", lexSepNone
	}
	return " ", lexSepBlank
}

type lexLayout struct {
	src   string
	offs  []int // byte offset of each lexeme
	kinds []int // separator kind before each lexeme, last entry: trailing separator
}

func (conf *lexConf) render(r *rand.Rand, ls []lexLx, profile int) lexLayout {
	var b strings.Builder
	var lay lexLayout
	for i := range ls {
		var left *lexLx
		if i > 0 {
			left = &ls[i-1]
		}
		var s string
		var k int
		if profile < 0 { // canonical: one blank, or nothing where a blank would change the meaning
			s, k = " ", lexSepBlank
			if i == 0 {
				s, k = "", lexSepNone
			}
			if conf.comfort && left != nil && left.k == lexKIdent && ls[i].k == lexKSym && ls[i].text == "(" && ls[i].glue != 2 {
				s, k = "", lexSepNone
			}
		} else if i == 0 {
			s, k = conf.chooseSep(r, nil, &ls[i], profile)
		} else {
			s, k = conf.chooseSep(r, left, &ls[i], profile)
		}
		b.WriteString(s)
		lay.kinds = append(lay.kinds, k)
		lay.offs = append(lay.offs, b.Len())
		b.WriteString(ls[i].text)
	}
	if profile >= 0 && len(ls) > 0 {
		// trailing separator, possibly a comment at the very end of the input
		last := &ls[len(ls)-1]
		s, k := conf.chooseSep(r, last, nil, profile)
		if conf.comments && r.Intn(4) == 0 {
			t := []string{"//" + lexCommentBody(r, false, false), lexBlockComment(r, false), " //", "/**/"}[r.Intn(4)]
			if conf.canFollow(*last, s+t) {
				s += t
				k = lexSepSeveral
			}
		}
		b.WriteString(s)
		lay.kinds = append(lay.kinds, k)
	}
	lay.src = b.String()
	return lay
}

// ---- generator of valid programs (as lexeme sequences) ---------------------------------------------

type lexPgen struct {
	r      *rand.Rand
	conf   *lexConf
	out    []lexLx
	env    []string
	fresh  int
	budget int
}

var lexIdentPool = []string{"a", "b", "x", "y", "e", "e1", "ex", "E", "_t", "x1", "übr", "λ", "val_2", "n", "f", "g", "k9", "ñ", "日本", "data"}

func (g *lexPgen) emit(l lexLx) { g.out = append(g.out, l) }
func (g *lexPgen) kw(s string)  { g.emit(lexLx{k: lexKKw, text: s, img: s}) }
func (g *lexPgen) sym(s string) { g.emit(lexLx{k: lexKSym, text: s, img: s}) }
func (g *lexPgen) op(s string)  { g.emit(lexLx{k: lexKOp, text: s, img: s}) }
func (g *lexPgen) ident(s string) {
	if strings.HasPrefix(s, "'") {
		g.emit(lexLx{k: lexKQId, text: s, img: s[1 : len(s)-1]})
	} else {
		g.emit(lexLx{k: lexKIdent, text: s, img: s})
	}
}
func (g *lexPgen) call() { g.emit(lexLx{k: lexKSym, text: "(", img: "(", glue: 1}) }

func (g *lexPgen) newName() string {
	g.fresh++
	if g.r.Intn(8) == 0 {
		// quoted identifier with arbitrary content
		s := genString(g.r, false)
		s = strings.NewReplacer("'", "_", "\n", " ", "\r", " ").Replace(s)
		return "'" + s + strconv.Itoa(g.fresh) + "'"
	}
	n := lexIdentPool[g.r.Intn(len(lexIdentPool))]
	if g.r.Intn(2) == 0 {
		n += strconv.Itoa(g.fresh)
	} else {
		n += "_" + strconv.Itoa(g.fresh)
	}
	return n
}

func (g *lexPgen) number() {
	var s string
	switch g.r.Intn(6) {
	case 0:
		s = strconv.Itoa(g.r.Intn(10))
	case 1:
		s = strconv.Itoa(g.r.Intn(100000))
	case 2:
		s = strconv.Itoa(g.r.Intn(100)) + "." + strconv.Itoa(g.r.Intn(1000))
	case 3:
		s = strconv.Itoa(1+g.r.Intn(9)) + "e" + strconv.Itoa(g.r.Intn(5))
	case 4:
		s = strconv.Itoa(1+g.r.Intn(9)) + "." + strconv.Itoa(g.r.Intn(10)) + "e-" + strconv.Itoa(g.r.Intn(5))
	default:
		s = strconv.Itoa(1+g.r.Intn(9)) + "e+" + strconv.Itoa(g.r.Intn(5))
	}
	g.emit(lexLx{k: lexKNum, text: s, img: s})
}

func (g *lexPgen) str() {
	s := genString(g.r, false)
	g.emit(lexLx{k: lexKStr, text: lexEscapeLit(s), img: s})
}

var lexBinOps = []string{"+", "-", "*", "/", "^", "%", "+", "*", "-"}
var lexCmpOps = []string{"<", ">", "<=", ">=", "=", "!="}

func (g *lexPgen) prog(depth int) {
	scope := len(g.env)
	defer func() { g.env = g.env[:scope] }()
	for g.r.Intn(3) == 0 && depth > 0 && g.budget > 0 {
		g.budget--
		if g.r.Intn(4) == 0 {
			// func name(args) body;
			name := g.newName()
			g.kw("func")
			g.ident(name)
			g.sym("(") // after `func name` the parenthesis is no call; any layout is fine outside comfort mode
			g.out[len(g.out)-1].glue = 1
			n := 1 + g.r.Intn(2)
			saved := len(g.env)
			for i := 0; i < n; i++ {
				if i > 0 {
					g.sym(",")
				}
				a := g.newName()
				g.ident(a)
				g.env = append(g.env, a)
			}
			g.sym(")")
			if g.conf.comfort {
				// in comfort mode a body starting with a number, identifier or '(' would be multiplied with the ')'
				g.kw("try")
				g.prog(depth - 1)
				g.kw("catch")
				g.expr(0)
			} else {
				g.prog(depth - 1)
			}
			g.sym(";")
			g.env = g.env[:saved]
			g.env = append(g.env, name)
		} else {
			name := g.newName()
			g.kw("let")
			g.ident(name)
			g.op("=")
			g.expr(depth - 1)
			g.sym(";")
			g.env = append(g.env, name)
		}
	}
	g.expr(depth)
}

func (g *lexPgen) expr(depth int) {
	if depth <= 0 || g.budget <= 0 {
		g.atom(0)
		return
	}
	g.budget--
	switch g.r.Intn(8) {
	case 0, 1, 2:
		g.expr(depth - 1)
		g.op(lexBinOps[g.r.Intn(len(lexBinOps))])
		g.expr(depth - 1)
	case 3:
		g.op("-")
		g.atom(depth - 1)
	case 4:
		if g.conf.comfort {
			g.juxta(depth - 1)
		} else {
			g.atom(depth - 1)
		}
	default:
		g.atom(depth - 1)
	}
}

func (g *lexPgen) cond(depth int) {
	g.expr(depth)
	g.op(lexCmpOps[g.r.Intn(len(lexCmpOps))])
	g.expr(depth)
}

// juxta: an omitted multiplication sign (comfort mode)
func (g *lexPgen) juxta(depth int) {
	switch g.r.Intn(5) {
	case 0: // number identifier
		g.number()
		g.boundIdent()
	case 1: // number (expr)
		g.number()
		g.sym("(")
		g.expr(depth)
		g.sym(")")
	case 2: // (expr)(expr)
		g.sym("(")
		g.expr(depth)
		g.sym(")")
		g.sym("(")
		g.expr(depth)
		g.sym(")")
	case 3: // identifier (expr): needs the blank
		if g.boundIdentPlain() {
			g.emit(lexLx{k: lexKSym, text: "(", img: "(", glue: 2})
			g.expr(depth)
			g.sym(")")
		} else {
			g.number()
		}
	default: // (expr) number | identifier identifier
		if g.r.Intn(2) == 0 {
			g.sym("(")
			g.expr(depth)
			g.sym(")")
			g.number()
		} else if g.boundIdentPlain() {
			if !g.boundIdentPlain() {
				g.number()
			}
		} else {
			g.number()
		}
	}
}

func (g *lexPgen) boundIdent() {
	if len(g.env) == 0 {
		g.ident("pi")
		return
	}
	g.ident(g.env[g.r.Intn(len(g.env))])
}

func (g *lexPgen) boundIdentPlain() bool {
	var plain []string
	for _, n := range g.env {
		if !strings.HasPrefix(n, "'") {
			plain = append(plain, n)
		}
	}
	if len(plain) == 0 {
		return false
	}
	g.ident(plain[g.r.Intn(len(plain))])
	return true
}

func (g *lexPgen) atom(depth int) {
	if depth <= 0 || g.budget <= 0 {
		switch g.r.Intn(5) {
		case 0:
			g.boundIdent()
		case 1:
			g.str()
			if g.r.Intn(2) == 0 {
				g.sym(".")
				g.ident("len")
				g.call()
				g.sym(")")
			}
		default:
			g.number()
		}
		g.postfixSuper()
		return
	}
	g.budget--
	switch g.r.Intn(12) {
	case 0:
		g.sym("(")
		g.expr(depth - 1)
		g.sym(")")
		g.postfixSuper()
	case 1:
		g.sym("[")
		n := g.r.Intn(4)
		for i := 0; i < n; i++ {
			if i > 0 {
				g.sym(",")
			}
			g.expr(depth - 1)
		}
		g.sym("]")
		if n > 0 && g.r.Intn(2) == 0 {
			g.sym("[")
			g.emit(lexLx{k: lexKNum, text: "0", img: "0"})
			g.sym("]")
		} else {
			g.sym(".")
			g.ident("size")
			g.call()
			g.sym(")")
		}
	case 2:
		g.sym("{")
		n := 1 + g.r.Intn(3)
		var keys []string
		for i := 0; i < n; i++ {
			if i > 0 {
				g.sym(",")
			}
			k := g.newName()
			keys = append(keys, k)
			g.ident(k)
			g.sym(":")
			g.expr(depth - 1)
		}
		g.sym("}")
		g.sym(".")
		g.ident(keys[g.r.Intn(len(keys))])
	case 3:
		// (x->body)(arg)
		g.sym("(")
		a := g.newName()
		g.ident(a)
		g.op("->")
		g.env = append(g.env, a)
		g.expr(depth - 1)
		g.env = g.env[:len(g.env)-1]
		g.sym(")")
		g.sym("(")
		g.expr(depth - 1)
		g.sym(")")
	case 4:
		// ((x,y)->body)(a,b); in comfort mode ")(" is a product and "(a,b)" no expression
		if g.conf.comfort {
			g.atom(0)
			return
		}
		g.sym("(")
		g.sym("(")
		a, b := g.newName(), g.newName()
		g.ident(a)
		g.sym(",")
		g.ident(b)
		g.sym(")")
		g.op("->")
		g.env = append(g.env, a, b)
		g.expr(depth - 1)
		g.env = g.env[:len(g.env)-2]
		g.sym(")")
		g.sym("(")
		g.expr(depth - 1)
		g.sym(",")
		g.expr(depth - 1)
		g.sym(")")
	case 5:
		g.kw("if")
		g.cond(depth - 1)
		g.kw("then")
		g.prog(depth - 1)
		g.kw("else")
		g.prog(depth - 1)
	case 6:
		g.kw("try")
		g.expr(depth - 1)
		g.kw("catch")
		g.expr(depth - 1)
	case 7:
		g.kw("switch")
		g.expr(depth - 1)
		n := g.r.Intn(3)
		for i := 0; i < n; i++ {
			g.kw("case")
			g.number()
			g.sym(":")
			g.expr(depth - 1)
		}
		g.kw("default")
		g.expr(depth - 1)
	case 8:
		fn := []string{"sqrt", "abs", "sqr", "sin", "exp"}[g.r.Intn(5)]
		g.ident(fn)
		g.call()
		g.expr(depth - 1)
		g.sym(")")
	case 9:
		g.ident("sqr")
		g.call()
		g.prog(depth - 1)
		g.sym(")")
	default:
		g.atom(0)
	}
}

func (g *lexPgen) postfixSuper() {
	if g.r.Intn(10) == 0 && len(lexSuperRunesGo) > 0 {
		c := lexSuperRunesGo[g.r.Intn(len(lexSuperRunesGo))]
		g.emit(lexLx{k: lexKSuper, text: string(c), img: lexSuperDigits[c]})
	}
}

func lexGenProgram(r *rand.Rand, conf *lexConf) []lexLx {
	g := &lexPgen{r: r, conf: conf, budget: 8 + r.Intn(50)}
	g.prog(2 + r.Intn(4))
	return g.out
}

// lexeme soup for the token-level configurations
func lexGenSoup(r *rand.Rand, conf *lexConf) []lexLx {
	n := 1 + r.Intn(14)
	g := &lexPgen{r: r, conf: conf}
	var ops []string
	for _, o := range conf.ops {
		if conf.spellable(o) {
			ops = append(ops, o)
		}
	}
	for i := 0; i < n; i++ {
		switch r.Intn(10) {
		case 0, 1:
			g.number()
		case 2:
			g.ident(lexIdentPool[r.Intn(len(lexIdentPool))])
			if conf.isWord(g.out[len(g.out)-1].text) {
				g.out = g.out[:len(g.out)-1]
			}
		case 3:
			if len(conf.keywords) > 0 {
				k := conf.keywords[r.Intn(len(conf.keywords))]
				if _, isTop := conf.textOps[k]; !isTop && lexIdentShaped(k) {
					g.kw(k)
				}
			}
		case 4:
			if len(conf.textKeys) > 0 {
				k := conf.textKeys[r.Intn(len(conf.textKeys))]
				if lexIdentShaped(k) {
					g.emit(lexLx{k: lexKTextOp, text: k, img: conf.textOps[k]})
				}
			}
		case 5, 6:
			if len(ops) > 0 {
				g.op(ops[r.Intn(len(ops))])
			}
		case 7:
			syms := []string{"(", ")", "[", "]", "{", "}", ".", ",", ":", ";"}
			g.sym(syms[r.Intn(len(syms))])
			if g.out[len(g.out)-1].text == "(" && r.Intn(2) == 0 {
				g.out[len(g.out)-1].glue = 2
			}
		case 8:
			g.str()
		default:
			if r.Intn(2) == 0 {
				g.ident(g.newName())
				if conf.isWord(g.out[len(g.out)-1].text) {
					g.out = g.out[:len(g.out)-1]
				}
			} else {
				g.postfixSuper()
			}
		}
	}
	return g.out
}

func lexIdentShaped(s string) bool {
	for i, r := range s {
		if i == 0 && !(unicode.IsLetter(r) || r == '_') {
			return false
		}
		if !lexIdentNextGo(r) {
			return false
		}
	}
	return s != ""
}

func (conf *lexConf) isOp(s string) bool {
	for _, o := range conf.ops {
		if o == s {
			return true
		}
	}
	return false
}

func (conf *lexConf) isWord(s string) bool {
	if _, ok := conf.textOps[s]; ok {
		return true
	}
	for _, k := range conf.keywords {
		if k == s {
			return true
		}
	}
	return false
}

// ---- checks ----------------------------------------------------------------------------------------

type lexChk struct {
	Kind   string   `json:"check"` // same | lines | errline | string | qident | corr
	Conf   int      `json:"conf"`
	A      string   `json:"a,omitempty"`
	B      string   `json:"b,omitempty"`
	Ast    bool     `json:"ast,omitempty"`
	Tag    string   `json:"tag,omitempty"` // which kind of respelling: layout | alias | superscript | juxtaposition
	Offs   []int    `json:"offs,omitempty"`
	Expect []string `json:"expect,omitempty"` // lines: per lexeme the tokens "kind:image", joined by NUL
	Marker string   `json:"marker,omitempty"`
	Off    int      `json:"off,omitempty"`
	S      string   `json:"s,omitempty"`
}

type c15 struct {
	c      *Ctx
	confs  []*lexConf
	corr   map[string]struct{} // conf#src already queued
	reqs   []string
	impls  []string
	srcs   []string
	cidx   []int
	failed map[string]bool // sources on which a predicate failed (a model difference there is explained)
}

var lexReInLine = regexp.MustCompile(` in line (\d+)`)

func (h *c15) queue(ci int, src string) {
	key := strconv.Itoa(ci) + "#" + src
	if _, ok := h.corr[key]; ok {
		return
	}
	h.corr[key] = struct{}{}
	conf := h.confs[ci]
	// VERIF_C15_PINNED=1: compare with the model variant of the pinned commit (used once, by hand, to validate that
	// variant against the unrepaired code; the registered check always uses the repaired variant)
	h.reqs = append(h.reqs, conf.request(src, os.Getenv("VERIF_C15_PINNED") == "1"))
	h.impls = append(h.impls, lexCanonTokens(conf.tokens(src)))
	h.srcs = append(h.srcs, src)
	h.cidx = append(h.cidx, ci)
}

func (h *c15) maybeFlush() {
	if len(h.reqs) >= 20000 {
		h.flush()
	}
}

func (h *c15) flush() {
	if len(h.reqs) == 0 {
		return
	}
	resp := h.c.Model(h.reqs)
	for i, r := range resp {
		f := strings.Split(r, "\t")
		conf := h.confs[h.cidx[i]]
		rep := map[string]any{"chk": lexChk{Kind: "corr", Conf: h.cidx[i], A: h.srcs[i]}, "conf_name": conf.name, "src": h.srcs[i], "impl": h.impls[i], "model": r}
		if f[0] != "OK" || len(f) != 3 {
			h.c.disagree++
			h.c.Broken("corr:LEX", "model driver did not return a token stream (FUEL/PANIC/BADREQ)", rep)
			continue
		}
		h.c.Count("modelSpec=" + f[2])
		if f[2] != "S1" {
			h.c.Broken("corr:LEX-spec", "compiled model and compiled reference scanner disagree (contradicts tokenize_refines)", rep)
		}
		if f[1] != h.impls[i] {
			h.c.disagree++
			if h.failed[strconv.Itoa(h.cidx[i])+"#"+h.srcs[i]] {
				h.c.Count("corr-diff-explained-by-violation")
				continue
			}
			h.c.Broken("corr:LEX", "tokenizer and model produce different token streams", rep)
		}
	}
	h.reqs, h.impls, h.srcs, h.cidx = nil, nil, nil, nil
}

func (h *c15) fail(ci int, srcs ...string) {
	for _, s := range srcs {
		h.failed[strconv.Itoa(ci)+"#"+s] = true
	}
}

func lexSigLayout(a, b string) string {
	for _, s := range []string{a, b} {
		if strings.Contains(s, "*//*") || strings.Contains(s, "*///") {
			return "adjacent-comments"
		}
	}
	for _, s := range []string{a, b} {
		for _, op := range []string{"/*", "//"} {
			for i := strings.Index(s, op); i > 0; {
				if !strings.ContainsRune(" \t\r\n", rune(s[i-1])) {
					return "comment-tight-after-token"
				}
				j := strings.Index(s[i+1:], op)
				if j < 0 {
					break
				}
				i += 1 + j
			}
		}
	}
	return "layout-changes-tokens"
}

func (h *c15) astOf(conf *lexConf, src string) (string, error) {
	ast, err := conf.fg.CreateAst(src, conf.fg.Identifier())
	if err != nil {
		return "", err
	}
	return ast.String(), nil
}

func (h *c15) run(k lexChk) {
	c := h.c
	conf := h.confs[k.Conf]
	rep := map[string]any{"chk": k, "conf_name": conf.name}
	switch k.Kind {
	case "same":
		ta, tb := conf.tokens(k.A), conf.tokens(k.B)
		h.queue(k.Conf, k.A)
		h.queue(k.Conf, k.B)
		sig := map[string]string{"alias": "alias-differs-from-ascii", "superscript": "superscript-differs-from-ascii", "juxtaposition": "juxtaposition-differs-from-star"}[k.Tag]
		if sig == "" {
			sig = lexSigLayout(k.A, k.B)
		}
		if k.Tag == "superscript" && conf.comfort {
			sig = "superscript-before-juxtaposition"
		}
		if lexKiTokens(ta) != lexKiTokens(tb) {
			rep["tokens_a"], rep["tokens_b"] = lexKiTokens(ta), lexKiTokens(tb)
			c.Violation(sig, "two spellings of the same token sequence are tokenized differently", rep)
			h.fail(k.Conf, k.A, k.B)
			return
		}
		if k.Ast && conf.fg != nil {
			aa, ea := h.astOf(conf, k.A)
			ab, eb := h.astOf(conf, k.B)
			if (ea == nil) != (eb == nil) || aa != ab {
				rep["ast_a"], rep["ast_b"] = aa, ab
				c.Violation(sig, "two spellings of the same token sequence give different ASTs", rep)
				h.fail(k.Conf, k.A, k.B)
				return
			}
			if ea != nil {
				if os.Getenv("VERIF_C15_DEBUG") != "" && c.hist["same:both-rejected"] < 25 {
					fmt.Fprintf(os.Stderr, "rejected: %q\n   %v\n", k.A, ea)
				}
				c.Count("same:both-rejected")
			} else {
				c.Count("same:both-parsed")
			}
		}
	case "lines":
		toks := conf.tokens(k.A)
		h.queue(k.Conf, k.A)
		ti := 0
		for li, e := range k.Expect {
			if li >= len(k.Offs) {
				break
			}
			want := 1 + strings.Count(k.A[:k.Offs[li]], "\n")
			// e = "n|kind:image|kind:image"
			parts := strings.Split(e, "\x00")
			if conf.comfort && ti < len(toks) && toks[ti].Kind == 14 && toks[ti].Image == "*" && len(parts) > 0 && parts[0] != "14:*" {
				if toks[ti].Line != want {
					rep["token_index"], rep["line"], rep["want"] = ti, toks[ti].Line, want
					c.Violation("line-of-token", "inserted '*' does not carry the line of the token it precedes", rep)
					h.fail(k.Conf, k.A)
					return
				}
				ti++
			}
			for _, p := range parts {
				if ti >= len(toks) || fmt.Sprintf("%d:%s", toks[ti].Kind, toks[ti].Image) != p {
					rep["token_index"], rep["expected"], rep["tokens"] = ti, p, lexKiTokens(toks)
					sig := lexSigLayout(k.A, k.A)
					if ti < len(toks) && strings.HasPrefix(p, strconv.Itoa(toks[ti].Kind)+":") && (toks[ti].Kind == 13 || toks[ti].Kind == 0) {
						// right kind of token, other content
						sig = "string-literal-changed"
						if toks[ti].Kind == 0 {
							sig = "identifier-changed"
						}
						for _, a := range lexTab.aliases {
							if strings.ContainsRune(p, a[0]) && toks[ti].Kind == 13 {
								sig = "alias-inside-string-literal"
							} else if strings.ContainsRune(p, a[0]) {
								sig = "alias-inside-quoted-identifier"
							}
						}
					}
					c.Violation(sig, "token stream is not the lexeme sequence that was written", rep)
					h.fail(k.Conf, k.A)
					return
				}
				if toks[ti].Line != want {
					rep["token_index"], rep["line"], rep["want"] = ti, toks[ti].Line, want
					sig := "line-of-token"
					end := k.Offs[li]
					for end < len(k.A) && !strings.HasPrefix(k.A[end:], "/*") && !strings.ContainsRune(" \t\r\n", rune(k.A[end])) {
						end++
					}
					if strings.HasPrefix(k.A[end:], "/*") {
						sig = "line-of-token-before-multiline-comment"
					}
					c.Violation(sig, "token line is not 1 + number of line breaks before the token", rep)
					h.fail(k.Conf, k.A)
					return
				}
				ti++
			}
		}
		if ti != len(toks) {
			rep["tokens"] = lexKiTokens(toks)
			c.Violation(lexSigLayout(k.A, k.A), "more tokens than lexemes written", rep)
			h.fail(k.Conf, k.A)
		}
	case "errline":
		h.queue(k.Conf, k.A)
		_, err := conf.fg.CreateAst(k.A, conf.fg.Identifier())
		if err == nil {
			c.Count("errline:parsed")
			return
		}
		msg := err.Error()
		if !strings.Contains(msg, k.Marker) {
			c.Count("errline:other-token")
			return
		}
		m := lexReInLine.FindStringSubmatch(msg)
		if m == nil {
			c.Count("errline:no-line")
			return
		}
		c.Count("errline:checked")
		got, _ := strconv.Atoi(m[1])
		want := 1 + strings.Count(k.A[:k.Off], "\n")
		if got != want {
			rep["line"], rep["want"], rep["error"] = got, want, msg
			c.Violation("line-of-syntax-error", "line of the error that names the marker token is not the line the marker starts on", rep)
			h.fail(k.Conf, k.A)
		}
	case "string":
		src := lexEscapeLit(k.S)
		h.queue(k.Conf, src)
		sig := "string-literal-changed"
		for _, a := range lexTab.aliases {
			if strings.ContainsRune(k.S, a[0]) {
				sig = "alias-inside-string-literal"
			}
		}
		toks := conf.tokens(src)
		if len(toks) != 1 || toks[0].Kind != 13 || toks[0].Image != k.S || toks[0].Line != 1 {
			rep["tokens"] = lexCanonTokens(toks)
			c.Violation(sig, "string literal is not tokenized to the string it denotes", rep)
			h.fail(k.Conf, src)
			return
		}
		if conf.fg != nil {
			f, _, err := conf.fg.Generate(src)
			if err != nil {
				rep["error"] = err.Error()
				c.Violation(sig, "string literal is rejected", rep)
				return
			}
			v, err := f.Eval()
			sv, ok := v.(value.String)
			if err != nil || !ok || string(sv) != k.S {
				rep["value"] = fmt.Sprint(v)
				c.Violation(sig, "string literal does not evaluate to the string it denotes", rep)
			}
		}
	case "qident":
		q := "'" + k.S + "'"
		src := "let " + q + "=1;{" + q + ":2}." + q + "+" + q
		h.queue(k.Conf, src)
		sig := "quoted-identifier-changed"
		for _, a := range lexTab.aliases {
			if strings.ContainsRune(k.S, a[0]) {
				sig = "alias-inside-quoted-identifier"
			}
		}
		toks := conf.tokens(src)
		idx := []int{1, 6, 11, 13}
		ok := len(toks) == 14
		if ok {
			for _, i := range idx {
				ok = ok && toks[i].Kind == 0 && toks[i].Image == k.S
			}
		}
		if !ok {
			rep["tokens"] = lexKiTokens(toks)
			c.Violation(sig, "quoted identifier is not taken verbatim", rep)
			h.fail(k.Conf, src)
			return
		}
		if conf.fg != nil {
			f, _, err := conf.fg.Generate(src)
			var v value.Value
			if err == nil {
				v, err = f.Eval()
			}
			if iv, isInt := v.(value.Int); err != nil || !isInt || int(iv) != 3 {
				rep["value"], rep["error"] = fmt.Sprint(v), fmt.Sprint(err)
				c.Violation(sig, "program over a quoted identifier does not evaluate as written", rep)
			}
		}
	case "corr":
		h.queue(k.Conf, k.A)
	}
}

func lexExpectOf(ls []lexLx) []string {
	var per []string
	for _, l := range ls {
		var ps []string
		for _, e := range l.expect() {
			ps = append(ps, fmt.Sprintf("%d:%s", e.kind, e.image))
		}
		per = append(per, strings.Join(ps, "\x00"))
	}
	return per
}

func lexKindsDiffer(a, b []int) int {
	n := 0
	for i := range a {
		if i < len(b) && a[i] != b[i] {
			n++
		}
	}
	return n
}

// respell: alias runes for operators (all = every possible one)
func lexRespellAlias(r *rand.Rand, ls []lexLx) ([]lexLx, bool) {
	out := make([]lexLx, len(ls))
	copy(out, ls)
	changed := false
	for i, l := range out {
		if l.k != lexKOp {
			continue
		}
		rs := []rune(l.text)
		for j, c := range rs {
			var cands []rune
			for _, a := range lexTab.aliases {
				if a[1] == c {
					cands = append(cands, a[0])
				}
			}
			if len(cands) > 0 && r.Intn(3) != 0 {
				rs[j] = cands[r.Intn(len(cands))]
				changed = true
			}
		}
		out[i].text = string(rs)
	}
	return out, changed
}

func lexRespellSuper(ls []lexLx) ([]lexLx, bool) {
	var out []lexLx
	changed := false
	for _, l := range ls {
		if l.k == lexKSuper {
			out = append(out, lexLx{k: lexKOp, text: "^", img: "^"}, lexLx{k: lexKNum, text: l.img, img: l.img})
			changed = true
		} else {
			out = append(out, l)
		}
	}
	return out, changed
}

// lexExplicitStars: the lexeme sequence with every omitted '*' written (comfort mode)
func lexExplicitStars(ls []lexLx) ([]lexLx, bool) {
	var out []lexLx
	changed := false
	last := -1 // 0 number, 1 ident, 2 close
	for _, l := range ls {
		star := false
		switch {
		case l.k == lexKNum || l.k == lexKIdent:
			star = last >= 0
		case l.k == lexKSym && l.text == "(":
			star = last == 0 || last == 2 || (last == 1 && l.glue == 2)
		}
		if star {
			out = append(out, lexLx{k: lexKOp, text: "*", img: "*"})
			changed = true
		}
		out = append(out, l)
		switch {
		case l.k == lexKNum || l.k == lexKSuper:
			last = 0
		case l.k == lexKIdent:
			last = 1
		case l.k == lexKSym && l.text == ")":
			last = 2
		default:
			last = -1
		}
	}
	return out, changed
}

func (h *c15) programChecks(ci int, ls []lexLx, variants int, isProgram bool) {
	c := h.c
	conf := h.confs[ci]
	r := c.rng
	base := conf.render(r, ls, -1)
	exp := lexExpectOf(ls)
	h.run(lexChk{Kind: "lines", Conf: ci, A: base.src, Offs: base.offs, Expect: exp})
	for _, l := range ls {
		c.Count("lexeme=" + lexLxKindNames[l.k])
	}
	for v := 0; v < variants; v++ {
		lay := conf.render(r, ls, v%3)
		for _, k := range lay.kinds {
			c.Count("sep=" + lexSepNames[k])
		}
		d := lexKindsDiffer(base.kinds, lay.kinds)
		c.Case(conf.name+"\x00"+base.src+"\x00"+lay.src, d >= 2)
		h.run(lexChk{Kind: "same", Conf: ci, A: base.src, B: lay.src, Ast: isProgram, Tag: "layout"})
		h.run(lexChk{Kind: "lines", Conf: ci, A: lay.src, Offs: lay.offs, Expect: exp})
		if isProgram && v == 0 && len(ls) > 0 && conf.fg != nil {
			// syntax error naming a marker token
			pos := r.Intn(len(ls) + 1)
			marker := "qqz7" + strconv.Itoa(r.Intn(10))
			ls2 := append(append(append([]lexLx{}, ls[:pos]...), lexLx{k: lexKIdent, text: marker, img: marker}), ls[pos:]...)
			lay2 := conf.render(r, ls2, r.Intn(3))
			c.Case(conf.name+"\x00err\x00"+lay2.src, strings.Count(lay2.src, "\n") >= 2)
			h.run(lexChk{Kind: "errline", Conf: ci, A: lay2.src, Marker: marker, Off: lay2.offs[pos]})
		}
	}
	if len(c.samples) < 6 && len(ls) > 8 {
		lay := conf.render(r, ls, 0)
		c.Sample(map[string]any{"conf": conf.name, "canonical": base.src, "variant": lay.src})
	}
	// aliases, superscripts, omitted '*'
	if al, ok := lexRespellAlias(r, ls); ok {
		a2 := conf.render(r, al, -1)
		c.Case(conf.name+"\x00alias\x00"+a2.src, true)
		c.Count("respell=alias")
		h.run(lexChk{Kind: "same", Conf: ci, A: base.src, B: a2.src, Ast: isProgram, Tag: "alias"})
	}
	if su, ok := lexRespellSuper(ls); ok && conf.isOp("^") {
		s2 := conf.render(r, su, -1)
		c.Case(conf.name+"\x00super\x00"+s2.src, true)
		c.Count("respell=superscript")
		h.run(lexChk{Kind: "same", Conf: ci, A: base.src, B: s2.src, Ast: isProgram, Tag: "superscript"})
	}
	if conf.comfort {
		if st, ok := lexExplicitStars(ls); ok && conf.isOp("*") {
			s2 := conf.render(r, st, -1)
			lay := conf.render(r, ls, r.Intn(3))
			c.Case(conf.name+"\x00juxta\x00"+lay.src, true)
			c.Count("respell=juxtaposition")
			h.run(lexChk{Kind: "same", Conf: ci, A: lay.src, B: s2.src, Ast: isProgram, Tag: "juxtaposition"})
		}
	}
}

// juxtaposition patterns, systematically
func (h *c15) juxtaPatterns(ci int) {
	conf := h.confs[ci]
	if !conf.comfort || conf.fg == nil {
		return
	}
	c := h.c
	num := func(s string) lexLx { return lexLx{k: lexKNum, text: s, img: s} }
	id := func(s string) lexLx { return lexLx{k: lexKIdent, text: s, img: s} }
	sym := func(s string) lexLx { return lexLx{k: lexKSym, text: s, img: s} }
	lefts := [][]lexLx{{num("2")}, {num("1.5")}, {id("x")}, {id("e")}, {sym("("), num("3"), sym(")")}, {sym("("), id("x"), sym(")")}, {num("2"), {k: lexKSuper, text: "²", img: "2"}}}
	rights := [][]lexLx{{num("4")}, {id("y")}, {id("e")}, {id("x1")}, {{k: lexKSym, text: "(", img: "(", glue: 2}, num("5"), sym(")")}, {{k: lexKSym, text: "(", img: "(", glue: 2}, id("y"), lexOp("+"), num("1"), sym(")")}}
	prefix := []lexLx{{k: lexKKw, text: "let", img: "let"}, id("x"), lexOp("="), num("7"), sym(";"), {k: lexKKw, text: "let", img: "let"}, id("y"), lexOp("="), num("3"), sym(";"),
		{k: lexKKw, text: "let", img: "let"}, id("e"), lexOp("="), num("2"), sym(";"), {k: lexKKw, text: "let", img: "let"}, id("x1"), lexOp("="), num("11"), sym(";"), num("1"), lexOp("+")}
	for _, l := range lefts {
		for _, rr := range rights {
			ls := append(append(append([]lexLx{}, prefix...), l...), rr...)
			st, _ := lexExplicitStars(ls)
			s2 := conf.render(c.rng, st, -1)
			for v := 0; v < 6; v++ {
				lay := conf.render(c.rng, ls, v%3)
				c.Case(conf.name+"\x00juxta\x00"+lay.src, true)
				c.Count("juxta-pattern")
				h.run(lexChk{Kind: "same", Conf: ci, A: lay.src, B: s2.src, Ast: true, Tag: "juxtaposition"})
				// and the value
				fa, _, ea := conf.fg.Generate(lay.src)
				fb, _, eb := conf.fg.Generate(s2.src)
				if ea != nil || eb != nil {
					c.Violation("juxtaposition-differs-from-star", "juxtaposition pattern is rejected", map[string]any{"chk": lexChk{Kind: "same", Conf: ci, A: lay.src, B: s2.src, Ast: true, Tag: "juxtaposition"}, "error": fmt.Sprint(ea, eb)})
					continue
				}
				va, _ := fa.Eval()
				vb, _ := fb.Eval()
				if fmt.Sprint(va) != fmt.Sprint(vb) {
					c.Violation("juxtaposition-differs-from-star", "omitted '*' evaluates differently", map[string]any{"chk": lexChk{Kind: "same", Conf: ci, A: lay.src, B: s2.src, Ast: true, Tag: "juxtaposition"}, "a": fmt.Sprint(va), "b": fmt.Sprint(vb)})
				}
			}
		}
	}
}

func lexOp(s string) lexLx { return lexLx{k: lexKOp, text: s, img: s} }

var lexSoupAlphabet = []string{"a", "b1", "e", "1", "2.5", "1e", "e-", "+", "-", "*", "/", "//", "/*", "*/", "**", "<", "<=", "=", "->", "(", ")", "[", "]", "{", "}", ".", ",", ":", ";",
	"\"", "'", "\\", "\\\"", "\\n", " ", "  ", "\t", "\r", "\n", "\r\n", "×", "÷", "–", "•", "ˆ", "²", "³", "⁰", "é", "λ", "_", "let", "if", "\x00", "\xff", "\xc3", "\xe2\x82", "½", "٣", "Ⅷ", "!", "!=", "&", "|", "~", "%", "^", "#", "@", "$", "?", "plus", "mod"}

func lexGenMalformed(r *rand.Rand) string {
	var b strings.Builder
	n := r.Intn(24)
	for i := 0; i < n; i++ {
		if r.Intn(12) == 0 {
			b.WriteRune(rune(r.Intn(0x3000)))
		} else {
			b.WriteString(lexSoupAlphabet[r.Intn(len(lexSoupAlphabet))])
		}
	}
	return b.String()
}

func lexMutate(r *rand.Rand, s string) string {
	rs := []rune(s)
	if len(rs) == 0 {
		return s
	}
	for k := 1 + r.Intn(3); k > 0 && len(rs) > 0; k-- {
		i := r.Intn(len(rs))
		switch r.Intn(5) {
		case 0:
			rs = append(rs[:i], rs[i+1:]...)
		case 1:
			ins := []rune(lexSoupAlphabet[r.Intn(len(lexSoupAlphabet))])
			rs = append(rs[:i], append(ins, rs[i:]...)...)
		case 2:
			rs = append(rs[:i], append([]rune{rs[i]}, rs[i:]...)...)
		case 3:
			j := r.Intn(len(rs))
			rs[i], rs[j] = rs[j], rs[i]
		default:
			rs = rs[:i]
		}
	}
	return string(rs)
}

func runC15(c *Ctx) {
	c.rule = "lexeme sequences of generated valid programs of value.New() (let/func chains, operators, calls, lists, maps, closures, if/try/switch, strings with arbitrary content, quoted identifiers, superscripts; in comfort mode with omitted '*') and lexeme soups for three custom operator tables (multi-rune operators, operators starting with '/', text operators, keywords), each written with a canonical layout and with random separator assignments (none where lexically possible, blanks, tabs, CR, LF, block and line comments set off by blanks and tight against both neighbours, several comments in a row, multi-line comments, comment at end of input) x comments on/off x comfort on/off; alias/superscript/explicit-'*' respellings; string literals and quoted identifiers over all of Unicode; syntax errors naming a marker token; plus a malformed stream for the correspondence. Non-trivial = layout variant pair whose separators differ in kind at >= 2 positions, or a respelling pair, string, quoted identifier or error case that is distinct."
	c.assume = append(c.assume,
		"unicode.IsLetter/IsNumber are an oracle: the harness sends Go's class bits per rune to the model",
		"the operator detector (closure trie) is modelled extensionally as a prefix walk over the operator list",
		"UTF-8 decoding is outside the model: the model receives the rune sequence Go's decoder yields (U+FFFD per invalid byte)",
		"the scanner configuration of a parser is read by reflection from parser2.Parser (operators, unary, textOperators, keyWords, allowComments, comfort)")
	log.SetOutput(io.Discard) // the optimizer logs recovered panics; not this property's business
	lexTab = lexExtractFromSource()
	if len(lexTab.errs) > 0 {
		c.Broken("P2.Oblig.lexExtract_ok", "scanner tables cannot be read from the source: "+strings.Join(lexTab.errs, "; "), nil)
		return
	}
	lexAlias = map[rune]rune{}
	for _, a := range lexTab.aliases {
		lexAlias[a[0]] = a[1]
	}
	for _, e := range lexTab.emit {
		if len(e.toks) == 2 && e.toks[0][1] == "^" {
			lexSuperDigits[e.r] = e.toks[1][1]
			lexSuperRunesGo = append(lexSuperRunesGo, e.r)
		}
	}

	h := &c15{c: c, corr: map[string]struct{}{}, failed: map[string]bool{}}
	for _, cm := range []bool{false, true} {
		for _, cf := range []bool{false, true} {
			h.confs = append(h.confs, lexValueConf(cm, cf))
		}
	}
	nValue := len(h.confs)
	for _, cm := range []bool{false, true} {
		for _, cf := range []bool{false, true} {
			h.confs = append(h.confs,
				lexCustomConf("custom1", []string{"+", "-", "*", "/", "//", "/=", "->", "%", "**", "<", "<=", "<<", "<<=", "==", "<-"}, []string{"-", "!"}, []string{"let", "in", "mod2"}, map[string]string{"plus": "+", "mod": "%"}, cm, cf),
				lexCustomConf("custom2", []string{"|", "||", "|||>", "&", "^", "*", "/*", "-", "--", "---", "+"}, []string{"~", "-"}, nil, nil, cm, cf),
				lexCustomConf("custom3", []string{"#", "@@", "?", "??=", "$", "/", "*", "×"}, []string{"√"}, []string{"e"}, map[string]string{"und": "&", "e2": "^"}, cm, cf))
		}
	}

	// replay of one recorded check
	if p := os.Getenv("VERIF_REPLAY"); p != "" {
		data, err := os.ReadFile(p)
		if err != nil {
			fatal("replay file: %v", err)
		}
		var rep struct {
			Chk lexChk `json:"chk"`
		}
		if err := json.Unmarshal(data, &rep); err != nil || rep.Chk.Kind == "" {
			fatal("replay file has no check")
		}
		c.Case("replay", true)
		h.run(rep.Chk)
		h.flush()
		return
	}

	// corpus: past failures (B15, B23 and what the proofs found) — run first
	for ci, conf := range h.confs[:nValue] {
		if conf.comments {
			for _, p := range [][2]string{{"1 +/*a*/ 2", "1 + 2"}, {"1 /*a*//*b*/ + 2", "1 + 2"}, {"1 +//c\n2", "1 + 2"}, {"let/**/x=1;x", "let x=1;x"},
				{"1 /*a*/ //b\n /*c*/+ 2//", "1 + 2"}, {"1+2/**/", "1+2"}, {"1+2//", "1+2"}, {"1+2 /*", "1+2"}, {"[1,2]/*x*/[0]", "[1,2][0]"}, {"sqrt/**/(4)", "sqrt(4)"}} {
				c.Case("corpus"+p[0], true)
				h.run(lexChk{Kind: "same", Conf: ci, A: p[0], B: p[1], Ast: true, Tag: "layout"})
			}
			h.run(lexChk{Kind: "lines", Conf: ci, A: "pi/*\n\n*/+1", Offs: []int{0, 8, 9}, Expect: []string{"0:pi", "14:+", "12:1"}})
			if conf.comfort {
				h.run(lexChk{Kind: "same", Conf: ci, A: "2/**/3", B: "2*3", Ast: true, Tag: "juxtaposition"})
				h.run(lexChk{Kind: "same", Conf: ci, A: "let ab=2;ab/**/ab", B: "let ab=2;ab*ab", Ast: true, Tag: "juxtaposition"})
			}
		}
		if conf.comfort {
			h.run(lexChk{Kind: "same", Conf: ci, A: "2²(3)", B: "2^2(3)", Ast: true, Tag: "superscript"})
			h.run(lexChk{Kind: "same", Conf: ci, A: "2² 3", B: "2^2*3", Ast: true, Tag: "superscript"})
		}
		for _, s := range []string{"a×b", "a×b–c•d÷eˆf", "\\", "\"", "a\\nb", "\n\r\t", "//", "/*", "'", ""} {
			c.Case("corpus-string"+s, true)
			h.run(lexChk{Kind: "string", Conf: ci, S: s})
		}
		for _, s := range []string{"x÷y", "a b", "a//b", "a/*b", "\"", "a+b", "×"} {
			c.Case("corpus-qident"+s, true)
			h.run(lexChk{Kind: "qident", Conf: ci, S: s})
		}
		h.run(lexChk{Kind: "same", Conf: ci, A: "2×3÷4–1•2ˆ2", B: "2*3/4-1*2^2", Ast: true, Tag: "alias"})
		h.run(lexChk{Kind: "same", Conf: ci, A: "1e–5", B: "1e-5", Ast: true, Tag: "alias"})
	}

	nProg := c.Pick(3000, 18000)
	variants := c.Pick(12, 30)
	nSoup := c.Pick(1500, 12000)
	nStr := c.Pick(20000, 200000)
	nQid := c.Pick(4000, 60000)
	nMal := c.Pick(6000, 80000)

	for i := 0; i < nProg; i++ {
		ci := i % nValue
		ls := lexGenProgram(c.rng, h.confs[ci])
		c.Count(fmt.Sprintf("program-lexemes<=%d", (len(ls)/20+1)*20))
		h.programChecks(ci, ls, variants, true)
		h.maybeFlush()
	}
	for ci := 0; ci < nValue; ci++ {
		h.juxtaPatterns(ci)
	}
	for i := 0; i < nSoup; i++ {
		ci := nValue + i%(len(h.confs)-nValue)
		ls := lexGenSoup(c.rng, h.confs[ci])
		if len(ls) == 0 {
			continue
		}
		h.programChecks(ci, ls, variants/2, false)
		h.maybeFlush()
	}
	for i := 0; i < nStr; i++ {
		s := genString(c.rng, false)
		if i%5 == 0 {
			s += string([]rune{lexTab.aliases[c.rng.Intn(len(lexTab.aliases))][0]}) + genString(c.rng, false)
		}
		ci := i % len(h.confs)
		c.Case("string\x00"+s, true)
		h.run(lexChk{Kind: "string", Conf: ci, S: s})
		h.maybeFlush()
	}
	for i := 0; i < nQid; i++ {
		s := strings.NewReplacer("'", "`", "\n", " ", "\r", " ").Replace(genString(c.rng, false))
		if i%5 == 0 {
			s += string([]rune{lexTab.aliases[c.rng.Intn(len(lexTab.aliases))][0]})
		}
		ci := i % nValue
		c.Case("qident\x00"+s, true)
		h.run(lexChk{Kind: "qident", Conf: ci, S: s})
		h.maybeFlush()
	}
	// malformed stream: correspondence only
	for i := 0; i < nMal; i++ {
		ci := i % len(h.confs)
		var s string
		if i%3 == 0 && h.confs[ci].fg != nil {
			s = lexMutate(c.rng, h.confs[ci].render(c.rng, lexGenProgram(c.rng, h.confs[ci]), c.rng.Intn(3)).src)
		} else {
			s = lexGenMalformed(c.rng)
		}
		c.Count("malformed")
		c.Case("malformed\x00"+h.confs[ci].name+"\x00"+s, len(h.confs[ci].tokens(s)) >= 3)
		h.run(lexChk{Kind: "corr", Conf: ci, A: s})
		h.maybeFlush()
	}
	h.flush()

	// targeted search when an obligation over the regenerated tables is broken: every table rune in
	// every position of a small program
	if len(c.BrokenObligs()) > 0 {
		var runes []rune
		for _, e := range lexTab.emit {
			runes = append(runes, e.r)
		}
		for _, a := range lexTab.aliases {
			runes = append(runes, a[0], a[1])
		}
		for _, e := range lexTab.escapes {
			runes = append(runes, e[0], e[1])
		}
		runes = append(runes, lexTab.strEnd...)
		runes = append(runes, []rune(lexTab.numExcl)...)
		runes = append(runes, []rune(lexTab.identExcl)...)
		for ci := 0; ci < nValue; ci++ {
			for _, r := range runes {
				if r == 0 {
					continue
				}
				h.run(lexChk{Kind: "string", Conf: ci, S: "a" + string(r) + "b"})
				if r != '\'' && r != '\n' && r != '\r' {
					h.run(lexChk{Kind: "qident", Conf: ci, S: "a" + string(r) + "b"})
				}
				if d, ok := lexSuperDigits[r]; ok && h.confs[ci].isOp("^") {
					h.run(lexChk{Kind: "same", Conf: ci, A: "2" + string(r), B: "2^" + d, Ast: true, Tag: "superscript"})
					h.run(lexChk{Kind: "same", Conf: ci, A: "pi" + string(r), B: "pi^" + d, Ast: true, Tag: "superscript"})
				}
				h.run(lexChk{Kind: "corr", Conf: ci, A: "2" + string(r) + "3"})
				h.run(lexChk{Kind: "corr", Conf: ci, A: "x" + string(r) + " y"})
			}
		}
		h.flush()
	}
}
