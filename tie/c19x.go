package main

// C19, additional family: host functions of more than two parameters and variadic Go functions on the minimal float value type.
//
// The functions of example/minimal.go take one argument, so the call sites of GenerateFunc are exercised there with one pushed
// argument only. The property is about the generic chain "instantiated with a minimal value type … and functions": a host that
// registers clamp(a, b, c) or sum(...) goes through the same code with more pushed values. Every program below is written twice:
// with binding constructs / nested calls, and as the plain arithmetic it denotes (a Go closure); both must agree exactly on a grid
// of small integers (all results are exactly representable), with the optimizer on and off, on a fresh stack per evaluation and
// on ONE stack reused by all evaluations of all programs (round-5 seeds C19-13: the compile context of the third and later
// arguments, C19-15: Stack.ToSlice handing a variadic Go function whatever lies above its frame).

import (
	"fmt"
	"strconv"

	"github.com/hneemann/parser2"
	"github.com/hneemann/parser2/funcGen"
)

func c19xGenerator(optimize bool) *funcGen.FunctionGenerator[float64] {
	fb := func(b bool) float64 {
		if b {
			return 1
		}
		return 0
	}
	g := funcGen.New[float64]().
		SetComfort(true).
		AddSimpleOp("=", false, func(a, b float64) (float64, error) { return fb(a == b), nil }).
		AddSimpleOp("<", false, func(a, b float64) (float64, error) { return fb(a < b), nil }).
		AddSimpleOp(">", false, func(a, b float64) (float64, error) { return fb(a > b), nil }).
		AddSimpleOp("+", true, func(a, b float64) (float64, error) { return a + b, nil }).
		AddSimpleOp("-", false, func(a, b float64) (float64, error) { return a - b, nil }).
		AddSimpleOp("*", true, func(a, b float64) (float64, error) { return a * b, nil }).
		AddUnaryFunc("-", func(a float64) (float64, error) { return -a, nil }).
		AddSimpleFunction("sqr", func(x float64) float64 { return x * x }).
		AddStaticFunction("f3", funcGen.Function[float64]{Func: func(st funcGen.Stack[float64], cs []float64) (float64, error) {
			return st.Get(0) + 10*st.Get(1) + 100*st.Get(2), nil
		}, Args: 3, IsPure: true}).
		AddStaticFunction("f4", funcGen.Function[float64]{Func: func(st funcGen.Stack[float64], cs []float64) (float64, error) {
			return st.Get(0) + 10*st.Get(1) + 100*st.Get(2) + 1000*st.Get(3), nil
		}, Args: 4, IsPure: true}).
		AddGoFunction("sum", -1, func(a ...float64) (float64, error) {
			s := 0.0
			for _, x := range a {
				s += x
			}
			return s, nil
		}).
		AddGoFunction("cnt", -1, func(a ...float64) (float64, error) { return float64(len(a)), nil }).
		AddGoFunction("g2", 2, func(a ...float64) (float64, error) { return a[0] - 2*a[1] + 1000*float64(len(a)), nil }).
		SetToBool(func(c float64) (bool, bool) { return c != 0, true }).
		AddGoFunction("chk", 1, func(a ...float64) (float64, error) {
			if a[0] < 0 {
				return 0, fmt.Errorf("negative: %v", a[0])
			}
			return a[0], nil
		}).
		SetKeyWords("let", "if", "then", "else", "try", "catch").
		SetNumberParser(parser2.NumberParserFunc[float64](func(n string) (float64, error) { return strconv.ParseFloat(n, 64) }))
	if !optimize {
		g.SetOptimizer(nil)
	}
	return g
}

type c19xCase struct {
	src  string
	want func(a, b, c float64) float64
}

func c19xCases() []c19xCase {
	f3 := func(a, b, c float64) float64 { return a + 10*b + 100*c }
	f4 := func(a, b, c, d float64) float64 { return a + 10*b + 100*c + 1000*d }
	pos := func(x float64) bool { return x > 0 }
	return []c19xCase{
		{"f3(a, b, c)", f3},
		{"f3(a, b, let h = c * 2; h + 1)", func(a, b, c float64) float64 { return f3(a, b, 2*c+1) }},
		{"f3(a, let h = b * 2; h + 1, c)", func(a, b, c float64) float64 { return f3(a, 2*b+1, c) }},
		{"f3(let h = a * 2; h + 1, b, c)", func(a, b, c float64) float64 { return f3(2*a+1, b, c) }},
		{"f3(a, let p = b + 1; p, let q = c + 2; q * b)", func(a, b, c float64) float64 { return f3(a, b+1, (c+2)*b) }},
		{"f4(a, b, c, let h = a + b; h * c)", func(a, b, c float64) float64 { return f4(a, b, c, (a+b)*c) }},
		{"f4(a, let p = b + 1; p, let q = c + 2; q, let r = a + 3; r)", func(a, b, c float64) float64 { return f4(a, b+1, c+2, a+3) }},
		{"f4(let p = a + 1; p, b, let q = c + 2; let r = q * 2; r - q, a)", func(a, b, c float64) float64 { return f4(a+1, b, c+2, a) }},
		{"f3(a, b, if a > 0 then let p = b; let q = c; p + 2 * q else c)", func(a, b, c float64) float64 {
			if pos(a) {
				return f3(a, b, b+2*c)
			}
			return f3(a, b, c)
		}},
		{"f3(f3(a, b, let h = c; h), f3(let h = a; h, b, c), f3(a, let h = b; h + 1, c))", func(a, b, c float64) float64 { return f3(f3(a, b, c), f3(a, b, c), f3(a, b+1, c)) }},
		{"let x = if a > 0 then let p = b; let q = c; p else c; x * 2 + a", func(a, b, c float64) float64 {
			if pos(a) {
				return b*2 + a
			}
			return c*2 + a
		}},
		{"let x = sqr(let y = a + 1; y) - b; 2x", func(a, b, c float64) float64 { return 2 * ((a+1)*(a+1) - b) }},
		{"let x = f3(let y = a + 1; y, b, let z = c; z + a) - b; 2x + c", func(a, b, c float64) float64 { return 2*(f3(a+1, b, c+a)-b) + c }},
		{"let u = a + 1; f3(u, let v = u * b; v, let w = u + c; w * u)", func(a, b, c float64) float64 { return f3(a+1, (a+1)*b, (a+1+c)*(a+1)) }},
		{"sum(a, b, c)", func(a, b, c float64) float64 { return a + b + c }},
		{"sum(a, sum(b, c))", func(a, b, c float64) float64 { return a + b + c }},
		{"sum(sum(a, b), c)", func(a, b, c float64) float64 { return a + b + c }},
		{"sum(a, sum(b, c), sum(a, b, c, a))", func(a, b, c float64) float64 { return a + (b + c) + (a + b + c + a) }},
		{"sum(a, sum(b, sum(c, sum(a, b))))", func(a, b, c float64) float64 { return a + b + c + a + b }},
		{"sum()", func(a, b, c float64) float64 { return 0 }},
		{"sum(a)", func(a, b, c float64) float64 { return a }},
		{"sum(1, sum(2, 4)) + a", func(a, b, c float64) float64 { return 7 + a }},
		{"sum(a, let h = b; h + c) + sum(let k = c; k, a)", func(a, b, c float64) float64 { return a + b + c + c + a }},
		{"cnt(a, cnt(b, c))", func(a, b, c float64) float64 { return 2 }},
		{"cnt(cnt(a, b, c), b)", func(a, b, c float64) float64 { return 2 }},
		{"cnt(a, b, c, a) + cnt() + cnt(b)", func(a, b, c float64) float64 { return 5 }},
		{"f3(cnt(a, b), cnt(a, cnt(b, c), c), cnt(a))", func(a, b, c float64) float64 { return f3(2, 3, 1) }},
		{"g2(a, g2(b, c))", func(a, b, c float64) float64 { return a - 2*(b-2*c+2000) + 2000 }},
		{"let p = a; let q = b; let r = c; sum(p, q) + sum(q, r) * cnt(p, q, r)", func(a, b, c float64) float64 { return a + b + (b+c)*3 }},
		{"let p = a + 1; let q = b + 1; let r = c + 1; p + q * r", func(a, b, c float64) float64 { return a + 1 + (b+1)*(c+1) }},
		{"sum(a, b)", func(a, b, c float64) float64 { return a + b }},
		// try / catch of the GENERIC generator (value.New() brings its own): a failing host function in every position
		{"try chk(a) catch b", func(a, b, c float64) float64 {
			if a < 0 {
				return b
			}
			return a
		}},
		{"try chk(a) + chk(b) catch c", func(a, b, c float64) float64 {
			if a < 0 || b < 0 {
				return c
			}
			return a + b
		}},
		{"f3(try chk(a) catch 7, b, try let h = chk(c); h + 1 catch 0 - 1)", func(a, b, c float64) float64 {
			x, z := a, c+1
			if a < 0 {
				x = 7
			}
			if c < 0 {
				z = -1
			}
			return f3(x, b, z)
		}},
		{"let x = try chk(a) catch b; x * 2 + c", func(a, b, c float64) float64 {
			if a < 0 {
				return b*2 + c
			}
			return a*2 + c
		}},
		{"try (try chk(a) catch chk(b)) catch c", func(a, b, c float64) float64 {
			if a >= 0 {
				return a
			}
			if b >= 0 {
				return b
			}
			return c
		}},
		{"try f3(a, chk(b), let h = chk(c); h) catch sum(a, b, c)", func(a, b, c float64) float64 {
			if b < 0 || c < 0 {
				return a + b + c
			}
			return f3(a, b, c)
		}},
		{"try chk(1) + 2 catch a", func(a, b, c float64) float64 { return 3 }},
		{"try chk(0 - 1) catch a + 1", func(a, b, c float64) float64 { return a + 1 }},
	}
}

func c19HostFunctions(c *Ctx) {
	grid := []float64{-2, 0, 1, 3}
	vars := []string{"a", "b", "c"}
	for _, opt := range []bool{true, false} {
		mode := map[bool]string{true: "on", false: "off"}[opt]
		g := c19xGenerator(opt)
		shared := funcGen.NewEmptyStack[float64]() // one stack for all evaluations of all programs, in program order
		cases := c19xCases()
		// twice: the second pass meets a stack whose slots above the frame hold what the first pass left there
		for pass := 0; pass < 2; pass++ {
			for _, cs := range cases {
				c.Case("hostfn|"+mode+"|"+cs.src, true)
				c.Count("host-function-programs")
				f, _, err := g.Generate(cs.src, vars...)
				replay := map[string]any{"program": cs.src, "optimizer": mode, "generator": "funcGen.New[float64]() as example/minimal.go + f3/f4 (3 and 4 parameters), sum/cnt (AddGoFunction, variadic), g2 (AddGoFunction, 2)"}
				if err != nil {
					c.Violation("host-function-generate-error", "Generate fails on a well-formed program: "+err.Error(), replay)
					continue
				}
				bad := false
				for _, a := range grid {
					for _, b := range grid {
						for _, cc := range grid {
							want := cs.want(a, b, cc)
							for si, st := range []funcGen.Stack[float64]{funcGen.NewEmptyStack[float64](), shared} {
								got, err := func() (v float64, e error) {
									defer func() {
										if r := recover(); r != nil {
											e = fmt.Errorf("panic: %v", r)
										}
									}()
									return f(st.Init(a, b, cc))
								}()
								if !bad && (err != nil || got != want) {
									bad = true
									replay["a"], replay["b"], replay["c"], replay["want"], replay["got"], replay["error"] = a, b, cc, want, got, fmt.Sprint(err)
									replay["stack"] = []string{"fresh", "one stack reused by all evaluations"}[si]
									c.Violation("host-function-wrong-value", fmt.Sprintf("%s with a=%v b=%v c=%v (optimizer %s, %s stack): got %v (%v), the operators' own definitions give %v", cs.src, a, b, cc, mode, replay["stack"], got, err, want), replay)
								}
							}
						}
					}
				}
			}
		}
	}
}
