package main

// Tie 1 for C03: the operator table of the shipped generator value.New(), probed through the public
// parser API (no hook), written to lean/P2/Generated/OpTables.lean.

import (
	"fmt"
	"go/ast"
	goparser "go/parser"
	"go/token"
	"os"
	"path/filepath"
	"sort"
	"strconv"
	"strings"
	"unicode"
	"unicode/utf8"

	"github.com/hneemann/parser2"
	"github.com/hneemann/parser2/value"
)

func init() { extractors = append(extractors, extractOpTables) }

func c3LeanStrList(l []string) string {
	var parts []string
	for _, s := range l {
		s = strings.ReplaceAll(s, "\\", "\\\\")
		s = strings.ReplaceAll(s, "\"", "\\\"")
		parts = append(parts, "\""+s+"\"")
	}
	return "[" + strings.Join(parts, ", ") + "]"
}

// opCandidates: all 1..3 character strings over ASCII punctuation plus every short string literal
// without letters, digits and blanks found in /repo/value/*.go (non-test files).
func opCandidates() []string {
	const chars = "!#$%&*+-/<=>?@\\^|~"
	set := map[string]bool{}
	for _, a := range chars {
		set[string(a)] = true
		for _, b := range chars {
			set[string(a)+string(b)] = true
			for _, c := range chars {
				set[string(a)+string(b)+string(c)] = true
			}
		}
	}
	files, _ := filepath.Glob(filepath.Join(repoRoot, "value", "*.go"))
	sort.Strings(files)
	fset := token.NewFileSet()
	for _, fn := range files {
		if strings.HasSuffix(fn, "_test.go") {
			continue
		}
		src, err := os.ReadFile(fn)
		if err != nil {
			fatal("extractOpTables: %v", err)
		}
		f, err := goparser.ParseFile(fset, fn, src, 0)
		if err != nil {
			fatal("extractOpTables: %v", err)
		}
		ast.Inspect(f, func(n ast.Node) bool {
			if bl, ok := n.(*ast.BasicLit); ok && bl.Kind == token.STRING {
				if s, err := strconv.Unquote(bl.Value); err == nil && s != "" && utf8.RuneCountInString(s) <= 5 {
					plain := false
					for _, r := range s {
						if unicode.IsLetter(r) || unicode.IsNumber(r) || unicode.IsSpace(r) || r == 0 || r == '_' {
							plain = true
						}
					}
					if !plain {
						set[s] = true
					}
				}
			}
			return true
		})
	}
	var res []string
	for s := range set {
		res = append(res, s)
	}
	sort.Strings(res)
	return res
}

// extractOpTables: the operator table of the shipped generator value.New(), probed through the public
// parser API: OP is binary iff `(a) OP (b)` parses to an Operate with that operator (its Priority is the
// index in the table), a prefix operator iff `OP a` parses to a Unary.
// probeValueTable probes value.New().GetParser(): binary operators in ascending priority, prefix
// operators (sorted), and the number of priorities at which no operator was observed.
func probeValueTable() (ops []string, unary []string, gaps int) {
	p := value.New().GetParser()
	var ids parser2.Identifiers[value.Value]
	ids = ids.Add("a").Add("b")
	isTok := func(t parser2.VerifToken, kind, image string) bool {
		return t.Kind >= 0 && t.Kind < len(parser2.VerifTokenKinds) && parser2.VerifTokenKinds[t.Kind] == kind && t.Image == image
	}
	parse := func(src string) (res parser2.AST, panicked bool) {
		defer func() {
			if r := recover(); r != nil {
				res, panicked = nil, true
			}
		}()
		a, err := p.Parse(src, ids)
		if err != nil {
			return nil, false
		}
		return a, false
	}
	type binOp struct {
		op   string
		prio int
	}
	var bins []binOp
	for _, op := range opCandidates() {
		// operands in parentheses: `a -> b` would be a closure, `(a) -> (b)` is the binary operator
		if ts := p.VerifTokens("(a) " + op + " (b)"); len(ts) == 7 && isTok(ts[1], "ident", "a") && isTok(ts[3], "operate", op) && isTok(ts[5], "ident", "b") {
			if a, _ := parse("(a) " + op + " (b)"); a != nil {
				if o, ok := a.(*parser2.Operate); ok && o.Operator == op {
					if id, ok := o.A.(*parser2.Ident); !ok || id.Name != "a" {
						fatal("extractOpTables: unexpected operands for %q", op)
					}
					bins = append(bins, binOp{op, o.Priority})
				}
			}
		}
		if ts := p.VerifTokens(op + " a"); len(ts) == 2 && isTok(ts[0], "operate", op) && isTok(ts[1], "ident", "a") {
			a, panicked := parse(op + " a")
			// a panic here is the prefix operator that is also the last binary operator (parseOp out of range)
			if u, ok := a.(*parser2.Unary); (ok && u.Operator == op) || panicked {
				unary = append(unary, op)
			}
		}
	}
	sort.Slice(bins, func(i, j int) bool {
		if bins[i].prio != bins[j].prio {
			return bins[i].prio < bins[j].prio
		}
		return bins[i].op < bins[j].op
	})
	// a priority that no probed operator has (e.g. an operator registered twice: only its last
	// position is observable) is counted as a gap; the Lean obligation demands zero gaps
	gaps = 0
	for i, b := range bins {
		if i == 0 {
			gaps += b.prio
		} else if b.prio > bins[i-1].prio {
			gaps += b.prio - bins[i-1].prio - 1
		}
		ops = append(ops, b.op)
	}
	if len(ops) == 0 {
		fatal("extractOpTables: no binary operator found")
	}
	sort.Strings(unary)
	return ops, unary, gaps
}

func extractOpTables() {
	ops, unary, gaps := probeValueTable()
	var b strings.Builder
	b.WriteString("import P2.Model.Parse\n/-! GENERATED by `tie extract` (probing value.New().GetParser() through the public API). Do not edit. -/\nnamespace P2.Generated\n")
	fmt.Fprintf(&b, "def probedValueOps : List String := %s     -- ascending priority\n", c3LeanStrList(ops))
	fmt.Fprintf(&b, "def probedValueUnary : List String := %s       -- sorted\n", c3LeanStrList(unary))
	fmt.Fprintf(&b, "/-- priorities below the highest one at which no operator was observed (0 = the table is complete) -/\ndef probedValueOpsGaps : Nat := %d\n", gaps)
	b.WriteString("end P2.Generated\n")
	writeIfChanged(genPath("OpTables.lean"), []byte(b.String()))
}
