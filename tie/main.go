package main

import (
	"fmt"
	"io"
	"log"
	"os"
)

var props = map[string]func(c *Ctx){}

func main() {
	log.SetOutput(io.Discard) // the library logs recovered panics
	if len(os.Args) < 2 {
		fmt.Fprintln(os.Stderr, "usage: tie extract | tie <Cxx> quick|thorough | tie <Cxx> replay <file> | tie worker ...")
		os.Exit(2)
	}
	switch os.Args[1] {
	case "extract":
		runExtract()
		return
	case "worker":
		runWorker(os.Args[2:])
		return
	}
	f, ok := props[os.Args[1]]
	if !ok {
		fmt.Fprintln(os.Stderr, "unknown property", os.Args[1])
		os.Exit(2)
	}
	tier := "quick"
	if len(os.Args) > 2 {
		tier = os.Args[2]
	}
	c := NewCtx(os.Args[1], tier)
	if tier == "replay" && len(os.Args) > 3 {
		c.Tier = "quick"
		c.extra["replay_of"] = os.Args[3]
		os.Setenv("VERIF_REPLAY", os.Args[3])
	}
	f(c)
	c.Finish()
}
