package main

import (
	"encoding/json"
	"fmt"
	"io"
	"log"
	"os"
)

var props = map[string]func(c *Ctx){}

func main() {
	log.SetOutput(io.Discard) // the library logs recovered panics
	if len(os.Args) < 2 {
		fmt.Fprintln(os.Stderr, "usage: tie extract | tie <Cxx> quick|thorough | tie <Cxx> replay <file> | tie worker ...")
		os.Exit(2)
	}
	switch os.Args[1] {
	case "extract":
		runExtract()
		return
	case "worker":
		runWorker(os.Args[2:])
		return
	}
	f, ok := props[os.Args[1]]
	if !ok {
		fmt.Fprintln(os.Stderr, "unknown property", os.Args[1])
		os.Exit(2)
	}
	tier := "quick"
	if len(os.Args) > 2 {
		tier = os.Args[2]
	}
	c := NewCtx(os.Args[1], tier)
	if tier == "replay" && len(os.Args) > 3 {
		c.Tier = "quick"
		c.extra["replay_of"] = os.Args[3]
		// a replay file that carries the single failing case in the form the harness can re-run is replayed alone; the
		// others (cases of the deterministic sweeps and families, dead harnesses, broken obligations) are replayed by
		// running the quick tier again, which contains those sweeps
		need := map[string]string{"C03": "text", "C08": "shape", "C09": "history", "C13": "tokens", "C14": "a", "C15": "chk", "C20": "request"}
		single := true
		if key, ok := need[os.Args[1]]; ok {
			single = false
			if data, err := os.ReadFile(os.Args[3]); err == nil {
				var rep map[string]any
				if json.Unmarshal(data, &rep) == nil {
					switch v := rep[key].(type) {
					case string:
						single = v != ""
					case nil:
					default:
						single = true
					}
				}
			}
		}
		if single {
			os.Setenv("VERIF_REPLAY", os.Args[3])
		} else {
			c.extra["replay_mode"] = "the quick tier was run again (the replay file names no single re-runnable case)"
		}
	}
	f(c)
	c.Finish()
}
