package main

// C07, second part: the built-ins that were outside the model until now — string.behind / behindList,
// list.multiUse, list.linearReg, list.createInterpolation, bisection, createLowPass (validation, shape,
// `initial`; the filter step calls math.Exp and stays unmodelled from there on) and float.string (where the
// shortest decimal is evident). Same predicate as the rest of C07: implementation = spec, values by kind and
// value, floats by bit pattern (the model computes with the same IEEE operations in the same order).

import (
	"fmt"
	"strings"

	"github.com/hneemann/parser2/value"
)

var c07xLineRecvs = []string{"\"\"", "\"abc\"", "\"a: 1\\nb: 2\"", "\"a: 1\\nb: 2\\n\"", "\"key=val\\nkey=other\"", "\"  h  \\n x \\ny\\n\\nz\"", "\"h\\nh\\nx\"", "\"x\\n\\nh\"", "\"\\n\\n\"",
	"\"aaa\"", "\"é: ü\\nö: 日本 \"", "\"h\\n\\nx\"", "\"k:\\tv\\t\\nk2: w\"", "\"😀=1\\n😀😀=2\"", "\"abab\\nab\"", "\"h\\nx\\ny\"", "\" \\n h\\n\u00a0x\u2003\\n  \\ny\"", "\"a=b=c\"", "s", "(s+\"\\nh\\n\"+s+\"\\n\\n\"+s)",
	"\"head\\r\\nx\\r\\n\\r\\ny\"", "\"h\\n \\nx\""}

func (g *c07gen) behindCall(recv, m string) (call, argCls string, misuse bool) {
	var x string
	if m == "behind" {
		x = g.pick("\"\"", "\"a\"", "\"b:\"", "\"key=\"", "\"aa\"", "\"h\"", "\" \"", "\"\\n\"", "\"é:\"", "\"z\"", "\"😀\"", "\"😀😀=\"", "\"ab\"", "\"=\"", "\"k:\"", "\"a: 1\"", "\"abc\"", "\"abcd\"", "\"b: 2\\n\"", "\"ö:\"", "\"hi\"")
	} else {
		x = g.pick("\"h\"", "\" h \"", "\"\"", "\"x\"", "\"zz\"", "\"head\"", "\"a: 1\"", "\"h\\n\"", "\"  \"", "\"hi there\"", "\"\\th\"")
	}
	argCls = "needle"
	if g.chance(0.08) {
		x, argCls, misuse = g.pick("1", "[\"a\"]", "true", "1.5", "e->e"), "notstr", true
	}
	call = fmt.Sprintf("%s.%s(%s)", recv, m, x)
	if !misuse && g.chance(0.03) {
		call, argCls, misuse = call[:len(call)-1]+", 1)", "argcount", true
	}
	if !misuse {
		switch g.r.Intn(6) {
		case 0:
			if m == "behind" {
				call += g.pick(".len()", ".toUpper()", ".split(\" \")", ".behind(\"=\")")
			} else {
				call += g.pick(".size()", ".map(e->e.len())", ".reverse()", ".map(e->e.behind(\"=\"))", ".first()")
			}
		case 1:
			if m == "behind" {
				call = recv + ".split(\"\\n\").map(w->w.behind(" + x + "))"
			}
		}
	}
	return
}

// ---------------------------------------------------------------------------------------------
// multiUse

var c07xMuSources = []string{"[]", "[5]", "[1,2,3]", "[1,2,3,4,5]", "numbers(6)", "numbers(0)", "numbers(20).accept(e->e%3!=1)", "l", "l.map(e->e+a)", "[3,1,2].order(e->e)",
	"[1,2,3].map(e->if e=3 then throw(\"s\") else e)", "[1,2,3].map(e->if e=1 then throw(\"s\") else e)", "numbers(40).map(e->e*e).skip(3)", "[2,2,7,2].compact((x,y)->x=y)"}

var c07xMuLinear = []string{"q->q.sum()", "q->q.size()", "q->q.map(e->e*2)", "q->q.top(2)", "q->q.first()", "q->q.reverse()", "q->{s:q.mapReduce(0,(s,e)->s+e)}", "q->[q.accept(e->e>1)]",
	"q->q.reduce((x,y)->x+y)+1", "q->q.skip(1).map(e->e+a).eval()", "q->q", "q->q.last()", "q->q.present(e->e>2)", "q->q.map(e->if e=2 then throw(\"c\") else e)", "q->q.map(e->throw(\"c\")).first()",
	"q->q.top(0).size()", "q->q.string()", "q->[[q.map(e->[e])]]", "q->0-q.size()", "q->q.indexWhere(e->e>1)", "q->q.accept(e->e%2=0).map(e->e*e).sum()", "q->q.skip(2).first()", "q->q.size()=3",
	"q->q.append(9)", "q->q.mapReduce([],(acc,e)->acc.append(e*2))", "q->q.top(2).size()", "q->q.combine((x,y)->y-x)"}

// the first use does not remember the elements, the second one needs them again: documented error
var c07xMuTwice = []string{"q->q.sum()+q.size()", "q->[q.map(e->e), q.map(e->e+1)]", "q->{m: q.map(e->e), k: q.map(e->e+1)}", "q->[q.sum(), q.top(1)]", "q->q.reduce((x,y)->x+y)*q.first()"}

var c07xMuOpaque = []string{"q->[q, q]", "q->[q, q.size()]", "q->{m:q.size(), k:q.first()}", "q->q.size()*q.size()", "q->let w=q.map(e->e); w.sum()", "q->q.replaceList(w->w.size())", "q->(w->w.sum())(q)", "q->if a>1 then q.sum() else q.size()", "q->q.cross(q,(x,y)->x+y).size()",
	"q->[1,2].cross(q,(x,y)->x+y).size()", "q->try q.sum() catch 0"}

func (g *c07gen) multiUseCase() c07Case {
	src := g.pick(c07xMuSources...)
	n := 1 + g.r.Intn(3)
	keys := []string{"a", "b", "c"}
	if g.chance(0.3) {
		keys = []string{"z", "m", "b"}
	}
	var ent []string
	cls := "linear"
	misuse := false
	for i := 0; i < n; i++ {
		f := g.pick(c07xMuLinear...)
		ent = append(ent, keys[i]+": "+f)
	}
	x := g.r.Float64()
	pos := g.r.Intn(n)
	switch {
	case x < 0.10:
		ent[pos], cls, misuse = keys[pos]+": "+g.pick(c07xMuTwice...), "twice", true
	case x < 0.16:
		ent[pos], cls, misuse = keys[pos]+": "+g.pick("1", "\"f\"", "[1]", "(p,q)->p", "{f:1}"), "notfn", true
	case x < 0.20:
		ent, cls, misuse = nil, "empty-map", true
	case x < 0.28:
		ent[pos], cls = keys[pos]+": "+g.pick(c07xMuOpaque...), "opaque"
	case x < 0.33:
		// a consumer that never iterates its list: fine with an empty source, the 5 s path otherwise (slow cases, run on the side)
		src = g.pick("[]", "numbers(0)", "[1,2].accept(e->e>5)")
		ent[pos], cls = keys[pos]+": "+g.pick("q->1", "q->a", "q->[a]"), "ignoring-empty-source"
	}
	call := src + ".multiUse({" + strings.Join(ent, ", ") + "})"
	if cls == "linear" && g.chance(0.04) {
		call, cls, misuse = src+".multiUse("+g.pick("1", "[q->q]", "\"m\"", "q->q")+")", "notmap", true
	}
	if !misuse {
		call += g.pick("", "", "", ".string()", "."+keys[pos], ".size()", ".list().size()")
	}
	return c07Case{src: call, method: "list.multiUse", mode: cmpExact, misuse: misuse, recvCls: "int:" + src, argCls: cls, emptyRecv: src == "[]" || src == "numbers(0)"}
}

// the ignoring consumers with a non-empty source take iterator.CopyProducer's 5 s timeout: evaluated on goroutines of
// their own while the rest of the harness runs; the implementation must answer with an error
var c07xSlow = []string{"[1,2,3].multiUse({a: q->q.sum(), b: q->7})", "numbers(4).map(e->e+a).multiUse({a: q->a})"}

// ---------------------------------------------------------------------------------------------
// linearReg, createInterpolation

var c07xPointRecvs = []string{"[]", "[{x:1,y:2}]", "[{x:0,y:1},{x:1,y:3},{x:2,y:5}]", "[{x:0,y:1},{x:1,y:0},{x:2,y:4},{x:5,y:4}]", "[{x:1,y:1},{x:1,y:2}]", "[{x:2,y:1},{x:0,y:5},{x:1,y:0}]",
	"[{x:0-3,y:0-1},{x:0-1,y:7},{x:4,y:0.5}]", "[{x:0.5,y:0.25},{x:1.5,y:2},{x:4,y:0-1}]", "[{x:0,y:1e300},{x:1,y:0-1e300},{x:2,y:1e300}]", "numbers(6).map(e->{x:e,y:e*e})",
	"numbers(9).map(e->{x:e/4,y:e%3})", "numbers(5).map(e->if e=2 then throw(\"s\") else {x:e,y:e})", "numbers(3).map(e->if e=2 then throw(\"s\") else {x:e,y:e})", "[{x:0,y:0},{x:\"s\",y:1}]", "[{x:0,y:0},{x:1,y:[1]}]",
	"[{x:0,y:0},{x:1,y:1},{x:1,y:2},{x:3,y:0}]", "[{x:1,y:5},{x:2,y:5},{x:3,y:5}]", "[{x:0.1,y:0.2},{x:0.3,y:0.7},{x:0.7,y:0.1}]", "[{x:0,y:0},{x:0/0,y:1},{x:2,y:2}]", "[{x:0-1e308,y:0},{x:1e308,y:1}]",
	"[1].map(e->throw(\"s\"))", "[{x:0,y:3},{x:a,y:a*2}]", "[{x:0,y:0},{x:1,y:1}]",
	// y values that cancel: y0 + (y1-y0)*1 is not y1, so a node reached from the wrong side shows
	"[{x:0,y:1e16},{x:1,y:1},{x:2,y:0-1e16},{x:3,y:0.5},{x:4,y:3}]", "[{x:0,y:1e16},{x:1,y:1},{x:2,y:0-1e16},{x:3,y:0.5},{x:4,y:3}]"}

var c07xQueries = []string{"0", "1", "2", "0.5", "1.5", "0-1", "5", "100", "0-3", "4", "0.25", "3.999", "0.3", "0.7", "0.2", "a", "a/2", "2.0", "0/0", "1e308", "0-1e308*10", "1e308*10"}

func (g *c07gen) pointFns() (fx, fy, cls string, misuse bool) {
	fx, fy, cls = "p->p.x", "p->p.y", "ok"
	switch x := g.r.Float64(); {
	case x < 0.10:
		fx, fy = g.pick("p->p.x*2", "p->p.x/2", "p->p.x+a", "p->0-p.x", "p->p.x*p.x"), g.pick("p->p.y", "p->p.y*0.5", "p->p.x", "p->1", "p->p.x*p.y")
	case x < 0.16:
		which := g.pick("p->\"s\"", "p->throw(\"f\")", "p->p.zz", "p->[p.x]", "p->p.x>1")
		if g.chance(0.5) {
			fx = which
		} else {
			fy = which
		}
		cls = "fail"
	case x < 0.22:
		bad := g.pick("1", "\"f\"", "[1]", "(p,q)->p", "{f:1}")
		if g.chance(0.5) {
			fx = bad
		} else {
			fy = bad
		}
		cls, misuse = "notfn", true
	}
	return
}

func (g *c07gen) regCase() c07Case {
	recv := g.pick(c07xPointRecvs...)
	fx, fy, cls, misuse := g.pointFns()
	call := fmt.Sprintf("%s.linearReg(%s, %s)", recv, fx, fy)
	if !misuse && g.chance(0.03) {
		call, cls, misuse = fmt.Sprintf("%s.linearReg(%s)", recv, fx), "argcount", true
	}
	if !misuse {
		q := g.pick(c07xQueries...)
		switch g.r.Intn(7) {
		case 0:
			call += ".a"
		case 1:
			call += ".b"
		case 2:
			call += ".lineFunc(" + q + ")"
		case 3:
			call = "let r=" + call + "; [r.a, r.b, r.lineFunc(" + q + "), r.lineFunc(" + g.pick(c07xQueries...) + ")]"
		case 4:
			call = "numbers(4).map(" + call + ".lineFunc)"
		case 5:
			call += ".lineFunc(" + g.pick("\"s\"", "[1]", "true", "{x:1}") + ")"
			cls, misuse = "query-notnum", true
		}
	}
	return c07Case{src: call, method: "list.linearReg", mode: cmpExact, misuse: misuse, recvCls: "points:" + recv, argCls: cls, emptyRecv: recv == "[]"}
}

func (g *c07gen) interpCase() c07Case {
	recv := g.pick(c07xPointRecvs...)
	fx, fy, cls, misuse := g.pointFns()
	mk := fmt.Sprintf("%s.createInterpolation(%s, %s)", recv, fx, fy)
	call := mk
	if !misuse && g.chance(0.03) {
		call, cls, misuse = fmt.Sprintf("%s.createInterpolation(%s, %s, 1)", recv, fx, fy), "argcount", true
	}
	if strings.Contains(recv, "throw") && cls == "ok" {
		cls = "srcfail"
	}
	if !misuse {
		q := g.pick(c07xQueries...)
		switch g.r.Intn(7) {
		case 0, 1, 2:
			call = mk + "(" + q + ")"
		case 3:
			call = "let f=" + mk + "; [f(" + q + "), f(" + g.pick(c07xQueries...) + "), f(" + g.pick(c07xQueries...) + ")]"
		case 4:
			call = "[" + q + "," + g.pick(c07xQueries...) + ",0,1,2].map(" + mk + ")"
		case 5:
			call = mk + "(" + g.pick("\"s\"", "[1]", "true", "{x:1}") + ")"
			if cls == "ok" {
				cls, misuse = "query-notnum", true
			}
		}
	}
	return c07Case{src: call, method: "list.createInterpolation", mode: cmpExact, misuse: misuse, recvCls: "points:" + recv, argCls: cls, emptyRecv: recv == "[]"}
}

// ---------------------------------------------------------------------------------------------
// bisection, createLowPass, float.string

func (g *c07gen) bisectionCase() c07Case {
	f := g.pick("x->x*x-2", "x->x-1", "x->x*x*x-x-1", "x->1-x", "x->x", "x->0", "x->1", "x->x*x+1", "x->if x>1 then 1 else 0-1", "x->x-a", "x->(x-1)*(x-3)", "x->x*0.5-0.25", "x->1/x", "x->sqrt(abs(x))-1", "x->x*x-2.0")
	iv := g.pick("0, 2", "2, 0", "1, 1", "0-1, 2", "0, 0.5", "1, 4", "0-4, 4", "0.5, 3.5", "0, 1e300", "0-2, 0-1", "0, a", "1, 2", "0/0, 1")
	eps := g.pick("", "", "", ", 0.001", ", 0.5", ", 1", ", 0", ", 0-1", ", \"x\"", ", 0.000001", ", 3", ", 0.0000000000001")
	cls, misuse := "ok", false
	switch x := g.r.Float64(); {
	case x < 0.08:
		f, cls = g.pick("x->throw(\"f\")", "x->\"s\"", "x->x.zz", "x->[x]", "x->if x>0.6 then throw(\"late\") else x-1"), "fail"
	case x < 0.14:
		f, cls, misuse = g.pick("1", "\"f\"", "[1]", "(p,q)->p", "{f:1}"), "notfn", true
	case x < 0.19:
		iv, cls, misuse = g.pick("\"0\", 2", "0, [2]", "true, 2", "0, x->x"), "notnum", true
	case x < 0.22:
		iv, eps, cls, misuse = "0", "", "argcount", true
	case x < 0.25:
		eps, cls, misuse = ", 0.1, 5", "argcount", true
	}
	return c07Case{src: fmt.Sprintf("bisection(%s, %s%s)", f, iv, eps), method: "static.bisection", mode: cmpExact, misuse: misuse, recvCls: "static", argCls: cls}
}

var c07xLowPass = []c07Case{
	{src: "createLowPass(\"y\", p->p.t, p->p.x, 1)", argCls: "shape"},
	{src: "createLowPass(\"y\", p->p.t, p->p.x, 0.5).initial({t:0,x:5})", argCls: "initial"},
	{src: "createLowPass(\"y\", p->p.t, p->p.x*2, 2).initial({t:0,x:5}).y", argCls: "initial"},
	{src: "createLowPass(\"y\", p->p.t, p->[p.x], 2).initial({t:0,x:a})", argCls: "initial"},
	{src: "createLowPass(\"y\", p->p.t, p->p.zz, 2).initial({t:0,x:a})", argCls: "initial-fails"},
	{src: "createLowPass(\"y\", p->p.t, p->p.x, 1).initial(7)", argCls: "initial-fails"},
	{src: "[{t:0,x:1},{t:1,x:2},{t:2,x:0}].iirApply(createLowPass(\"lp\", p->p.t, p->p.x, 1)).first()", argCls: "first"},
	{src: "[{t:0,x:1},{t:1,x:2},{t:2,x:0}].iirApply(createLowPass(\"lp\", p->p.t, p->p.x, 1)).top(1)", argCls: "first"},
	{src: "[{t:0,x:1}].iirApply(createLowPass(\"lp\", p->p.t, p->p.x, a))", argCls: "first"},
	{src: "[].iirApply(createLowPass(\"lp\", p->p.t, p->p.x, 1))", argCls: "empty"},
	{src: "[{t:0,x:1},{t:1,x:2},{t:2,x:0}].iirApply(createLowPass(\"lp\", p->p.t, p->p.x, 1)).size()", argCls: "exp"},
	{src: "[{t:0,x:1},{t:1,x:2}].iirApply(createLowPass(\"lp\", p->p.zz, p->p.x, 1)).size()", argCls: "filter-fails"},
	{src: "[{t:0,x:1},{t:\"s\",x:2}].iirApply(createLowPass(\"lp\", p->p.t, p->p.x, 1)).size()", argCls: "filter-fails"},
	{src: "[{t:0,x:1},{t:1,x:[2]}].iirApply(createLowPass(\"lp\", p->p.t, p->p.x, 1)).size()", argCls: "filter-fails"},
	{src: "createLowPass(\"y\", p->p.t, p->p.x, 1).filter({t:0,x:0},{t:1},{y:0})", argCls: "filter-fails"},
	{src: "createLowPass(1, p->p.t, p->p.x, 1)", argCls: "bad", misuse: true},
	{src: "createLowPass(\"y\", 1, p->p.x, 1)", argCls: "bad", misuse: true},
	{src: "createLowPass(\"y\", p->p.t, (p,q)->p, 1)", argCls: "bad", misuse: true},
	{src: "createLowPass(\"y\", p->p.t, p->p.x, \"1\")", argCls: "bad", misuse: true},
	{src: "createLowPass(\"y\", p->p.t, p->p.x)", argCls: "argcount", misuse: true},
	{src: "createLowPass(\"y\", p->p.t, p->p.x, 1, 2)", argCls: "argcount", misuse: true},
	{src: "createLowPass(1,2,3,4)", argCls: "bad", misuse: true},
}

var c07xFloatStr = []string{"(1.5).string()", "(0.25).string()", "(a/2).string()", "(a/4).string()", "(2.0).string()", "(0-7.75).string()", "(123456.5).string()", "(100000.0).string()", "(1000000.0).string()",
	"(0.0001220703125).string()", "(0.1).string()", "(1/3).string()", "(0.0).string()", "(a*0.0).string()", "(0-a*0.0).string()", "(999999.9375).string()", "(0.5+0.125).string()", "(3.0*a).string()", "(1e21).string()",
	"(0/0).string()", "(1/0).string()", "(0.00006103515625).string()", "(4503599627370496.5).string()", "(65536.00390625).string()", "(1.5).string().len()", "[0.5,1.25,2].map(e->e.string())", "(1.5).string(1)"}

// laws of the new built-ins, evaluated on implementation outcomes alone (Props/C07.lean, part d)
func (g *c07gen) lawsX() []c07Law {
	S := g.pick(c07xLineRecvs...)
	P := g.pick("\"a\"", "\"b:\"", "\"key=\"", "\"h\"", "\"=\"", "\"é:\"", "\"k:\"", "\"ab\"", "\"😀\"")
	V := g.pick("\"v\"", "\"some value\"", "\"x=1\"", "\"日本\"", "\"\"", "\"a b\"")
	K := g.pick("\"h\"", "\" h \"", "\"head\"", "\"x\"")
	pts := g.pick("[{x:0,y:1},{x:1,y:3},{x:2,y:5}]", "[{x:0,y:1},{x:1,y:0},{x:2,y:4},{x:5,y:4}]", "[{x:0.5,y:0.25},{x:1.5,y:2},{x:4,y:0-1}]", "numbers(6).map(e->{x:e,y:e*e})", "[{x:0-3,y:0-1},{x:0-1,y:7},{x:4,y:0.5}]",
		"[{x:0,y:1e16},{x:1,y:1},{x:2,y:0-1e16},{x:3,y:0.5},{x:4,y:3}]")
	mu := g.pick(c07xMuSources[:10]...)
	f1, f2 := g.pick(c07xMuLinear...), g.pick(c07xMuLinear...)
	bf := g.pick("x->x*x-2", "x->x-1", "x->x*x*x-x-1", "x->1-x", "x->x*0.5-0.25")
	be := g.pick("0.001", "0.5", "0.000001", "0.0000000001")
	return []c07Law{
		{name: "behind-has-no-newline", lhs: S + ".behind(" + P + ").contains(\"\\n\")", rhs: "false"},
		{name: "behind-is-trimmed", lhs: S + ".behind(" + P + ").trim()", rhs: S + ".behind(" + P + ")"},
		{name: "behind-of-constructed", lhs: "(\"pre\\n..\"+" + P + "+\"  \"+" + V + "+\" \\nrest\"+" + P + "+\"other\").behind(" + P + ")", rhs: V + ".trim()"},
		{name: "behind-absent-is-empty", lhs: "if " + S + ".contains(" + P + ") then \"\" else " + S + ".behind(" + P + ")", rhs: "\"\""},
		{name: "behindList-of-constructed", lhs: "(\"pre\\n \"+" + K + "+\"\\n a \\nb\\n\\nrest\").behindList(" + K + ")", rhs: "[\"a\",\"b\"]"},
		{name: "behindList-items-trimmed-nonempty", lhs: S + ".behindList(" + K + ").present(e->e=\"\" | e.trim()!=e)", rhs: "false"},
		{name: "multiUse-is-map-of-applications", lhs: mu + ".multiUse({u: " + f1 + ", v: " + f2 + "})", rhs: "{u: (" + f1 + ")(" + mu + "), v: (" + f2 + ")(" + mu + ")}"},
		{name: "interpolation-hits-nodes", lhs: "let w=" + pts + "; let f=w.createInterpolation(p->p.x,p->p.y); w.present(p->f(p.x)!=p.y)", rhs: "false"},
		{name: "interpolation-clamps", lhs: "let w=" + pts + "; let f=w.createInterpolation(p->p.x,p->p.y); [f(w.first().x-10), f(w.last().x+10)]", rhs: "let w=" + pts + "; [float(w.first().y), float(w.last().y)]"},
		{name: "interpolation-between-neighbours", lhs: "let w=" + pts + "; let f=w.createInterpolation(p->p.x,p->p.y); w.combine((p,q)->let m=f((p.x+q.x)/2); m<min(p.y,q.y) | m>max(p.y,q.y)).present(b->b)", rhs: "false"},
		{name: "linearReg-lineFunc-is-ax+b", lhs: "let r=" + pts + ".linearReg(p->p.x,p->p.y); r.lineFunc(3)", rhs: "let r=" + pts + ".linearReg(p->p.x,p->p.y); r.a*3+r.b"},
		{name: "linearReg-collinear", lhs: "let r=numbers(5).map(e->{x:e,y:3*e+2}).linearReg(p->p.x,p->p.y); [r.a, r.b]", rhs: "[3.0, 2.0]"},
		{name: "bisection-result-is-small", lhs: "abs((" + bf + ")(bisection(" + bf + ", 0, 2, " + be + ")))<" + be, rhs: "true"},
		{name: "bisection-result-in-bracket", lhs: "let r=bisection(" + bf + ", 0, 2, " + be + "); r>=0 & r<=2", rhs: "true"},
	}
}

// c07ExtCases adds the families of the second part.
func c07ExtCases(c *Ctx, g *c07gen, add func(c07Case)) {
	per := c.Pick(260, 5000)
	for _, cs := range []c07Case{
		{src: "[1].map(e->throw(\"x\")).createInterpolation(p->1, p->2)(7)", method: "list.createInterpolation", argCls: "srcfail"},
		{src: "[1,2].map(e->if e=2 then throw(\"x\") else e).createInterpolation(p->5, p->2)(1)", method: "list.createInterpolation", argCls: "srcfail"},
		{src: "[].createInterpolation(p->p.x, p->p.y)(1)", method: "list.createInterpolation", argCls: "ok"},
		{src: "[].createInterpolation(p->p.x, p->p.y)", method: "list.createInterpolation", argCls: "ok"},
		{src: "[].linearReg(p->p.x, p->p.y)", method: "list.linearReg", argCls: "ok"},
		{src: "[1,2,3].multiUse({a: q->q.sum()+q.size()})", method: "list.multiUse", argCls: "twice", misuse: true},
		{src: "[1,2,3].multiUse({m: q->{m: q.map(e->e), k: q.map(e->e+1)}})", method: "list.multiUse", argCls: "twice", misuse: true},
		{src: "[].multiUse({a: q->1, b: q->q.size()})", method: "list.multiUse", argCls: "ignoring-empty-source"},
		{src: "[1,2,3].map(e->if e=3 then throw(\"s\") else e).multiUse({a: q->q.first(), b: q->q.top(2)})", method: "list.multiUse", argCls: "linear"},
		{src: "[1,2,3].map(e->if e=3 then throw(\"s\") else e).multiUse({a: q->q.first(), b: q->q.size()})", method: "list.multiUse", argCls: "linear"},
		{src: "bisection(x->x*x-2, 0, 2, \"x\")", method: "static.bisection", argCls: "ok"},
		{src: "bisection(x->x*x-2, 0, 2, 0)", method: "static.bisection", argCls: "ok"},
		{src: "\"abab\".behind(\"\")", method: "string.behind", argCls: "needle"},
		{src: "\"x=1\\ny=2\".behind(\"1\\ny\")", method: "string.behind", argCls: "needle"},
	} {
		cs.mode = cmpExact
		cs.recvCls = "corpus"
		add(cs)
	}
	for _, m := range []string{"behind", "behindList"} {
		for i := 0; i < per; i++ {
			ri := g.r.Intn(len(c07xLineRecvs))
			call, argCls, misuse := g.behindCall(c07xLineRecvs[ri], m)
			add(c07Case{src: call, method: "string." + m, mode: cmpExact, misuse: misuse, recvCls: "string:" + c07xLineRecvs[ri], argCls: argCls, emptyRecv: ri == 0})
		}
	}
	for i := 0; i < per*2; i++ {
		add(g.multiUseCase())
	}
	for i := 0; i < per; i++ {
		add(g.regCase())
		add(g.interpCase())
	}
	for i := 0; i < per; i++ {
		add(g.bisectionCase())
	}
	for _, cs := range c07xLowPass {
		cs.method, cs.mode, cs.recvCls = "static.createLowPass", cmpExact, "static"
		add(cs)
	}
	for _, src := range c07xFloatStr {
		add(c07Case{src: src, method: "float.string", mode: cmpExact, recvCls: "float", argCls: "fixed", misuse: strings.HasSuffix(src, "(1)")})
	}
}

// c07SlowStart evaluates the 5 s cases on goroutines of their own; the returned function waits for them and judges.
func c07SlowStart(c *Ctx) func() {
	type res struct{ src, out string }
	ch := make(chan res, len(c07xSlow))
	for _, src := range c07xSlow {
		go func(src string) {
			ch <- res{src, evalOutcomeQuiet(src, c07Names, c07ArgPool[0].build())}
		}(src)
	}
	return func() {
		for range c07xSlow {
			r := <-ch
			c.Case("multiUse-ignoring|"+r.src, true)
			c.Count("m:list.multiUse")
			c.Count("arg:ignoring-nonempty-source")
			if r.out != "ERR" && r.out != "GENERR" {
				c.Violation("misuse-not-an-error:list.multiUse", "a multiUse consumer that never iterates its list did not make the call an error (the documented timeout path)",
					map[string]any{"program": r.src, "arg_names": c07Names, "args": fmt.Sprintf("%+v", c07ArgPool[0]), "impl": r.out})
			}
		}
	}
}

// evalOutcomeQuiet: evalOutcome without the breadcrumb (it runs beside the main loop)
func evalOutcomeQuiet(src string, names []string, args []value.Value) (out string) {
	defer func() {
		if r := recover(); r != nil {
			out = fmt.Sprintf("PANIC %v", r)
		}
	}()
	fg := newValueFG(false)
	f, _, err := fg.Generate(src, names...)
	if err != nil {
		return "GENERR"
	}
	v, err := f.Eval(args...)
	if err != nil {
		return "ERR"
	}
	s, err := canonValue(v)
	if err != nil {
		return "ERR"
	}
	return "OK " + s
}

// c07MultiUseDirect: multiUse against the direct application of its consumers on the implementation alone, for the
// consumers whose number of iterations is not evident from their text (the spec leaves them unmodelled): the call
// answers with an error or with the map of the direct applications.
func c07MultiUseDirect(c *Ctx, g *c07gen) {
	fgOff := newValueFG(false)
	n := c.Pick(60, 1500)
	for i := 0; i < n; i++ {
		src := g.pick(c07xMuSources...)
		f1 := g.pick(c07xMuOpaque...)
		f2 := g.pick(c07xMuLinear...)
		t := &c07ArgPool[i%len(c07ArgPool)]
		mu := src + ".multiUse({u: " + f1 + ", v: " + f2 + "})"
		direct := "{u: (" + f1 + ")(" + src + "), v: (" + f2 + ")(" + src + ")}"
		l := evalOutcome(fgOff, mu, c07Names, t.build())
		r := evalOutcome(fgOff, direct, c07Names, t.build())
		c.Case("multiUse-direct|"+mu+"|"+itoa(i%len(c07ArgPool)), true)
		c.Count("multiUse-direct:" + strings.SplitN(l, " ", 2)[0])
		if strings.HasPrefix(l, "PANIC") {
			c.Violation("panic-escaped-eval", "a Go panic escaped Func.Eval", map[string]any{"program": mu, "impl": l})
			continue
		}
		if l != "ERR" && l != r {
			c.Violation("multiUse-structure", "multiUse answered neither with an error nor with the map of its functions applied to the list",
				map[string]any{"program": mu, "must_equal": direct, "impl_lhs": l, "impl_rhs": r, "arg_names": c07Names, "args": fmt.Sprintf("%+v", *t)})
		}
	}
}
