package main

// Isolated evaluation worker: `tie worker eval` reads one case per line from stdin
// (id TAB a TAB flags TAB program) and answers `id TAB outcome` per line, flushed. The parent
// detects a crash (process exit, race report) by the missing answer. Host functions registered on
// the fresh generator: slow(x) (300µs, forces the parallel switch of map/accept), boom(x) (panics),
// tick(x) (counts), gid(x) (returns the goroutine id hash, to observe the parallel switch).

import (
	"bufio"
	"fmt"
	"os"
	"os/exec"
	"path/filepath"
	"runtime"
	"strconv"
	"strings"
	"sync"
	"sync/atomic"
	"time"

	"github.com/hneemann/parser2/funcGen"
	"github.com/hneemann/parser2/value"
)

func init() { workers["eval"] = workerEval }

var workerGoroutines atomic.Pointer[sync.Map] // goroutine ids that executed slow() in the current case
var workerTicks atomic.Int64

// forced arrival order of the current case (flag `sched=<base>:<v1>,<v2>,…`)
type workerSched struct {
	base int64
	turn map[int64]int
	pos  atomic.Int64
}

var workerSchedule atomic.Pointer[workerSched]

var workerBarrierGen, workerBarrierN atomic.Int64

func parseSched(flags string) *workerSched {
	for _, f := range strings.Split(flags, ";") {
		if rest, ok := strings.CutPrefix(f, "sched="); ok {
			bs, order, ok := strings.Cut(rest, ":")
			if !ok {
				return nil
			}
			g := &workerSched{turn: map[int64]int{}}
			g.base, _ = strconv.ParseInt(bs, 10, 64)
			for k, x := range strings.Split(order, ",") {
				v, _ := strconv.ParseInt(x, 10, 64)
				g.turn[v] = k
			}
			return g
		}
	}
	return nil
}

func goid() int64 {
	var buf [64]byte
	n := runtime.Stack(buf[:], false)
	f := strings.Fields(string(buf[:n]))
	if len(f) >= 2 {
		id, _ := strconv.ParseInt(f[1], 10, 64)
		return id
	}
	return 0
}

func newHostFG(optimize bool) *value.FunctionGenerator {
	fg := value.New()
	add := func(name string, pure bool, f func(v value.Value) (value.Value, error)) {
		fg.AddStaticFunction(name, funcGen.Function[value.Value]{
			Func: func(st funcGen.Stack[value.Value], cs []value.Value) (value.Value, error) { return f(st.Get(0)) },
			Args: 1, IsPure: pure}.SetDescription("v", "host function of the verification harness"))
	}
	add("slow", false, func(v value.Value) (value.Value, error) {
		if m := workerGoroutines.Load(); m != nil {
			m.Store(goid(), true)
		}
		time.Sleep(300 * time.Microsecond)
		return v, nil
	})
	add("quick", false, func(v value.Value) (value.Value, error) { return v, nil })
	// barrier(x): waits until four callers have arrived (at most 20 ms) and lets them go on at the same moment: what the
	// closures of a parallel stage do next happens simultaneously on several workers
	add("barrier", false, func(v value.Value) (value.Value, error) {
		if m := workerGoroutines.Load(); m != nil {
			m.Store(goid(), true)
		}
		gen := workerBarrierGen.Load()
		if workerBarrierN.Add(1)%4 == 0 {
			workerBarrierGen.Add(1)
			return v, nil
		}
		// spin (no yield): the waiters sit on their own processors and leave within nanoseconds of each other
		start := time.Now()
		for i := 0; workerBarrierGen.Load() == gen; i++ {
			if i%1024 == 0 && time.Since(start) > 20*time.Millisecond {
				break
			}
		}
		return v, nil
	})
	// gate(x): slow like slow(x) below the base of the current schedule (so that the stage goes parallel); from the
	// base on it returns in the order the schedule prescribes (best effort: it waits at most 40 ms for its turn),
	// which forces the order in which the workers' results arrive at the collector
	add("gate", false, func(v value.Value) (value.Value, error) {
		g := workerSchedule.Load()
		i, ok := v.(value.Int)
		if m := workerGoroutines.Load(); m != nil {
			m.Store(goid(), true)
		}
		if g == nil || !ok || int64(i) < g.base {
			time.Sleep(300 * time.Microsecond)
			return v, nil
		}
		turn, ok := g.turn[int64(i)]
		if !ok {
			return v, nil
		}
		start := time.Now()
		for g.pos.Load() != int64(turn) && time.Since(start) < 40*time.Millisecond {
			time.Sleep(20 * time.Microsecond)
		}
		time.Sleep(200 * time.Microsecond) // the one released before has time to hand its result over
		g.pos.Store(int64(turn) + 1)
		return v, nil
	})
	add("boom", false, func(v value.Value) (value.Value, error) { panic("host function panics") })
	add("fail", false, func(v value.Value) (value.Value, error) { return nil, fmt.Errorf("host function fails") })
	add("tick", false, func(v value.Value) (value.Value, error) { workerTicks.Add(1); return v, nil })
	if !optimize {
		fg.SetOptimizer(nil)
	}
	return fg
}

func workerEval(args []string) {
	in := bufio.NewScanner(os.Stdin)
	in.Buffer(make([]byte, 1<<20), 1<<26)
	out := bufio.NewWriter(os.Stdout)
	defer out.Flush()
	for in.Scan() {
		f := strings.SplitN(in.Text(), "\t", 4)
		if len(f) != 4 {
			continue
		}
		a, _ := strconv.Atoi(f[1])
		flags := f[2]
		fg := newHostFG(!strings.Contains(flags, "noopt"))
		seen := &sync.Map{}
		workerGoroutines.Store(seen) // a read-ahead element of the previous case may still be running: it keeps its own map
		before := workerTicks.Load()
		workerSchedule.Store(parseSched(flags))
		var res string
		if strings.Contains(flags, "newstack") {
			res = evalOutcomeNewStack(fg, f[3], a)
		} else if strings.Contains(flags, "withmap") {
			res = evalOutcomeWithMap(fg, f[3], a)
		} else {
			res = evalOutcome(fg, f[3], []string{"a"}, []value.Value{value.Int(a)})
		}
		if strings.Contains(flags, "settle") {
			// closures evaluated in the background AFTER the evaluation has returned count as well: wait until the counter has
			// been at rest for 40 ms, at most 1.5 s
			last, since := workerTicks.Load(), time.Now()
			for deadline := time.Now().Add(1500 * time.Millisecond); time.Now().Before(deadline) && time.Since(since) < 40*time.Millisecond; {
				time.Sleep(5 * time.Millisecond)
				if now := workerTicks.Load(); now != last {
					last, since = now, time.Now()
				}
			}
		}
		ng := 0
		seen.Range(func(k, v any) bool { ng++; return true })
		fmt.Fprintf(out, "%s\t%s\tg=%d\tt=%d\n", f[0], res, ng, workerTicks.Load()-before)
		out.Flush()
	}
}

type workerCase struct {
	id    string
	a     int
	flags string
	src   string
	// results
	outcome   string // canonical outcome, or CRASH / TIMEOUT / RACE
	goroutines int
	ticks     int
	stderr    string
}

// runWorkerBatch runs the cases in one child process; if the child dies or stalls, the remaining
// cases are re-run one by one so that the culprit is identified.
func runWorkerBatch(cases []*workerCase, race bool, gomaxprocs int, perCase time.Duration) {
	pending := cases
	for len(pending) > 0 {
		done := runWorkerOnce(pending, race, gomaxprocs, perCase)
		if done == len(pending) {
			return
		}
		// the case at index `done` killed or stalled the worker: it already carries its verdict
		pending = pending[done+1:]
	}
}

func runWorkerOnce(cases []*workerCase, race bool, gomaxprocs int, perCase time.Duration) int {
	bin := filepath.Join(verifRoot, ".work/bin/tie")
	if race {
		bin = filepath.Join(verifRoot, ".work/bin/tie-race")
	}
	cmd := exec.Command(bin, "worker", "eval")
	cmd.Env = append(os.Environ(), "GOMEMLIMIT=2GiB", "GORACE=halt_on_error=1 exitcode=66")
	if gomaxprocs > 0 {
		cmd.Env = append(cmd.Env, fmt.Sprintf("GOMAXPROCS=%d", gomaxprocs))
	}
	stdin, _ := cmd.StdinPipe()
	stdout, _ := cmd.StdoutPipe()
	var errb strings.Builder
	cmd.Stderr = &limitedWriter{b: &errb, max: 8000}
	if err := cmd.Start(); err != nil {
		fatal("cannot start worker %s: %v", bin, err)
	}
	lines := make(chan string, 16)
	go func() {
		sc := bufio.NewScanner(stdout)
		sc.Buffer(make([]byte, 1<<20), 1<<26)
		for sc.Scan() {
			lines <- sc.Text()
		}
		close(lines)
	}()
	go func() {
		w := bufio.NewWriter(stdin)
		for _, c := range cases {
			fmt.Fprintf(w, "%s\t%d\t%s\t%s\n", c.id, c.a, c.flags, strings.ReplaceAll(c.src, "\n", " "))
		}
		w.Flush()
		stdin.Close()
	}()
	done := 0
	for done < len(cases) {
		select {
		case l, ok := <-lines:
			if !ok {
				// worker died while working on cases[done]
				err := cmd.Wait()
				c := cases[done]
				c.outcome = "CRASH"
				if ee, ok := err.(*exec.ExitError); ok && ee.ExitCode() == 66 {
					c.outcome = "RACE"
				}
				c.stderr = errb.String()
				return done
			}
			f := strings.Split(l, "\t")
			if len(f) >= 4 && f[0] == cases[done].id {
				cases[done].outcome = f[1]
				cases[done].goroutines, _ = strconv.Atoi(strings.TrimPrefix(f[2], "g="))
				cases[done].ticks, _ = strconv.Atoi(strings.TrimPrefix(f[3], "t="))
				done++
			}
		case <-time.After(perCase):
			cmd.Process.Kill()
			cmd.Wait()
			cases[done].outcome = "TIMEOUT"
			cases[done].stderr = errb.String()
			return done
		}
	}
	cmd.Wait()
	return done
}

type limitedWriter struct {
	b   *strings.Builder
	max int
}

func (w *limitedWriter) Write(p []byte) (int, error) {
	if w.b.Len() < w.max {
		k := w.max - w.b.Len()
		if k > len(p) {
			k = len(p)
		}
		w.b.Write(p[:k])
	}
	return len(p), nil
}

// parallelBatches splits the cases into n batches run concurrently.
func parallelBatches(cases []*workerCase, n int, race bool, gomaxprocs int, perCase time.Duration) {
	var wg sync.WaitGroup
	for i := 0; i < n; i++ {
		var part []*workerCase
		for j := i; j < len(cases); j += n {
			part = append(part, cases[j])
		}
		if len(part) == 0 {
			continue
		}
		wg.Add(1)
		go func(p []*workerCase) {
			defer wg.Done()
			runWorkerBatch(p, race, gomaxprocs, perCase)
		}(part)
	}
	wg.Wait()
}

// evalOutcomeNewStack calls the generated function with a host-built stack (funcGen.NewStack), as the
// repository's own tests do, instead of Func.Eval.
func evalOutcomeNewStack(fg *value.FunctionGenerator, src string, a int) (out string) {
	defer func() {
		if r := recover(); r != nil {
			out = fmt.Sprintf("PANIC %v", r)
		}
	}()
	f, _, err := fg.Generate(src, "a")
	if err != nil {
		return "GENERR"
	}
	v, err := f(funcGen.NewStack[value.Value](value.Int(a)))
	if err != nil {
		return "ERR"
	}
	s, err := canonValue(v)
	if err != nil {
		return "ERR"
	}
	return "OK " + s
}

// evalOutcomeWithMap uses the second entry point: GenerateWithMap(src, "m") evaluated on the map {a: a}
// (the free identifier a of the program is the attribute m.a).
func evalOutcomeWithMap(fg *value.FunctionGenerator, src string, a int) (out string) {
	defer func() {
		if r := recover(); r != nil {
			out = fmt.Sprintf("PANIC %v", r)
		}
	}()
	f, _, err := fg.GenerateWithMap(src, "m")
	if err != nil {
		return "GENERR"
	}
	v, err := f.Eval(buildMap([]string{"a"}, []value.Value{value.Int(a)}, 0))
	if err != nil {
		return "ERR"
	}
	s, err := canonValue(v)
	if err != nil {
		return "ERR"
	}
	return "OK " + s
}
