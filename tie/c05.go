package main

// C05 — no program can crash the host: fault enumeration in isolated worker processes.
// Every fault source is placed in every evaluation context; the worker must answer ERR (or the
// catch value inside try/catch) and must never die, hang or let a panic escape Eval.

import (
	"fmt"
	"strings"
	"time"
)

func init() { props["C05"] = runC05 }

type faultSource struct {
	name string
	expr string // an int-typed expression that faults at run time (uses the argument a = 0)
	kind string // "error" (ordinary error in the Go code) | "panic" (was/is a Go panic site) | "host-panic" | "guard"
}

var faultSources = []faultSource{
	{"mod-zero", "(7 % a)", "panic"},
	{"shift-left-negative", "(1 << (a - 1))", "panic"},
	{"shift-right-negative", "(1 >> (a - 1))", "panic"},
	{"neq-incomparable", "(if 1 != \"a\" then 1 else 2)", "panic"},
	{"switch-incomparable", "(switch a case \"x\" : 1 default 2)", "panic"},
	{"tilde-incomparable", "(if 1 ~ [\"a\"] then 1 else 2)", "panic"},
	{"random-zero", "random(a)", "panic"},
	{"combineN-zero", "[1, 2, 3].combineN(a, w -> 1).size()", "panic"},
	{"combineN-negative", "[1, 2, 3].combineN(a - 1, w -> 1).size()", "panic"},
	{"index-out-of-range", "[1][a + 5]", "error"},
	{"negative-index", "[1][a - 1]", "error"},
	{"throw", "throw(\"t\")", "error"},
	{"less-incomparable", "(if \"a\" < 1 then 1 else 2)", "error"},
	{"not-a-function", "a(1)", "error"},
	{"wrong-arg-count", "(e -> e)(1, 2)", "error"},
	{"method-missing", "a.nosuch()", "error"},
	{"empty-reduce", "[].reduce((p, q) -> p + q)", "error"},
	{"empty-first", "[].first()", "error"},
	{"callback-wrong-type", "[1, 2].accept(e -> e).size()", "error"},
	{"key-missing", "{x: 1}.y", "error"},
	{"put-existing", "{x: 1}.put(\"x\", 2).x", "error"},
	{"host-error", "fail(1)", "error"},
	{"host-panic", "boom(1)", "host-panic"},
	{"add-type-error", "(1 + true)", "error"},
	{"neg-type-error", "(0 - \"a\")", "error"},
	{"if-not-bool", "(if a then 1 else 2)", "error"},
	{"runaway-self-application", "(f -> f(f))(f -> f(f))", "guard"},
	{"runaway-recursion-stack-guard", "(r0 -> r0)(0) + (let z = 0; 0) + rec(0)", "guard"},
}

type faultContext struct {
	name    string
	tmpl    string // %s = the fault expression
	catch   bool   // the fault sits inside try/catch: the catch value must be returned
	slow    bool   // uses the slow host function (parallel switch)
	prelude string
}

var faultContexts = []faultContext{
	{"top-level", "%s", false, false, ""},
	{"in-closure", "(k -> k + %s)(1)", false, false, ""},
	{"in-try", "try %s catch 0 - 99", true, false, ""},
	{"in-try-closure-handler", "try %s catch e -> 0 - 99", true, false, ""},
	{"in-closure-in-try", "try (k -> k + %s)(1) catch 0 - 99", true, false, ""},
	{"in-let-value", "let q = %s; q + 1", false, false, ""},
	{"in-call-argument", "max(1, 2, %s)", false, false, ""},
	{"in-sequential-map", "[1, 2, 3].map(e -> e + %s).sum()", false, false, ""},
	{"in-sequential-map-in-try", "try [1, 2, 3].map(e -> e + %s).sum() catch 0 - 99", true, false, ""},
	{"in-sequential-accept", "[1, 2, 3].accept(e -> e > %s).size()", false, false, ""},
	{"in-parallel-map", "numbers(40).map(e -> slow(e) + (if e = 25 then %s else 0)).sum()", false, true, ""},
	{"in-parallel-map-in-try", "try numbers(40).map(e -> slow(e) + (if e = 25 then %s else 0)).sum() catch 0 - 99", true, true, ""},
	{"in-parallel-accept", "numbers(40).accept(e -> slow(e) >= (if e = 25 then %s else 0)).size()", false, true, ""},
	{"downstream-of-parallel-map", "numbers(40).map(e -> slow(e)).mapReduce(0, (s, e) -> s + (if e = 30 then %s else e))", false, true, ""},
	{"downstream-of-parallel-in-try", "try numbers(40).map(e -> slow(e)).mapReduce(0, (s, e) -> s + (if e = 30 then %s else e)) catch 0 - 99", true, true, ""},
	{"upstream-of-parallel-map", "numbers(40).map(e -> if e = 30 then %s else e).map(e -> slow(e)).sum()", false, true, ""},
	{"in-merge-operand", "numbers(5).map(e -> e + (if e = 3 then %s else 0)).merge(numbers(5), (p, q) -> p < q).size()", false, false, ""},
	{"in-merge-second-operand", "numbers(5).merge(numbers(5).map(e -> e + (if e = 3 then %s else 0)), (p, q) -> p < q).size()", false, false, ""},
	{"in-merge-less", "numbers(5).merge(numbers(5), (p, q) -> p < q + %s).size()", false, false, ""},
	// the operand is a stage WITHOUT a recover of its own (number runs its closure in the producer): on the goroutine iterator.ToChan
	// starts for the operand only recoverProducer stands between the panic and the end of the process (P2.Recover: mergeA, mergeB)
	{"in-merge-operand-unguarded-stage", "numbers(5).number((n, e) -> e + (if e = 3 then %s else 0)).merge(numbers(5), (p, q) -> p < q).size()", false, false, ""},
	{"in-merge-second-operand-unguarded-stage", "numbers(5).merge(numbers(5).number((n, e) -> e + (if e = 3 then %s else 0)), (p, q) -> p < q).size()", false, false, ""},
	{"in-merge-second-operand-unguarded-stage-in-try", "try numbers(5).merge(numbers(5).combine((p, r) -> p + (if r = 3 then %s else 0)), (p, q) -> p < q).size() catch 0 - 99", true, false, ""},
	{"in-multiUse-consumer", "numbers(5).multiUse({s: l -> l.map(e -> e + %s).sum(), n: l -> l.size()}).s", false, false, ""},
	{"in-multiUse-source", "numbers(5).map(e -> e + (if e = 3 then %s else 0)).multiUse({s: l -> l.sum(), n: l -> l.size()}).n", false, false, ""},
	{"in-multiUse-consumer-lazy-combine-result", "numbers(5).multiUse({s: l -> l.combine((p, q) -> p + %s), n: l -> l.size()}).s.size()", false, false, ""},
	{"in-multiUse-consumer-lazy-iir-result-in-map", "numbers(5).multiUse({s: l -> {r: l.iir(e -> e, (e, p) -> p + %s)}, n: l -> l.size()}).s.r.size()", false, false, ""},
	{"in-multiUse-consumer-lazy-number-result-in-try", "try numbers(5).multiUse({s: l -> l.number((n, e) -> e + %s), n: l -> l.size()}).s.size() catch 0 - 99", true, false, ""},
	{"in-multiUse-consumer-lazy-cross-result", "numbers(3).multiUse({s: l -> l.cross([1, 2], (p, q) -> p + %s), n: l -> l.size()}).s.size()", false, false, ""},
	{"in-combine-behind-parallel-map", "numbers(40).map(e -> slow(e)).combine((p, q) -> p + (if q = 30 then %s else 0)).sum()", false, true, ""},
	{"in-compact", "[1, 1, 2, 3].compact((p, q) -> p = q + %s).size()", false, false, ""},
	{"in-cross", "[1, 2].cross([3, 4], (p, q) -> p + %s).size()", false, false, ""},
	{"in-fsm", "[1, 2, 3].fsm((s, e) -> goto(s.state + %s)).size()", false, false, ""},
	{"in-number", "[1, 2, 3].number((n, e) -> n + %s).sum()", false, false, ""},
	{"in-combineN", "[1, 2, 3, 4].combineN(2, w -> w[0] + %s).sum()", false, false, ""},
	{"in-order-key", "[3, 1, 2].order(e -> e + %s).first()", false, false, ""},
	{"in-groupBy", "[3, 1, 2].groupByInt(e -> e + %s).size()", false, false, ""},
	{"in-map-method", "{x: 1, y: 2}.map((k, v) -> v + %s).x", false, false, ""},
	{"in-iir", "[1, 2, 3].iir(e -> e, (e, l) -> l + %s).last()", false, false, ""},
	{"in-visit", "[1, 2, 3].visit(0, (v, e) -> v + %s)", false, false, ""},
	{"in-list-literal-index", "[1, %s, 3][0]", false, false, ""},
	// the fault sits in a lazy list that is an operand of a comparison (which evaluates it, on whatever goroutine it likes)
	{"in-eq-right-operand", "if [1, 2, 3] = [1, 2, 3].number((n, e) -> e + %s) then 1 else 2", false, false, ""},
	{"in-eq-left-operand", "if [1, 2, 3].number((n, e) -> e + %s) = [1, 2, 3] then 1 else 2", false, false, ""},
	{"in-eq-right-operand-in-try", "try (if [1, 2, 3] = [1, 2, 3].combine((p, r) -> p + %s) then 1 else 2) catch 0 - 99", true, false, ""},
	{"in-ne-right-operand", "if [1, 2, 3] != [1, 2, 3].iir(e -> e, (e, l) -> l + %s) then 1 else 2", false, false, ""},
	{"in-tilde-right-operand", "if 2 ~ [1, 2, 3].number((n, e) -> e + %s) then 1 else 2", false, false, ""},
	{"in-tilde-left-list-operand", "if [1, 2].number((n, e) -> e + %s) ~ [1, 2, 3] then 1 else 2", false, false, ""},
	{"in-switch-case-list", "switch [1, 2, 3] case [1, 2, 3].number((n, e) -> e + %s) : 1 default 2", false, false, ""},
	{"in-switch-value-list", "switch [1, 2, 3].number((n, e) -> e + %s) case [1, 2, 3] : 1 default 2", false, false, ""},
	{"in-nested-eq-operand", "if {k: [1, 2]} = {k: [1, 2].number((n, e) -> e + %s)} then 1 else 2", false, false, ""},
	{"in-groupByEqual-key", "[1, 2, 3].groupByEqual(e -> [e].number((n, x) -> x + %s)).size()", false, false, ""},
	// the fault is an item of a lazy list that flows through a further stage: every stage hands it on
	{"upstream-of-accept", "[1, 2, 3].map(e -> e + %s).accept(e -> e >= 0).size()", false, false, ""},
	{"upstream-of-accept-in-try", "try [1, 2, 3].number((n, e) -> e + %s).accept(e -> e >= 0).size() catch 0 - 99", true, false, ""},
	{"upstream-of-map", "[1, 2, 3].number((n, e) -> e + %s).map(e -> e + 1).size()", false, false, ""},
	{"upstream-of-top", "[1, 2, 3].map(e -> e + %s).top(2).size()", false, false, ""},
	{"upstream-of-skip", "[1, 2, 3].map(e -> e + %s).skip(1).size()", false, false, ""},
	{"upstream-of-number", "[1, 2, 3].map(e -> e + %s).number((n, e) -> e).size()", false, false, ""},
	{"upstream-of-combine", "[1, 2, 3].map(e -> e + %s).combine((p, r) -> p).size()", false, false, ""},
	{"upstream-of-iir", "[1, 2, 3].map(e -> e + %s).iir(e -> e, (e, l) -> l).size()", false, false, ""},
	{"upstream-of-compact", "[1, 2, 3].map(e -> e + %s).compact((p, r) -> false).size()", false, false, ""},
	{"upstream-of-concat", "([1, 2, 3].map(e -> e + %s) + [4]).size()", false, false, ""},
	{"upstream-of-append", "[1, 2, 3].map(e -> e + %s).append(4).size()", false, false, ""},
	{"upstream-of-reverse", "[1, 2, 3].map(e -> e + %s).reverse().size()", false, false, ""},
	{"upstream-of-order", "[1, 2, 3].map(e -> e + %s).order(e -> e).size()", false, false, ""},
	{"upstream-of-cross-inner", "[1, 2].cross([1, 2, 3].map(e -> e + %s), (p, r) -> p).size()", false, false, ""},
	{"upstream-of-parallel-accept", "numbers(40).map(e -> if e = 30 then %s else e).accept(e -> slow(e) >= 0).size()", false, true, ""},
	{"upstream-of-groupBy", "[1, 2, 3].map(e -> e + %s).groupByInt(e -> e).size()", false, false, ""},
	{"upstream-of-multiUse", "[1, 2, 3].map(e -> e + %s).multiUse({s: l -> l.size(), t: l -> l.sum()}).s", false, false, ""},
	// the value that failed is used again (whatever the first failure left behind - a lock, a half-filled cache - the second use
	// ends, with the error again)
	{"lazy-number-stage-used-twice-in-try", "let q = [1, 2, 3].number((n, e) -> e + %s); try q.size() catch e -> (try q.size() catch 0 - 99)", true, false, ""},
	{"lazy-combine-stage-used-twice-in-try", "let q = [1, 2, 3].combine((p, r) -> p + %s); try q.eval().size() catch e -> (try q[0] catch 0 - 99)", true, false, ""},
	{"lazy-iir-stage-used-twice-in-try", "let q = [1, 2, 3].iir(e -> e, (e, l) -> l + %s); try q.string() catch e -> (try q.reverse().size() catch 0 - 99)", true, false, ""},
	{"lazy-map-stage-used-twice-in-try", "let q = [1, 2, 3].map(e -> e + %s); try q.size() catch e -> (try q.sum() catch 0 - 99)", true, false, ""},
	{"map-value-used-twice-in-try", "let q = {k: [1, 2].number((n, e) -> e + %s)}; try q.k.size() catch e -> (try q.k.size() catch 0 - 99)", true, false, ""},
}

const recPrelude = "func rec(n) 1 + rec(n + 1); "

func runC05(c *Ctx) {
	c.rule = "fault enumeration: every fault source (operator faults on boundary operands, index/type/arity errors, panicking and failing host functions, the stack-overflow guard) x every evaluation context (top level, closure, try/catch, let, call argument, sequential map/accept, forced-parallel map/accept (300µs host function), downstream and upstream of a parallel stage, merge operands and comparator, multiUse consumers and source, order/groupBy/iir/visit callbacks, map methods) x optimizer on/off x GOMAXPROCS in {1,2,16} x entry point (Generate+Eval, a host-built stack, GenerateWithMap), plus runaway recursion along 25 call routes (direct, invoke, map field, list element, wrappers, every same-stack callback), each in an isolated worker process; predicate: the worker survives, Eval returns an error (never ok, never a panic), and inside try/catch the catch value is returned; non-trivial = distinct (source, context, configuration) with a fault actually placed"
	c.assume = append(c.assume, "process death, Go stack exhaustion and the scheduler are runtime behaviour observed by the worker, not proved")
	procs := []int{16}
	if c.Thorough {
		procs = []int{1, 2, 16}
	}
	var cases []*workerCase
	meta := map[string][3]string{}
	id := 0
	for _, gmp := range procs {
		for _, opt := range []string{"opt", "noopt"} {
			for _, fs := range faultSources {
				for _, fc := range faultContexts {
					expr := fs.expr
					prelude := ""
					if fs.kind == "guard" && fs.name == "runaway-self-application" {
						if fc.slow && !c.Thorough {
							continue
						}
					} else if fs.kind == "guard" {
						expr = "rec(0)"
						prelude = recPrelude
						if fc.slow && !c.Thorough {
							continue
						}
					}
					src := prelude + fmt.Sprintf(fc.tmpl, expr)
					id++
					wc := &workerCase{id: fmt.Sprintf("%d", id), a: 0, flags: opt, src: src}
					meta[wc.id] = [3]string{fs.name, fc.name, fmt.Sprintf("%s/GOMAXPROCS=%d", opt, gmp)}
					cases = append(cases, wc)
				}
			}
		}
		// run this GOMAXPROCS group
		start := len(cases) - len(faultSources)*len(faultContexts)*2
		if start < 0 {
			start = 0
		}
	}
	// group by GOMAXPROCS for execution
	perGmp := len(cases) / len(procs)
	for gi, gmp := range procs {
		part := cases[gi*perGmp : (gi+1)*perGmp]
		if gi == len(procs)-1 {
			part = cases[gi*perGmp:]
		}
		parallelBatches(part, 12, false, gmp, 20*time.Second)
	}
	// the host may also call the generated function with a stack it built itself (funcGen.NewStack)
	var ns []*workerCase
	for _, src := range []string{recPrelude + "rec(0)", recPrelude + "try rec(0) catch 0 - 99", "(f -> f(f))(f -> f(f))", "func g(n) [n, g(n + 1)][0]; g(0)", recPrelude + "[1, 2].map(e -> rec(e)).sum()"} {
		id++
		wc := &workerCase{id: fmt.Sprintf("n%d", id), a: 0, flags: "opt newstack", src: src}
		mm := [3]string{"runaway-recursion-on-host-built-stack", "top-level", "opt/NewStack"}
		if strings.Contains(src, "try") {
			mm[1] = "in-try"
		}
		meta[wc.id] = mm
		ns = append(ns, wc)
	}
	parallelBatches(ns, 5, false, 4, 120*time.Second)
	cases = append(cases, ns...)
	// the second entry point: GenerateWithMap (the free identifier a is the attribute m.a)
	var wm []*workerCase
	for _, fs := range faultSources {
		for _, fc := range faultContexts {
			if !(fc.name == "top-level" || fc.name == "in-closure" || fc.name == "in-try" || fc.name == "in-sequential-map" || fc.name == "downstream-of-parallel-map" || fc.name == "in-multiUse-consumer" || fc.name == "in-merge-less") {
				continue
			}
			expr, prelude := fs.expr, ""
			if fs.kind == "guard" && fs.name != "runaway-self-application" {
				expr, prelude = "rec(0)", recPrelude
			}
			id++
			wc := &workerCase{id: fmt.Sprintf("w%d", id), a: 0, flags: "opt withmap", src: prelude + fmt.Sprintf(fc.tmpl, expr)}
			meta[wc.id] = [3]string{fs.name, fc.name, "opt/GenerateWithMap"}
			wm = append(wm, wc)
		}
	}
	parallelBatches(wm, 12, false, 16, 30*time.Second)
	cases = append(cases, wm...)
	// runaway recursion through every way a function can be called (the guard counts slots of ONE value stack: a call
	// route that starts on a fresh stack never reaches it)
	routes := []struct{ name, call string }{
		{"direct", "f(n + 1)"}, {"invoke", "f.invoke([n + 1])"}, {"map-field", "{g: f}.g(n + 1)"}, {"list-element", "[f][0](n + 1)"}, {"closure-wrapper", "(x -> f(x))(n + 1)"},
		{"curried", "(x -> y -> f(x + y))(n)(1)"}, {"mapReduce-callback", "[n].mapReduce(0, (s, e) -> f(e + 1))"}, {"reduce-callback", "[n, n].reduce((p, q) -> f(p + 1))"},
		{"visit-callback", "[n].visit(0, (v, e) -> f(e + 1))"}, {"iir-callback", "[n].iir(e -> f(e + 1), (e, l) -> l).last()"}, {"order-key", "[n, n].order(e -> f(e + 1)).first()"},
		{"map-method-callback", "{x: n}.map((k, v) -> f(v + 1)).x"}, {"minMax-key", "[n].minMax(e -> f(e + 1)).min"}, {"present-callback", "[n].present(e -> f(e + 1) > 0)"},
		{"indexWhere-callback", "[n].indexWhere(e -> f(e + 1) > 0)"}, {"combine-callback", "[n, n].combine((p, q) -> f(p + 1)).first()"}, {"number-callback", "[n].number((i, e) -> f(e + 1)).first()"},
		{"let-bound-alias", "let g = f; g(n + 1)"}, {"argument-of-static", "max(1, f(n + 1))"}, {"in-list-literal", "[f(n + 1)][0]"}, {"in-map-literal", "{v: f(n + 1)}.v"}, {"if-branch", "if n < 0 then 0 else f(n + 1)"},
		{"string-method-receiver", "f(n + 1).string().len()"}, {"catch-handler-after-panic", "try boom(n) catch e -> f(n + 1)"}, {"catch-handler-after-error", "try throw(\"x\") catch e -> f(n + 1)"},
		{"catch-value-after-panic", "try boom(n) catch f(n + 1)"}, {"catch-value-after-index-error", "try [1][n + 5] catch f(n + 1)"}, {"cross-callback", "[n].cross([1], (p, q) -> f(p + 1)).first()"}, {"compact-callback", "[n, n].compact((p, q) -> f(p + 1) > 0).size()"},
	}
	var rr []*workerCase
	for _, r := range routes {
		for _, ctx := range []struct {
			name, tmpl, flags string
		}{{"top-level", "func f(n) %s; f(0)", "opt"}, {"in-try", "func f(n) %s; try f(0) catch 0 - 99", "opt"}, {"top-level", "func f(n) %s; f(0)", "noopt"},
			{"top-level", "func f(n) %s; f(0)", "opt newstack"}, {"top-level", "func f(n) %s; f(0)", "opt withmap"}, {"in-closure", "func f(n) %s; (k -> k + f(0))(1)", "opt"}} {
			id++
			wc := &workerCase{id: fmt.Sprintf("r%d", id), a: 0, flags: ctx.flags, src: fmt.Sprintf(ctx.tmpl, r.call)}
			meta[wc.id] = [3]string{"runaway-recursion-route:" + r.name, ctx.name, ctx.flags}
			rr = append(rr, wc)
		}
	}
	parallelBatches(rr, 12, false, 4, 120*time.Second)
	cases = append(cases, rr...)
	// recursion through fresh stacks: known to exhaust the Go stack (fatal, not recoverable)
	deep := []*workerCase{
		{id: "deep1", a: 0, flags: "opt", src: "func r(n) [n].map(e -> r(e + 1)).first(); r(0)"},
		{id: "deep2", a: 0, flags: "opt", src: "func r(n) [n, n][r(n + 1)]; r(0)"},
	}
	meta["deep1"] = [3]string{"runaway-recursion-through-fresh-stacks", "top-level", "opt"}
	meta["deep2"] = [3]string{"runaway-recursion-in-index", "top-level", "opt"}
	for _, d := range deep {
		runWorkerBatch([]*workerCase{d}, false, 4, 120*time.Second)
	}
	cases = append(cases, deep...)

	// ---- part 2: every operator / static function / method on boundary operands of every type ----
	pool := []string{"0", "1", "(0 - 1)", "(0 - 9223372036854775807 - 1)", "9223372036854775807", "0.5", "(0.0 - 1.5)", "(1.0 / 0.0)", "\"\"", "\"ab\"", "true",
		"[]", "[1, 2, 3]", "[\"a\", 1]", "{}", "{x: 1}", "(e -> e)", "((p, q) -> p)", "(e -> e > 1)", "numbers(3)"}
	recv := map[string][]string{"int": {"0", "(0 - 1)", "9223372036854775807"}, "float": {"0.5", "(1.0 / 0.0)"}, "string": {"\"\"", "\"ab é\""}, "bool": {"true"},
		"list": {"[]", "[1, 2, 3]", "[\"a\", 1, [2]]", "numbers(4).map(e -> e * 2)"}, "map": {"{}", "{x: 1, y: \"s\"}"}, "closure": {"(e -> e)", "((p, q) -> p)"}}
	var sweep []*workerCase
	addSweep := func(kind, src string) {
		id++
		wc := &workerCase{id: fmt.Sprintf("s%d", id), a: 0, flags: "opt", src: src}
		meta[wc.id] = [3]string{kind, "boundary-sweep", "opt"}
		sweep = append(sweep, wc)
	}
	for _, op := range c02Ops {
		for _, x := range pool {
			for _, y := range pool {
				if c.Thorough || c.rng.Intn(4) == 0 {
					addSweep("operator:"+op, fmt.Sprintf("%s %s %s", x, op, y))
				}
			}
		}
	}
	hfg := newHostFG(true)
	for name, f := range hfg.VerifStatics() {
		if name == "slow" || name == "boom" || name == "createLowPass" {
			continue
		}
		ar := f.Args
		if ar < 0 {
			ar = 1 + c.rng.Intn(2)
		}
		trials := c.Pick(12, 120)
		for t := 0; t < trials; t++ {
			args := make([]string, ar)
			for i := range args {
				args[i] = pool[c.rng.Intn(len(pool))]
			}
			if name == "numbers" && strings.Contains(args[0], "9223372036854775807") {
				continue // forcing a list of 2^63 elements is legitimately endless; the harness forces results
			}
			addSweep("static:"+name, fmt.Sprintf("%s(%s)", name, strings.Join(args, ", ")))
		}
	}
	for ty, ms := range hfg.VerifMethods() {
		rs := recv[ty]
		if len(rs) == 0 {
			continue
		}
		for name, f := range ms {
			ar := f.Args - 1
			if f.Args < 0 {
				ar = c.rng.Intn(3)
			}
			trials := c.Pick(10, 150)
			for t := 0; t < trials; t++ {
				args := make([]string, ar)
				for i := range args {
					args[i] = pool[c.rng.Intn(len(pool))]
				}
				call := fmt.Sprintf("%s.%s(%s)", rs[c.rng.Intn(len(rs))], name, strings.Join(args, ", "))
				// force lazy results so that faults inside the stage surface
				addSweep("method:"+ty+"."+name, "string("+call+")")
			}
		}
	}
	parallelBatches(sweep, 14, false, 8, 20*time.Second)
	for _, wc := range sweep {
		m := meta[wc.id]
		c.Case(wc.src, true)
		c.Count("sweep-outcome=" + strings.SplitN(wc.outcome, " ", 2)[0])
		c.Count("sweep-kind=" + strings.SplitN(m[0], ":", 2)[0])
		replay := map[string]any{"program": wc.src, "kind": m[0], "outcome": wc.outcome}
		if wc.stderr != "" {
			replay["stderr_head"] = firstLines(wc.stderr, 12)
		}
		switch {
		case wc.outcome == "CRASH":
			c.Violation("crash:"+m[0], "the worker process died while evaluating a built-in on boundary operands", replay)
		case wc.outcome == "TIMEOUT":
			c.Violation("hang:"+m[0], "a built-in did not return on boundary operands", replay)
		case strings.HasPrefix(wc.outcome, "PANIC"):
			c.Violation("panic-escaped:"+m[0], "a Go panic escaped Func.Eval", replay)
		}
	}
	c.extra["boundary_sweep_cases"] = len(sweep)

	for _, wc := range cases {
		m := meta[wc.id]
		canon := m[0] + "|" + m[1] + "|" + m[2]
		c.Case(canon, true)
		c.Count("outcome=" + strings.SplitN(wc.outcome, " ", 2)[0])
		c.Count("source=" + m[0])
		if len(c.samples) < 6 && (m[1] == "downstream-of-parallel-map" || m[1] == "in-multiUse-consumer") {
			c.Sample(map[string]any{"source": m[0], "context": m[1], "config": m[2], "program": wc.src, "outcome": wc.outcome, "worker_goroutines_that_ran_slow": wc.goroutines})
		}
		replay := map[string]any{"program": wc.src, "a": wc.a, "config": m[2], "fault_source": m[0], "context": m[1], "outcome": wc.outcome}
		if wc.stderr != "" {
			replay["stderr_head"] = firstLines(wc.stderr, 12)
		}
		isTry := strings.Contains(m[1], "-try")
		switch {
		case wc.outcome == "CRASH":
			sig := "crash:" + m[0] + ":" + m[1]
			if strings.Contains(wc.stderr, "goroutine stack exceeds") || strings.Contains(wc.stderr, "stack overflow") {
				// the listed finding is specific: the recursion passes through a list operation that
				// starts with a fresh value stack; any other way to exhaust the Go stack is new
				if m[0] == "runaway-recursion-through-fresh-stacks" {
					sig = "go-stack-exhaustion-via-fresh-stacks"
				} else {
					sig = "go-stack-exhaustion:" + m[0] + ":" + m[1]
				}
			}
			c.Violation(sig, "the worker process died while evaluating the program", replay)
		case wc.outcome == "TIMEOUT":
			c.Violation("hang:"+m[0]+":"+m[1], "evaluation did not return", replay)
		case strings.HasPrefix(wc.outcome, "PANIC"):
			c.Violation("panic-escaped:"+m[0]+":"+m[1], "a Go panic escaped Func.Eval", replay)
		case isTry:
			if wc.outcome != "OK i-99" {
				c.Violation("not-catchable:"+m[0], "the fault is not catchable by try/catch (catch value expected)", replay)
			}
		default:
			if wc.outcome != "ERR" {
				c.Violation("fault-not-reported:"+m[0]+":"+m[1], "a runtime fault did not surface as an error", replay)
			}
		}
		if strings.Contains(m[1], "parallel") && wc.goroutines > 1 {
			c.Count("parallel-switch-observed")
		}
	}
	c.extra["fault_sources"] = len(faultSources)
	c.extra["contexts"] = len(faultContexts)
}

func firstLines(s string, n int) string {
	l := strings.Split(s, "\n")
	if len(l) > n {
		l = l[:n]
	}
	return strings.Join(l, "\n")
}
