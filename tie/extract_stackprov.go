package main

// Tie 1 (C01, C06): stack provenance inside list producer factories. A lazy list is a function from the stack of
// whoever ITERATES it to a producer (`func(st funcGen.Stack[Value]) iterator.Producer[Value]`, also the generic
// spellings). Everything the producer does with a stack — running a callback (`f.Eval(st, …)`, `st.Push`,
// `st.CreateFrame`), iterating a source list (`l.iterable(st)`) — has to use that parameter or a fresh stack
// (funcGen.NewEmptyStack). A stack variable captured from the enclosing method (its own stack parameter, the
// stack of the moment the list was CREATED) shares its storage with whatever frame is live at iteration time:
// callback arguments are written over live locals, and a stage that isolates its source with a fresh stack is
// bypassed. go/ast on value/*.go: for every factory literal, the captured stack identifiers it mentions.

import (
	"fmt"
	"go/ast"
	"go/parser"
	"go/token"
	"path/filepath"
	"sort"
	"strings"
)

func init() { extractors = append(extractors, extractStackProvenance) }

func isStackType(fset *token.FileSet, e ast.Expr) bool {
	t := exprText(fset, e)
	return strings.HasPrefix(t, "funcGen.Stack[") || strings.HasPrefix(t, "Stack[")
}

func isProducerType(fset *token.FileSet, e ast.Expr) bool {
	t := exprText(fset, e)
	return strings.HasPrefix(t, "iterator.Producer[")
}

type provSite struct {
	file, fn string
	line     int
	param    string
	captured []string // captured stack identifiers mentioned in the factory body (with multiplicity)
}

func extractStackProvenance() {
	fset := token.NewFileSet()
	files, _ := filepath.Glob(filepath.Join(repoRoot, "value", "*.go"))
	sort.Strings(files)
	var sites []provSite
	for _, path := range files {
		if strings.HasSuffix(path, "_test.go") || strings.HasSuffix(path, "_verif.go") {
			continue
		}
		f, err := parser.ParseFile(fset, path, nil, 0)
		if err != nil {
			fatal("extract stack provenance: %v", err)
		}
		rel := "value/" + filepath.Base(path)
		for _, d := range f.Decls {
			fd, ok := d.(*ast.FuncDecl)
			if !ok || fd.Body == nil {
				continue
			}
			// stack-typed names visible from the enclosing function: parameters and receivers' nothing; plus
			// local variables assigned from them are not tracked (none in the code base; a new one shows up as
			// an unknown identifier only if it is a parameter — kept simple on purpose)
			outer := map[string]bool{}
			if fd.Type.Params != nil {
				for _, p := range fd.Type.Params.List {
					if isStackType(fset, p.Type) {
						for _, n := range p.Names {
							outer[n.Name] = true
						}
					}
				}
			}
			var walk func(n ast.Node, visible map[string]bool)
			// visible: captured stack names that are NOT shadowed at this point
			walk = func(n ast.Node, visible map[string]bool) {
				ast.Inspect(n, func(m ast.Node) bool {
					fl, ok := m.(*ast.FuncLit)
					if !ok {
						return true
					}
					// parameters of this literal
					var stackParams []string
					shadow := map[string]bool{}
					if fl.Type.Params != nil {
						for _, p := range fl.Type.Params.List {
							for _, nm := range p.Names {
								shadow[nm.Name] = true
								if isStackType(fset, p.Type) {
									stackParams = append(stackParams, nm.Name)
								}
							}
						}
					}
					isFactory := len(stackParams) == 1 && fl.Type.Params.NumFields() == 1 && fl.Type.Results != nil && fl.Type.Results.NumFields() == 1 &&
						isProducerType(fset, fl.Type.Results.List[0].Type)
					inner := map[string]bool{}
					for k := range visible {
						if !shadow[k] {
							inner[k] = true
						}
					}
					if isFactory {
						site := provSite{file: rel, fn: fd.Name.Name, line: fset.Position(fl.Pos()).Line, param: stackParams[0]}
						ast.Inspect(fl.Body, func(x ast.Node) bool {
							// nested literals may shadow again
							if nested, ok := x.(*ast.FuncLit); ok && nested != fl {
								sh := map[string]bool{}
								if nested.Type.Params != nil {
									for _, p := range nested.Type.Params.List {
										for _, nm := range p.Names {
											sh[nm.Name] = true
										}
									}
								}
								ast.Inspect(nested.Body, func(y ast.Node) bool {
									if id, ok := y.(*ast.Ident); ok && inner[id.Name] && !sh[id.Name] {
										site.captured = append(site.captured, id.Name)
									}
									return true
								})
								return false
							}
							if id, ok := x.(*ast.Ident); ok && inner[id.Name] {
								site.captured = append(site.captured, id.Name)
							}
							return true
						})
						sites = append(sites, site)
						// factories nested inside this one: their captured set also contains this one's parameter?
						// No: a nested list built while iterating may legitimately use the iteration stack.
						walk(fl.Body, inner)
						return false
					}
					// an ordinary closure: stack-typed parameters of it become visible captured names for factories inside
					for _, sp := range stackParams {
						inner[sp] = true
					}
					walk(fl.Body, inner)
					return false
				})
			}
			walk(fd.Body, outer)
		}
	}
	sort.Slice(sites, func(i, j int) bool {
		if sites[i].file != sites[j].file {
			return sites[i].file < sites[j].file
		}
		return sites[i].line < sites[j].line
	})
	var b strings.Builder
	b.WriteString("/-! GENERATED by `tie extract` (go/ast on value/*.go): every list producer factory\n`func(st Stack) iterator.Producer`, with the stack identifiers of enclosing functions it mentions in its body\n(captured = the stack of the moment the list was created). Do not edit. -/\nnamespace P2.Generated\n\n/-- (file, enclosing function, name of the factory's own stack parameter, captured stack identifiers) -/\ndef producerFactories : List (String × String × String × List String) := [\n")
	for i, s := range sites {
		if i > 0 {
			b.WriteString(",\n")
		}
		var cs []string
		for _, c := range s.captured {
			cs = append(cs, leanStr(c))
		}
		fmt.Fprintf(&b, "  (%s, %s, %s, [%s])", leanStr(s.file), leanStr(s.fn), leanStr(s.param), strings.Join(cs, ", "))
	}
	b.WriteString("]\n\nend P2.Generated\n")
	writeIfChanged(genPath("StackProv.lean"), []byte(b.String()))
}
