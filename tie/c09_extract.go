package main

// Tie 1 for C09: facts about value/list.go, value/map.go and all call sites of ListMap.Append,
// obtained with go/ast from /repo's working tree and written to lean/P2/Generated/HeapFacts.lean.
// The extractor fails loudly when a pattern it expects is gone.

import (
	"bytes"
	"fmt"
	"go/ast"
	"go/parser"
	"go/printer"
	"go/token"
	"os"
	"path/filepath"
	"sort"
	"strings"
)

func init() { extractors = append(extractors, extractHeapFacts) }

func c09Src(fset *token.FileSet, n ast.Node) string {
	var b bytes.Buffer
	printer.Fprint(&b, fset, n)
	return b.String()
}

func c09LeanBool(b bool) string {
	if b {
		return "true"
	}
	return "false"
}

// c09Method finds `func (l *List) name(...)` in the file.
func c09Method(f *ast.File, recvType, name string) *ast.FuncDecl {
	for _, d := range f.Decls {
		fd, ok := d.(*ast.FuncDecl)
		if !ok || fd.Recv == nil || fd.Name.Name != name || len(fd.Recv.List) != 1 {
			continue
		}
		t := fd.Recv.List[0].Type
		if st, ok := t.(*ast.StarExpr); ok {
			t = st.X
		}
		if id, ok := t.(*ast.Ident); ok && id.Name == recvType {
			return fd
		}
	}
	fatal("extractHeapFacts: method %s.%s not found in value/list.go", recvType, name)
	return nil
}

// c09SliceSource: which of l.CopyToSlice / l.ToSlice the method takes its working slice from.
func c09SliceSource(fd *ast.FuncDecl) (copies bool, varName string) {
	found := ""
	ast.Inspect(fd.Body, func(n ast.Node) bool {
		as, ok := n.(*ast.AssignStmt)
		if !ok || len(as.Rhs) != 1 || len(as.Lhs) < 1 {
			return true
		}
		call, ok := as.Rhs[0].(*ast.CallExpr)
		if !ok {
			return true
		}
		sel, ok := call.Fun.(*ast.SelectorExpr)
		if !ok {
			return true
		}
		if sel.Sel.Name == "CopyToSlice" || sel.Sel.Name == "ToSlice" {
			if found != "" && found != sel.Sel.Name {
				fatal("extractHeapFacts: %s uses both ToSlice and CopyToSlice", fd.Name.Name)
			}
			found = sel.Sel.Name
			if id, ok := as.Lhs[0].(*ast.Ident); ok {
				varName = id.Name
			}
		}
		return true
	})
	if found == "" {
		fatal("extractHeapFacts: %s takes its slice from neither ToSlice nor CopyToSlice", fd.Name.Name)
	}
	return found == "CopyToSlice", varName
}

// c09WindowsCapped: every slice expression on the working slice is items[a:b:b].
func c09WindowsCapped(fset *token.FileSet, fd *ast.FuncDecl, varName string) bool {
	n := 0
	capped := true
	ast.Inspect(fd.Body, func(x ast.Node) bool {
		se, ok := x.(*ast.SliceExpr)
		if !ok {
			return true
		}
		if id, ok := se.X.(*ast.Ident); !ok || id.Name != varName {
			return true
		}
		n++
		if !se.Slice3 || se.Max == nil || se.High == nil || c09Src(fset, se.Max) != c09Src(fset, se.High) {
			capped = false
		}
		return true
	})
	if n == 0 {
		fatal("extractHeapFacts: %s hands out no sub-slice of %s", fd.Name.Name, varName)
	}
	return capped
}

func extractHeapFacts() {
	fset := token.NewFileSet()
	listGo, err := parser.ParseFile(fset, filepath.Join(repoRoot, "value/list.go"), nil, 0)
	if err != nil {
		fatal("extractHeapFacts: %v", err)
	}
	facts := map[string]bool{}

	// Append: some assignment l.items = l.items[:len(l.items):len(l.items)]
	{
		fd := c09Method(listGo, "List", "Append")
		caps := false
		usesAppend := false
		ast.Inspect(fd.Body, func(n ast.Node) bool {
			if call, ok := n.(*ast.CallExpr); ok {
				if id, ok := call.Fun.(*ast.Ident); ok && id.Name == "append" && len(call.Args) >= 1 && c09Src(fset, call.Args[0]) == "l.items" {
					usesAppend = true
				}
			}
			as, ok := n.(*ast.AssignStmt)
			if !ok || len(as.Lhs) != 1 || len(as.Rhs) != 1 || c09Src(fset, as.Lhs[0]) != "l.items" {
				return true
			}
			if se, ok := as.Rhs[0].(*ast.SliceExpr); ok && se.Slice3 && c09Src(fset, se.X) == "l.items" &&
				se.High != nil && se.Max != nil && c09Src(fset, se.High) == "len(l.items)" && c09Src(fset, se.Max) == "len(l.items)" {
				caps = true
			}
			return true
		})
		if !usesAppend {
			// a different implementation (e.g. always copying): the extractor does not know it
			fatal("extractHeapFacts: List.Append no longer calls append(l.items, …)")
		}
		facts["appendCapsParent"] = caps
	}
	// ToSlice: every non-nil result is l.items[a:b:b]
	{
		fd := c09Method(listGo, "List", "ToSlice")
		capped, seen := true, false
		ast.Inspect(fd.Body, func(n ast.Node) bool {
			rs, ok := n.(*ast.ReturnStmt)
			if !ok || len(rs.Results) == 0 {
				return true
			}
			if id, ok := rs.Results[0].(*ast.Ident); ok && id.Name == "nil" {
				return true
			}
			seen = true
			// x[a:len(x):len(x)]
			se, ok := rs.Results[0].(*ast.SliceExpr)
			if !ok || !se.Slice3 || se.High == nil || se.Max == nil || c09Src(fset, se.High) != c09Src(fset, se.Max) ||
				c09Src(fset, se.High) != "len("+c09Src(fset, se.X)+")" {
				capped = false
			}
			return true
		})
		if !seen {
			fatal("extractHeapFacts: List.ToSlice returns nothing")
		}
		facts["toSliceCapped"] = capped
	}
	// CopyToSlice: the result is a local made with make(...)
	{
		fd := c09Method(listGo, "List", "CopyToSlice")
		made := map[string]bool{}
		ast.Inspect(fd.Body, func(n ast.Node) bool {
			as, ok := n.(*ast.AssignStmt)
			if !ok || len(as.Lhs) != 1 || len(as.Rhs) != 1 {
				return true
			}
			if call, ok := as.Rhs[0].(*ast.CallExpr); ok {
				if id, ok := call.Fun.(*ast.Ident); ok && id.Name == "make" {
					if l, ok := as.Lhs[0].(*ast.Ident); ok {
						made[l.Name] = true
					}
				}
			}
			return true
		})
		fresh, seen := true, false
		ast.Inspect(fd.Body, func(n ast.Node) bool {
			rs, ok := n.(*ast.ReturnStmt)
			if !ok || len(rs.Results) == 0 {
				return true
			}
			if id, ok := rs.Results[0].(*ast.Ident); ok {
				if id.Name == "nil" {
					return true
				}
				seen = true
				if !made[id.Name] {
					fresh = false
				}
				return true
			}
			seen = true
			fresh = false
			return true
		})
		if !seen {
			fatal("extractHeapFacts: List.CopyToSlice returns nothing")
		}
		facts["copyToSliceFresh"] = fresh
	}
	for _, m := range [][2]string{{"Set", "setCopies"}, {"Reverse", "reverseCopies"}, {"Order", "orderCopies"}, {"OrderLess", "orderLessCopies"}} {
		c, _ := c09SliceSource(c09Method(listGo, "List", m[0]))
		facts[m[1]] = c
	}
	for _, m := range [][2]string{{"MovingWindow", "windowCapped"}, {"MovingWindowRemove", "windowRemoveCapped"}} {
		fd := c09Method(listGo, "List", m[0])
		_, v := c09SliceSource(fd)
		facts[m[1]] = c09WindowsCapped(fset, fd, v)
	}
	// CombineN: what the callback of iterator.CombineN wraps into NewList(x...)
	{
		fd := c09Method(listGo, "List", "CombineN")
		var cb *ast.FuncLit
		ast.Inspect(fd.Body, func(n ast.Node) bool {
			call, ok := n.(*ast.CallExpr)
			if !ok || len(call.Args) == 0 {
				return true
			}
			if strings.HasPrefix(c09Src(fset, call.Fun), "iterator.CombineN") {
				if fl, ok := call.Args[len(call.Args)-1].(*ast.FuncLit); ok {
					cb = fl
				}
			}
			return true
		})
		if cb == nil || len(cb.Type.Params.List) < 2 || len(cb.Type.Params.List[len(cb.Type.Params.List)-1].Names) != 1 {
			fatal("extractHeapFacts: callback of iterator.CombineN not found in List.CombineN")
		}
		bufName := cb.Type.Params.List[len(cb.Type.Params.List)-1].Names[0].Name
		made := map[string]bool{}
		ast.Inspect(cb.Body, func(n ast.Node) bool {
			as, ok := n.(*ast.AssignStmt)
			if !ok || len(as.Lhs) != 1 || len(as.Rhs) != 1 || as.Tok != token.DEFINE {
				return true
			}
			if call, ok := as.Rhs[0].(*ast.CallExpr); ok {
				if id, ok := call.Fun.(*ast.Ident); ok && id.Name == "make" {
					if l, ok := as.Lhs[0].(*ast.Ident); ok {
						made[l.Name] = true
					}
				}
			}
			return true
		})
		copies, seen := true, false
		ast.Inspect(cb.Body, func(n ast.Node) bool {
			call, ok := n.(*ast.CallExpr)
			if !ok {
				return true
			}
			if id, ok := call.Fun.(*ast.Ident); !ok || id.Name != "NewList" || len(call.Args) != 1 || !call.Ellipsis.IsValid() {
				return true
			}
			seen = true
			arg, ok := call.Args[0].(*ast.Ident)
			if !ok || arg.Name == bufName || !made[arg.Name] {
				copies = false
			}
			return true
		})
		if !seen {
			fatal("extractHeapFacts: List.CombineN passes no NewList(x...) to the closure")
		}
		facts["combineNCopies"] = copies
	}

	// ---- call sites of ListMap.Append ----------------------------------------------------------
	type site struct {
		dir, file string
		line      int
		shape     int
	}
	var sites []site
	isNewCall := func(e ast.Expr) bool {
		call, ok := e.(*ast.CallExpr)
		if !ok {
			return false
		}
		return strings.HasPrefix(c09Src(fset, call.Fun), "listMap.New")
	}
	// root of a chain x.Append(..).Append(..)
	var chainRoot func(e ast.Expr) (ast.Expr, bool)
	chainRoot = func(e ast.Expr) (ast.Expr, bool) {
		call, ok := e.(*ast.CallExpr)
		if !ok {
			return e, false
		}
		sel, ok := call.Fun.(*ast.SelectorExpr)
		if !ok || sel.Sel.Name != "Append" || len(call.Args) != 2 {
			return e, false
		}
		r, _ := chainRoot(sel.X)
		return r, true
	}
	filepath.Walk(repoRoot, func(path string, info os.FileInfo, err error) error {
		if err != nil {
			return nil
		}
		if info.IsDir() {
			if info.Name() == ".git" {
				return filepath.SkipDir
			}
			return nil
		}
		if !strings.HasSuffix(path, ".go") || strings.HasSuffix(path, "_test.go") {
			return nil
		}
		rel, _ := filepath.Rel(repoRoot, path)
		dir := filepath.Dir(rel)
		if dir == "listMap" {
			return nil
		}
		f, err := parser.ParseFile(fset, path, nil, 0)
		if err != nil {
			fatal("extractHeapFacts: %v", err)
		}
		pkgNames := map[string]bool{}
		for _, im := range f.Imports {
			p := strings.Trim(im.Path.Value, "\"")
			name := filepath.Base(p)
			if im.Name != nil {
				name = im.Name.Name
			}
			pkgNames[name] = true
		}
		for _, d := range f.Decls {
			fd, ok := d.(*ast.FuncDecl)
			if !ok || fd.Body == nil {
				continue
			}
			// all assignments to identifiers in this function
			assigns := map[string][]ast.Expr{}
			ast.Inspect(fd.Body, func(n ast.Node) bool {
				if as, ok := n.(*ast.AssignStmt); ok && len(as.Lhs) == len(as.Rhs) {
					for i, l := range as.Lhs {
						if id, ok := l.(*ast.Ident); ok {
							assigns[id.Name] = append(assigns[id.Name], as.Rhs[i])
						}
					}
				}
				return true
			})
			localLinear := func(name string) bool {
				rs := assigns[name]
				if len(rs) == 0 {
					return false
				}
				fromNew := false
				for _, r := range rs {
					if id, ok := r.(*ast.Ident); ok && id.Name == "nil" {
						continue // dropping the map
					}
					root, isChain := chainRoot(r)
					if isNewCall(root) {
						fromNew = true
						continue
					}
					if id, ok := root.(*ast.Ident); ok && isChain && id.Name == name {
						continue
					}
					return false
				}
				return fromNew
			}
			// outermost Append calls only (a chain is one site)
			inner := map[*ast.CallExpr]bool{}
			selfAssigned := map[*ast.CallExpr]string{}
			ast.Inspect(fd.Body, func(n ast.Node) bool {
				if as, ok := n.(*ast.AssignStmt); ok && len(as.Lhs) == 1 && len(as.Rhs) == 1 && as.Tok == token.ASSIGN {
					if id, ok := as.Lhs[0].(*ast.Ident); ok {
						if call, ok := as.Rhs[0].(*ast.CallExpr); ok {
							selfAssigned[call] = id.Name
						}
					}
				}
				return true
			})
			ast.Inspect(fd.Body, func(n ast.Node) bool {
				call, ok := n.(*ast.CallExpr)
				if !ok || inner[call] {
					return true
				}
				sel, ok := call.Fun.(*ast.SelectorExpr)
				if !ok || sel.Sel.Name != "Append" || len(call.Args) != 2 {
					return true
				}
				if id, ok := sel.X.(*ast.Ident); ok && pkgNames[id.Name] {
					return true // a package function such as iterator.Append
				}
				// mark the inner calls of the chain
				for x := sel.X; ; {
					c2, ok := x.(*ast.CallExpr)
					if !ok {
						break
					}
					s2, ok := c2.Fun.(*ast.SelectorExpr)
					if !ok || s2.Sel.Name != "Append" {
						break
					}
					inner[c2] = true
					x = s2.X
				}
				root, _ := chainRoot(call)
				shape := 2
				if isNewCall(root) {
					shape = 0
				} else if id, ok := root.(*ast.Ident); ok {
					if tgt, ok := selfAssigned[call]; ok && tgt == id.Name && localLinear(id.Name) {
						shape = 1
					}
				}
				sites = append(sites, site{dir, filepath.Base(rel), fset.Position(call.Pos()).Line, shape})
				return true
			})
		}
		return nil
	})
	sort.Slice(sites, func(i, j int) bool {
		if sites[i].dir != sites[j].dir {
			return sites[i].dir < sites[j].dir
		}
		if sites[i].file != sites[j].file {
			return sites[i].file < sites[j].file
		}
		return sites[i].line < sites[j].line
	})
	if len(sites) == 0 {
		fatal("extractHeapFacts: no call site of ListMap.Append found")
	}

	// ---- methods of the map storage types ------------------------------------------------------
	mapGo, err := parser.ParseFile(fset, filepath.Join(repoRoot, "value/map.go"), nil, 0)
	if err != nil {
		fatal("extractHeapFacts: %v", err)
	}
	storageTypes := map[string]bool{"AppendMap": true, "MergeMap": true, "ReplaceMap": true, "RealMap": true,
		"emptyMapStorage": true, "funcMapType": true, "Map": true}
	type meth struct {
		typ, name    string
		ptr, assigns bool
	}
	var meths []meth
	seenType := map[string]bool{}
	for _, d := range mapGo.Decls {
		fd, ok := d.(*ast.FuncDecl)
		if !ok || fd.Recv == nil || len(fd.Recv.List) != 1 || fd.Body == nil {
			continue
		}
		t := fd.Recv.List[0].Type
		ptr := false
		if st, ok := t.(*ast.StarExpr); ok {
			ptr = true
			t = st.X
		}
		if ix, ok := t.(*ast.IndexExpr); ok {
			t = ix.X
		}
		id, ok := t.(*ast.Ident)
		if !ok || !storageTypes[id.Name] {
			continue
		}
		seenType[id.Name] = true
		recv := ""
		if len(fd.Recv.List[0].Names) == 1 {
			recv = fd.Recv.List[0].Names[0].Name
		}
		assigns := false
		rootIs := func(e ast.Expr) bool {
			for {
				switch x := e.(type) {
				case *ast.SelectorExpr:
					e = x.X
				case *ast.IndexExpr:
					e = x.X
				case *ast.StarExpr:
					e = x.X
				case *ast.ParenExpr:
					e = x.X
				case *ast.Ident:
					return recv != "" && x.Name == recv
				default:
					return false
				}
			}
		}
		ast.Inspect(fd.Body, func(n ast.Node) bool {
			switch x := n.(type) {
			case *ast.AssignStmt:
				if x.Tok != token.DEFINE {
					for _, l := range x.Lhs {
						if _, plain := l.(*ast.Ident); !plain && rootIs(l) {
							assigns = true
						}
					}
				}
			case *ast.IncDecStmt:
				if _, plain := x.X.(*ast.Ident); !plain && rootIs(x.X) {
					assigns = true
				}
			}
			return true
		})
		meths = append(meths, meth{id.Name, fd.Name.Name, ptr, assigns})
	}
	for _, t := range []string{"AppendMap", "MergeMap", "ReplaceMap", "RealMap"} {
		if !seenType[t] {
			fatal("extractHeapFacts: storage type %s has no methods in value/map.go", t)
		}
	}
	sort.Slice(meths, func(i, j int) bool {
		if meths[i].typ != meths[j].typ {
			return meths[i].typ < meths[j].typ
		}
		return meths[i].name < meths[j].name
	})

	var b strings.Builder
	b.WriteString("import P2.Model.Heap\n/-! GENERATED by `tie extract` (go/ast on value/list.go, value/map.go and every call site of\nListMap.Append in the working tree). Do not edit. -/\nnamespace P2.Generated\n")
	b.WriteString("def heapFacts : P2.Heap.Facts :=\n  { ")
	order := []string{"appendCapsParent", "toSliceCapped", "copyToSliceFresh", "setCopies", "reverseCopies", "orderCopies", "orderLessCopies", "windowCapped", "windowRemoveCapped", "combineNCopies"}
	for i, k := range order {
		if i > 0 {
			b.WriteString(",\n    ")
		}
		fmt.Fprintf(&b, "%s := %s", k, c09LeanBool(facts[k]))
	}
	b.WriteString(" }\n")
	b.WriteString("def listMapAppendSites : List P2.Heap.LMSite := [\n")
	for i, s := range sites {
		if i > 0 {
			b.WriteString(",\n")
		}
		fmt.Fprintf(&b, "  ⟨%q, %q, %d, %d⟩", s.dir, s.file, s.line, s.shape)
	}
	b.WriteString("]\n")
	b.WriteString("def mapStorageMethods : List P2.Heap.StorageMethod := [\n")
	for i, m := range meths {
		if i > 0 {
			b.WriteString(",\n")
		}
		fmt.Fprintf(&b, "  ⟨%q, %q, %s, %s⟩", m.typ, m.name, c09LeanBool(m.ptr), c09LeanBool(m.assigns))
	}
	b.WriteString("]\nend P2.Generated\n")
	writeIfChanged(genPath("HeapFacts.lean"), []byte(b.String()))
}
