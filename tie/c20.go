package main

// C20 — binning conserves mass and is additive.
//
// Generator: lists of numeric records (small dyadics, values exactly on bin edges and next to them, far
// outside the range incl. ±1e300, ±2^63, ±MaxFloat64, negative, zero) × start/size/count grids
// (count 0..64, sizes powers of two and small integers) × one and two dimensions × splittings into
// <= 4 parts. The real code runs in-process through value.New().Generate(src, args...) / Eval.
// Predicates on the implementation (cases of the exact domain): Σ bins = Σ values, every bin holds
// exactly the sum of the elements the interval rule assigns to it, descriptions are the intervals,
// collectBinning over the binnings of the parts = binning of the whole list.
// Correspondence: request BIN to the Lean model, which runs twice — on IEEE doubles (bit patterns
// compared, every case incl. the out-of-domain stream: rounding sizes, NaN, ±Inf, size <= 0, negative
// count) and on exact scaled integers (the instance the theorems are about; cases of the exact domain).

import (
	"encoding/json"
	"fmt"
	"io"
	"log"
	"math"
	"math/big"
	"math/rand"
	"os"
	"sort"
	"strconv"
	"strings"

	"github.com/hneemann/parser2/funcGen"
	"github.com/hneemann/parser2/listMap"
	"github.com/hneemann/parser2/value"
)

func init() { props["C20"] = runC20 }

type binAxis struct {
	start, size float64
	count       int
}

type binRec struct{ x, y, w float64 }

type binCase struct {
	dim   int
	ax    [2]binAxis
	parts [][]binRec
	exact bool // inside the property's domain: all arithmetic of the implementation is exact or harmless
	form  int  // presentation of the records / of the program
	tag   string
}

// ---------------------------------------------------------------------------------------------
// protocol text

func binBits(f float64) string {
	if math.IsNaN(f) {
		return "7ff8000000000000"
	}
	h := strconv.FormatUint(math.Float64bits(f), 16)
	return "0000000000000000"[len(h):] + h
}

func (bc *binCase) request(variant string) string {
	var b strings.Builder
	b.WriteString("BIN\t" + variant + "\t" + strconv.Itoa(bc.dim) + "\t")
	for d := 0; d < bc.dim; d++ {
		if d > 0 {
			b.WriteByte(' ')
		}
		b.WriteString(binBits(bc.ax[d].start) + " " + binBits(bc.ax[d].size) + " " + strconv.Itoa(bc.ax[d].count))
	}
	b.WriteByte('\t')
	for i, p := range bc.parts {
		if i > 0 {
			b.WriteByte('|')
		}
		for j, r := range p {
			if j > 0 {
				b.WriteByte(' ')
			}
			if bc.dim == 1 {
				b.WriteString(binBits(r.x) + "," + binBits(r.w))
			} else {
				b.WriteString(binBits(r.x) + "," + binBits(r.y) + "," + binBits(r.w))
			}
		}
	}
	return b.String()
}

func binUnbits(s string) (float64, bool) {
	u, err := strconv.ParseUint(s, 16, 64)
	if err != nil || len(s) != 16 {
		return 0, false
	}
	return math.Float64frombits(u), true
}

// parseBinRequest is the inverse of request (replays and corpus entries are request lines).
func parseBinRequest(line string) (*binCase, bool) {
	f := strings.Split(line, "\t")
	if len(f) != 5 || f[0] != "BIN" {
		return nil, false
	}
	bc := &binCase{tag: "replay"}
	bc.dim, _ = strconv.Atoi(f[2])
	if bc.dim != 1 && bc.dim != 2 {
		return nil, false
	}
	ax := strings.Fields(f[3])
	if len(ax) != 3*bc.dim {
		return nil, false
	}
	for d := 0; d < bc.dim; d++ {
		var ok1, ok2 bool
		bc.ax[d].start, ok1 = binUnbits(ax[3*d])
		bc.ax[d].size, ok2 = binUnbits(ax[3*d+1])
		c, err := strconv.Atoi(ax[3*d+2])
		if !ok1 || !ok2 || err != nil {
			return nil, false
		}
		bc.ax[d].count = c
	}
	for _, p := range strings.Split(f[4], "|") {
		var part []binRec
		for _, r := range strings.Fields(p) {
			n := strings.Split(r, ",")
			if len(n) != bc.dim+1 {
				return nil, false
			}
			var v [3]float64
			for i := range n {
				x, ok := binUnbits(n[i])
				if !ok {
					return nil, false
				}
				v[i] = x
			}
			if bc.dim == 1 {
				part = append(part, binRec{x: v[0], w: v[1]})
			} else {
				part = append(part, binRec{x: v[0], y: v[1], w: v[2]})
			}
		}
		bc.parts = append(bc.parts, part)
	}
	bc.exact = bc.inExactDomain()
	return bc, true
}

// ---------------------------------------------------------------------------------------------
// the exact domain

// binSmallDyadic: multiple of 2^-20 below 2^26 — differences are exact in float64 and the floor of a quotient
// of two such numbers is computed correctly (|x-start| / unit < 2^53, see the harness notes in the report).
func binSmallDyadic(f float64) bool {
	if math.IsNaN(f) || math.IsInf(f, 0) || math.Abs(f) >= 1<<26 {
		return false
	}
	s := f * (1 << 20)
	return s == math.Trunc(s)
}

// inExactDomain decides whether the property's predicates are evaluated on the case.
func (bc *binCase) inExactDomain() bool {
	for d := 0; d < bc.dim; d++ {
		a := bc.ax[d]
		if !binSmallDyadic(a.start) || !binSmallDyadic(a.size) || !(a.size > 0) || a.count < 0 || a.count > 64 {
			return false
		}
		if math.Abs(a.start)+float64(a.count+1)*a.size >= 1<<26 {
			return false
		}
	}
	n := 0
	for _, p := range bc.parts {
		for _, r := range p {
			n++
			// summed values: multiples of 2^-20 below 2^20 — sums of < 2^10 of them are exact
			if !binSmallDyadic(r.w) || math.Abs(r.w) >= 1<<20 {
				return false
			}
			for d := 0; d < bc.dim; d++ {
				x := r.x
				if d == 1 {
					x = r.y
				}
				if math.IsNaN(x) || math.IsInf(x, 0) {
					return false
				}
				// either a small dyadic (exact arithmetic) or far outside (|x| >= 2^40: rounding cannot matter)
				if !binSmallDyadic(x) && math.Abs(x) < 1<<40 {
					return false
				}
			}
		}
	}
	return n < 1000 && len(bc.parts) >= 1
}

func binRat(f float64) *big.Rat {
	r := new(big.Rat)
	if r.SetFloat64(f) == nil {
		return nil
	}
	return r
}

// binIsScaled20: f is a multiple of 2^-20 with |f| < 2^40 (f·2^20 is an exact int64)
func binIsScaled20(f float64) bool {
	s := f * (1 << 20)
	return s == math.Trunc(s) && math.Abs(s) < 1<<60
}

// binScaled20 returns f·2^20 as an int64 for a small dyadic f (exact).
func binScaled20(f float64) int64 { return int64(f * (1 << 20)) }

// binSpecIndex: the bin the property's interval rule names, computed exactly. On the exact domain start,
// size and the upper edge start+count·size are small dyadics (the float expression for the edge is exact),
// float comparisons are always exact, and an x inside [start, upper) is a small dyadic itself, so the
// inner index is an exact int64 floor division. Everything else goes through math/big.
func binSpecIndex(a binAxis, x float64) int {
	upper := a.start + float64(a.count)*a.size
	if binSmallDyadic(a.start) && binSmallDyadic(a.size) && binSmallDyadic(upper) && a.size > 0 {
		if x < a.start {
			return 0
		}
		if x >= upper {
			return a.count + 1
		}
		if binSmallDyadic(x) {
			return int((binScaled20(x)-binScaled20(a.start))/binScaled20(a.size)) + 1 // operands >= 0: floor
		}
	}
	return binSpecIndexBig(a, x)
}

func binSpecIndexBig(a binAxis, x float64) int {
	rx, rs, rz := binRat(x), binRat(a.start), binRat(a.size)
	if rx.Cmp(rs) < 0 {
		return 0
	}
	upper := new(big.Rat).Add(rs, new(big.Rat).Mul(new(big.Rat).SetInt64(int64(a.count)), rz))
	if rx.Cmp(upper) >= 0 {
		return a.count + 1
	}
	q := new(big.Rat).Quo(new(big.Rat).Sub(rx, rs), rz)
	fl := new(big.Int).Div(q.Num(), q.Denom()) // Euclidean = floor for a positive denominator
	return int(fl.Int64()) + 1
}

// binQuotientHuge: ⌊(x-start)/size⌋ >= 2^63 - 1024 (the region in which int(f)+1 leaves int64)
func binQuotientHuge(a binAxis, x float64) bool {
	rx, rs, rz := binRat(x), binRat(a.start), binRat(a.size)
	if rx == nil || rs == nil || rz == nil || rz.Sign() <= 0 {
		return false
	}
	q := new(big.Rat).Quo(new(big.Rat).Sub(rx, rs), rz)
	lim := new(big.Rat).SetInt(new(big.Int).Sub(new(big.Int).Lsh(big.NewInt(1), 63), big.NewInt(1024)))
	return q.Cmp(lim) >= 0
}

// ---------------------------------------------------------------------------------------------
// running the real code

type binDescr struct {
	hasMin, hasMax bool
	min, max       float64
}

type binResult struct {
	err    string
	descr  []binDescr // 1-d: descr, 2-d: yDescr
	values []float64  // 1-d
	xd     []binDescr // 2-d
	rows   [][]float64
}

var binParser = value.New()
var binProgs = map[string]funcGen.Func[value.Value]{}

func binProg(src string, args ...string) (funcGen.Func[value.Value], error) {
	key := src + "\x00" + strings.Join(args, ",")
	if f, ok := binProgs[key]; ok {
		return f, nil
	}
	f, _, err := binParser.Generate(src, args...)
	if err != nil {
		return nil, err
	}
	binProgs[key] = f
	return f, nil
}

func binNumValue(f float64, asInt bool) value.Value {
	if asInt && f == math.Trunc(f) && math.Abs(f) < 1<<62 && !(f == 0 && math.Signbit(f)) {
		return value.Int(int(f))
	}
	return value.Float(f)
}

// recValue presents a record as a map {x,(y,)w} (form%2==0) or as a list [x,(y,)w]; integral numbers are
// presented as Int for every third record of forms >= 2.
func (bc *binCase) recValue(r binRec, idx int) value.Value {
	asInt := bc.form >= 2 && idx%3 == 0
	if bc.form%2 == 0 {
		m := listMap.New[value.Value](3).Append("x", binNumValue(r.x, asInt))
		if bc.dim == 2 {
			m = m.Append("y", binNumValue(r.y, asInt))
		}
		m = m.Append("w", binNumValue(r.w, asInt))
		return value.NewMap(m)
	}
	if bc.dim == 2 {
		return value.NewList(binNumValue(r.x, asInt), binNumValue(r.y, asInt), binNumValue(r.w, asInt))
	}
	return value.NewList(binNumValue(r.x, asInt), binNumValue(r.w, asInt))
}

func (bc *binCase) call(list string) string {
	sel := func(name string, i int) string {
		if bc.form%2 == 0 {
			return "e->e." + name
		}
		return "e->e[" + strconv.Itoa(i) + "]"
	}
	if bc.dim == 1 {
		return list + ".binning(s,z,c," + sel("x", 0) + "," + sel("w", 1) + ")"
	}
	return list + ".binning2d(s,z,c,t,u,d," + sel("x", 0) + "," + sel("y", 1) + "," + sel("w", 2) + ")"
}

func (bc *binCase) axisArgs() []value.Value {
	var a []value.Value
	for d := 0; d < bc.dim; d++ {
		asInt := bc.form >= 2
		a = append(a, binNumValue(bc.ax[d].start, asInt), binNumValue(bc.ax[d].size, asInt))
		if bc.form%3 == 0 {
			a = append(a, value.Float(float64(bc.ax[d].count)))
		} else {
			a = append(a, value.Int(bc.ax[d].count))
		}
	}
	return a
}

var binAxisNames = []string{"s", "z", "c", "t", "u", "d"}

func binDescrOf(v value.Value, c *Ctx) (binDescr, bool) {
	m, ok := v.ToMap()
	if !ok {
		return binDescr{}, false
	}
	var d binDescr
	if mv, ok := m.Get("min"); ok {
		f, ok2 := mv.ToFloat()
		if !ok2 {
			return d, false
		}
		d.hasMin, d.min = true, f
	}
	if mv, ok := m.Get("max"); ok {
		f, ok2 := mv.ToFloat()
		if !ok2 {
			return d, false
		}
		d.hasMax, d.max = true, f
	}
	// observation for C13 (finding B13): Size() of a bin description vs. the entries it iterates
	n := 0
	m.Iter(func(string, value.Value) bool { n++; return true })
	if n != m.Size() {
		c.Count("observed(B13,C13): bin.Size()!=entries")
	}
	return d, true
}

func binFloatsOf(v value.Value, st funcGen.Stack[value.Value]) ([]float64, bool) {
	l, ok := v.ToList()
	if !ok {
		return nil, false
	}
	sl, err := l.ToSlice(st)
	if err != nil {
		return nil, false
	}
	res := make([]float64, 0, len(sl))
	for _, e := range sl {
		f, ok := e.(value.Float)
		if !ok {
			return nil, false
		}
		res = append(res, float64(f))
	}
	return res, true
}

func binDescrsOf(v value.Value, st funcGen.Stack[value.Value], c *Ctx) ([]binDescr, bool) {
	l, ok := v.ToList()
	if !ok {
		return nil, false
	}
	sl, err := l.ToSlice(st)
	if err != nil {
		return nil, false
	}
	res := make([]binDescr, 0, len(sl))
	for _, e := range sl {
		d, ok := binDescrOf(e, c)
		if !ok {
			return nil, false
		}
		res = append(res, d)
	}
	return res, true
}

// decodeBinResult reads the map returned by binning / binning2d / collectBinning.
func decodeBinResult(dim int, v value.Value, err error, c *Ctx) *binResult {
	if err != nil {
		return &binResult{err: "error"}
	}
	st := funcGen.NewEmptyStack[value.Value]()
	m, ok := v.ToMap()
	if !ok {
		return &binResult{err: "shape: not a map"}
	}
	res := &binResult{}
	vals, ok := m.Get("values")
	if !ok {
		return &binResult{err: "shape: no values"}
	}
	if dim == 1 {
		d, ok := m.Get("descr")
		if !ok {
			return &binResult{err: "shape: no descr"}
		}
		if res.descr, ok = binDescrsOf(d, st, c); !ok {
			return &binResult{err: "shape: descr"}
		}
		if res.values, ok = binFloatsOf(vals, st); !ok {
			return &binResult{err: "shape: values"}
		}
		return res
	}
	d, ok := m.Get("yDescr")
	if !ok {
		return &binResult{err: "shape: no yDescr"}
	}
	if res.descr, ok = binDescrsOf(d, st, c); !ok {
		return &binResult{err: "shape: yDescr"}
	}
	l, ok := vals.ToList()
	if !ok {
		return &binResult{err: "shape: values"}
	}
	sl, e2 := l.ToSlice(st)
	if e2 != nil {
		return &binResult{err: "shape: values"}
	}
	res.rows = [][]float64{}
	for _, e := range sl {
		em, ok := e.ToMap()
		if !ok {
			return &binResult{err: "shape: row entry"}
		}
		xd, ok := em.Get("xd")
		if !ok {
			return &binResult{err: "shape: no xd"}
		}
		dd, ok := binDescrOf(xd, c)
		if !ok {
			return &binResult{err: "shape: xd"}
		}
		row, ok := em.Get("row")
		if !ok {
			return &binResult{err: "shape: no row"}
		}
		fl, ok := binFloatsOf(row, st)
		if !ok {
			return &binResult{err: "shape: row"}
		}
		res.xd = append(res.xd, dd)
		res.rows = append(res.rows, fl)
	}
	return res
}

// runWhole evaluates `l.binning(...)` on the concatenated parts, runCollect the collectBinning expression.
func (bc *binCase) runWhole(c *Ctx) *binResult {
	var items []value.Value
	i := 0
	for _, p := range bc.parts {
		for _, r := range p {
			items = append(items, bc.recValue(r, i))
			i++
		}
	}
	names := append([]string{"l"}, binAxisNames[:3*bc.dim]...)
	f, err := binProg(bc.call("l"), names...)
	if err != nil {
		fatal("C20: program does not compile: %v", err)
	}
	args := append([]value.Value{value.NewList(items...)}, bc.axisArgs()...)
	v, err := f.Eval(args...)
	return decodeBinResult(bc.dim, v, err, c)
}

func (bc *binCase) collectSrc() (string, []string) {
	if bc.form%4 < 2 {
		// parts as one list argument
		return "ps.map(p->" + bc.call("p") + ").collectBinning()", append([]string{"ps"}, binAxisNames[:3*bc.dim]...)
	}
	var calls, names []string
	for i := range bc.parts {
		calls = append(calls, bc.call("p"+strconv.Itoa(i)))
		names = append(names, "p"+strconv.Itoa(i))
	}
	return "[" + strings.Join(calls, ",") + "].collectBinning()", append(names, binAxisNames[:3*bc.dim]...)
}

func (bc *binCase) runCollect(c *Ctx) *binResult {
	var parts []value.Value
	i := 0
	for _, p := range bc.parts {
		var items []value.Value
		for _, r := range p {
			items = append(items, bc.recValue(r, i))
			i++
		}
		parts = append(parts, value.NewList(items...))
	}
	src, names := bc.collectSrc()
	f, err := binProg(src, names...)
	if err != nil {
		fatal("C20: program does not compile: %v (%s)", err, src)
	}
	var args []value.Value
	if bc.form%4 < 2 {
		args = []value.Value{value.NewList(parts...)}
	} else {
		args = parts
	}
	args = append(args, bc.axisArgs()...)
	v, err := f.Eval(args...)
	return decodeBinResult(bc.dim, v, err, c)
}

// libraryRoutes: see verdict (6); "" = fine
func (bc *binCase) libraryRoutes() string {
	var items []value.Value
	i := 0
	for _, p := range bc.parts {
		for _, r := range p {
			items = append(items, bc.recValue(r, i))
			i++
		}
	}
	if len(items) < 2 {
		return ""
	}
	names := append([]string{"l"}, binAxisNames[:3*bc.dim]...)
	args := append([]value.Value{value.NewList(items...)}, bc.axisArgs()...)
	progs := []string{
		// groups with interleaved keys (a key comes back after 1, 2, 3 … other keys)
		"let tagged = l.number((i, e) -> [(i * i + i) % 5, e]); tagged.groupByInt(p -> p[0]).map(q -> " + bc.call("q.values.map(p -> p[1])") + ").collectBinning().values.string() = " + bc.call("l") + ".values.string()",
	}
	// a materialised head (from a lazy list: 3 items in capacity 4, 5 items in capacity 8) joined with two tails that fit into its
	// spare capacity; the first sum is looked at again after the second one was built
	for _, hs := range [][3]int{{3, 1, 1}, {5, 3, 2}, {5, 1, 3}, {6, 2, 2}} {
		h, n1, n2 := hs[0], hs[1], hs[2]
		if len(items) < h+n1+n2 {
			continue
		}
		progs = append(progs, fmt.Sprintf("let base = l.top(%d).map(e -> e).eval(); let r1 = l.skip(%d).top(%d).eval(); let r2 = l.skip(%d).top(%d).eval(); let s1 = base + r1; let s2 = base + r2; ", h, h, n1, h+n1, n2)+
			"["+bc.call("s1")+".values.string() = ["+bc.call("base")+", "+bc.call("r1")+"].collectBinning().values.string(), "+
			bc.call("s2")+".values.string() = ["+bc.call("base")+", "+bc.call("r2")+"].collectBinning().values.string(), "+
			bc.call("s1")+".values.string() = ["+bc.call("base")+", "+bc.call("r1")+"].collectBinning().values.string()].string() = \"[true, true, true]\"")
	}
	for _, src := range progs {
		f, err := binProg(src, names...)
		if err != nil {
			fatal("C20: program does not compile: %v (%s)", err, src)
		}
		v, err := f.Eval(args...)
		if err != nil {
			return "a split / join through the library fails although the whole list bins: " + err.Error()
		}
		if b, ok := v.(value.Bool); !ok || !bool(b) {
			return "the binnings of the library's own parts do not add up to the binning of the whole: " + src
		}
	}
	return ""
}

// collectTwice: see verdict (5); "" = fine
func (bc *binCase) collectTwice() string {
	var parts []value.Value
	i := 0
	for _, p := range bc.parts {
		var items []value.Value
		for _, r := range p {
			items = append(items, bc.recValue(r, i))
			i++
		}
		parts = append(parts, value.NewList(items...))
	}
	show := "x->x.string()"
	src := "let bs=ps.map(p->" + bc.call("p") + ").eval(); let before=bs.map(" + show + ").string(); let r1=bs.collectBinning(); let s1=r1.string(); " +
		"let r2=bs.collectBinning(); let r3=[bs[0],bs[bs.size()-1]].collectBinning(); let r4=bs.collectBinning(); " +
		"[before=bs.map(" + show + ").string(), s1=r2.string(), s1=r4.string(), s1=r1.string()].string()"
	f, err := binProg(src, append([]string{"ps"}, binAxisNames[:3*bc.dim]...)...)
	if err != nil {
		return "" // the form is not expressible: nothing to say
	}
	args := append([]value.Value{value.NewList(parts...)}, bc.axisArgs()...)
	v, err := f.Eval(args...)
	if err != nil {
		return "collecting the same binnings repeatedly fails: " + err.Error()
	}
	if sv, ok := v.(value.String); !ok || string(sv) != "[true, true, true, true]" {
		return fmt.Sprintf("[parts unchanged, second collect = first, fourth collect = first, first result unchanged] = %v", v)
	}
	return ""
}

// singleton index: where does the implementation count one element? (diagnosis of a wrong histogram)
func (bc *binCase) implIndex(c *Ctx, d int, x float64) int {
	one := &binCase{dim: 1, form: 0}
	one.ax[0] = bc.ax[d]
	one.parts = [][]binRec{{{x: x, w: 1}}}
	r := one.runWhole(c)
	if r.err != "" {
		return -1
	}
	for i, v := range r.values {
		if v == 1 {
			return i
		}
	}
	return -1
}

// ---------------------------------------------------------------------------------------------
// canonical texts (same syntax as the model driver)

func binShowDescr(d binDescr, sh func(float64) string) string {
	s := "-"
	if d.hasMin {
		s = sh(d.min)
	}
	s += ":"
	if d.hasMax {
		s += sh(d.max)
	} else {
		s += "-"
	}
	return s
}

func binShowFloats(l []float64, sh func(float64) string) string {
	p := make([]string, len(l))
	for i, f := range l {
		p[i] = sh(f)
	}
	return strings.Join(p, ",")
}

func (r *binResult) canon(dim int, sh func(float64) string) string {
	if r.err != "" {
		if r.err == "error" {
			return "ERR"
		}
		return "SHAPE " + r.err
	}
	ds := make([]string, len(r.descr))
	for i, d := range r.descr {
		ds[i] = binShowDescr(d, sh)
	}
	if dim == 1 {
		return "OK " + strings.Join(ds, ",") + ";" + binShowFloats(r.values, sh)
	}
	parts := []string{strings.Join(ds, ",")}
	for i := range r.rows {
		parts = append(parts, binShowDescr(r.xd[i], sh)+"="+binShowFloats(r.rows[i], sh))
	}
	return "OK " + strings.Join(parts, ";")
}

// binScaledInt prints f·2^k as a decimal integer, "?" if it is not an integer (or not finite).
func binScaledInt(k int) func(float64) string {
	return func(f float64) string {
		if g := math.Ldexp(f, k); math.Abs(g) < 1<<62 && (k < 900 && math.Abs(f) < 0x1p100) {
			// Ldexp is exact here (no overflow, no underflow: |f| is 0 or >= 2^-1074 and results below 2^-k·… are caught by Trunc)
			if g == math.Trunc(g) && math.Ldexp(g, -k) == f {
				return strconv.FormatInt(int64(g), 10)
			}
		}
		r := binRat(f)
		if r == nil {
			return "?"
		}
		r.Mul(r, new(big.Rat).SetInt(new(big.Int).Lsh(big.NewInt(1), uint(k))))
		if !r.IsInt() {
			return "?"
		}
		return r.Num().String()
	}
}

// splitBinResponse splits a response of the model driver and expands the `=` abbreviation
// (collected result textually equal to the whole result).
func splitBinResponse(r string) []string {
	f := strings.Split(r, "\t")
	if len(f) == 5 {
		if f[1] == "=" {
			f[1] = f[0]
		}
		if f[4] == "=" {
			f[4] = f[3]
		}
	}
	return f
}

func binModelOutcome(s string) string {
	if s == "PANIC" {
		return "ERR" // a panic on the calling goroutine is turned into an error by the generated function
	}
	return s
}

// ---------------------------------------------------------------------------------------------
// property predicates on the implementation

type binVerdict struct {
	sig, what string
}

// checkExact evaluates the property on an exact-domain case; whole/coll are the implementation's results.
func (bc *binCase) checkExact(c *Ctx, whole, coll *binResult) []binVerdict {
	var out []binVerdict
	if whole.err != "" {
		return []binVerdict{{"binning:unexpected-error", "binning of numeric records failed: " + whole.err}}
	}
	// expected histogram by the interval rule, exact
	nx := bc.ax[0].count + 2
	ny := 1
	if bc.dim == 2 {
		ny = bc.ax[1].count + 2
	}
	// values are multiples of 2^-20 below 2^20 and there are < 1000 of them: sums are exact in int64·2^-20
	exp := make([][]int64, nx)
	for i := range exp {
		exp[i] = make([]int64, ny)
	}
	var total int64
	for _, p := range bc.parts {
		for _, r := range p {
			i, j := binSpecIndex(bc.ax[0], r.x), 0
			if bc.dim == 2 {
				j = binSpecIndex(bc.ax[1], r.y)
			}
			exp[i][j] += binScaled20(r.w)
			total += binScaled20(r.w)
		}
	}
	got := whole.rows
	if bc.dim == 1 {
		got = make([][]float64, len(whole.values))
		for i, v := range whole.values {
			got[i] = []float64{v}
		}
	}
	shapeOK := len(got) == nx
	for _, row := range got {
		if len(row) != ny {
			shapeOK = false
		}
	}
	if !shapeOK {
		return []binVerdict{{"binning:shape", fmt.Sprintf("expected %d x %d bins", nx, ny)}}
	}
	// (1) mass
	var sum int64
	finite := true
	for _, row := range got {
		for _, v := range row {
			if !binIsScaled20(v) {
				finite = false
				continue
			}
			sum += binScaled20(v)
		}
	}
	if !finite || sum != total {
		out = append(out, binVerdict{"mass:sum-differs", fmt.Sprintf("Σ bins = %v·2^-20 (all bins exact: %v) but Σ values = %v·2^-20", sum, finite, total)})
	}
	// (2) every element in the bin the interval rule names
	wrong := false
	for i := range got {
		for j := range got[i] {
			if !binIsScaled20(got[i][j]) || binScaled20(got[i][j]) != exp[i][j] {
				wrong = true
			}
		}
	}
	if wrong {
		sig, what := "index:wrong-bin", "a bin does not hold the sum of the elements of its interval"
		// diagnosis: find an element the implementation counts elsewhere
	search:
		for _, p := range bc.parts {
			for _, r := range p {
				for d := 0; d < bc.dim; d++ {
					x := r.x
					if d == 1 {
						x = r.y
					}
					want, have := binSpecIndexBig(bc.ax[d], x), bc.implIndex(c, d, x)
					if want != have {
						what = fmt.Sprintf("element %v (binBits %s) on axis start=%v size=%v count=%d belongs to bin %d by the interval rule, counted in bin %d",
							x, binBits(x), bc.ax[d].start, bc.ax[d].size, bc.ax[d].count, want, have)
						if have == 0 && want == bc.ax[d].count+1 && binQuotientHuge(bc.ax[d], x) {
							sig = "index:huge-quotient-counted-in-underflow-bin"
						}
						break search
					}
				}
			}
		}
		out = append(out, binVerdict{sig, what})
	}
	// (3) descriptions are the intervals
	descrOK := func(a binAxis, ds []binDescr) bool {
		if len(ds) != a.count+2 {
			return false
		}
		// start + i·size is exact in float64 on the exact domain (small dyadics below 2^26)
		edge := func(i int) float64 { return a.start + float64(i)*a.size }
		for i, d := range ds {
			wantMin, wantMax := i > 0, i < a.count+1
			if d.hasMin != wantMin || d.hasMax != wantMax {
				return false
			}
			if wantMin && d.min != edge(i-1) {
				return false
			}
			if wantMax && d.max != edge(i) {
				return false
			}
		}
		return true
	}
	if bc.dim == 1 {
		if !descrOK(bc.ax[0], whole.descr) {
			out = append(out, binVerdict{"descr:mismatch", "descr is not the list of intervals of the interval rule"})
		}
	} else {
		if !descrOK(bc.ax[1], whole.descr) || !descrOK(bc.ax[0], whole.xd) {
			out = append(out, binVerdict{"descr:mismatch", "yDescr / xd are not the intervals of the interval rule"})
		}
	}
	// (4) additivity: collectBinning over the parts' binnings = binning of the whole (bit for bit)
	if coll.canon(bc.dim, binBits) != whole.canon(bc.dim, binBits) {
		out = append(out, binVerdict{"additive:collect-differs", "collectBinning of the parts differs from the binning of the whole list"})
	}
	// (6) additivity along the library's own ways to split and join lists: the groups of groupByInt (interleaved keys), and
	// lists joined with + from a materialised head that is used twice
	if coll.err == "" && whole.err == "" {
		if msg := bc.libraryRoutes(); msg != "" {
			out = append(out, binVerdict{"additive:library-split-differs", msg})
		}
	}
	// (5) the collector is an observer of its parts: the same materialised binnings collected twice, then the first with the
	// last only, give equal / consistent results, the parts are what they were, and the first result does not change
	if len(bc.parts) >= 2 && coll.err == "" {
		if msg := bc.collectTwice(); msg != "" {
			out = append(out, binVerdict{"additive:collect-changes-its-parts", msg})
		}
	}
	return out
}

// ---------------------------------------------------------------------------------------------
// generators

var binFar = []float64{1 << 40, 1 << 52, 1 << 53, 1<<53 + 2, 1 << 62, 9223372036854774784 /* 2^63-1024 */, 9223372036854775808, /* 2^63 */
	9223372036854777856 /* 2^63+2048 */, 18446744073709551616 /* 2^64 */, 1e19, 1e22, 1e300, math.MaxFloat64, 0x1p1000, 3 * 0x1p60, 0x1p70}

func binGenSmall(r *rand.Rand, gran int, mag int) float64 {
	// multiple of 2^-gran, |value| <= mag
	n := r.Intn(2*mag<<uint(gran)+1) - mag<<uint(gran)
	return float64(n) / float64(int(1)<<uint(gran))
}

func binGenSize(r *rand.Rand) float64 {
	switch r.Intn(4) {
	case 0:
		return math.Ldexp(1, r.Intn(13)-6) // 2^-6 .. 2^6
	case 1:
		return float64(1 + r.Intn(9)) // small integers
	case 2:
		return float64(1+r.Intn(15)) * math.Ldexp(1, -(1+r.Intn(4))) // k/2^j: 0.75, 2.5, ...
	default:
		return []float64{1, 2, 0.5, 10, 3, 0.25, 100, 7}[r.Intn(8)]
	}
}

func binGenCount(r *rand.Rand) int {
	switch r.Intn(6) {
	case 0:
		return []int{0, 1, 2, 64, 63, 3}[r.Intn(6)]
	case 1:
		return r.Intn(65)
	default:
		return r.Intn(9)
	}
}

func binGenAxis(r *rand.Rand) binAxis {
	a := binAxis{size: binGenSize(r), count: binGenCount(r)}
	switch r.Intn(5) {
	case 0:
		a.start = 0
	case 1:
		a.start = float64(r.Intn(41) - 20)
	case 2:
		a.start = -float64(a.count) * a.size / 2 // range centred on zero
	default:
		a.start = binGenSmall(r, r.Intn(5), 1000)
	}
	return a
}

// binGenX: a value for the axis — on an edge, next to an edge, inside, outside nearby, far outside
func binGenX(r *rand.Rand, a binAxis, c *Ctx) float64 {
	edge := func() float64 { return a.start + float64(r.Intn(a.count+5)-2)*a.size }
	switch k := r.Intn(12); {
	case k < 3:
		c.Count("x:on-edge")
		return edge()
	case k < 5:
		c.Count("x:next-to-edge")
		eps := math.Ldexp(1, -(1 + r.Intn(12)))
		if r.Intn(2) == 0 {
			eps = -eps
		}
		return edge() + eps
	case k < 8:
		c.Count("x:inside")
		// a multiple of size/8 inside the range
		return a.start + float64(r.Intn(8*(a.count+1)+1))*a.size/8
	case k < 9:
		c.Count("x:zero-or-small")
		return []float64{0, math.Copysign(0, -1), 1, -1, 0.5, -0.5}[r.Intn(6)]
	case k < 10:
		c.Count("x:near-outside")
		return binGenSmall(r, r.Intn(4), 5000)
	default:
		f := binFar[r.Intn(len(binFar))]
		if r.Intn(2) == 0 {
			f = -f
			c.Count("x:far-negative")
		} else {
			c.Count("x:far-positive")
		}
		return f
	}
}

func binGenW(r *rand.Rand, mode int) float64 {
	switch mode {
	case 0:
		return 1
	case 1:
		return float64(r.Intn(21) - 10)
	default:
		return binGenSmall(r, r.Intn(8), 1000)
	}
}

func binSplitParts(r *rand.Rand, recs []binRec) [][]binRec {
	n := 1 + r.Intn(4)
	cuts := make([]int, n-1)
	for i := range cuts {
		cuts[i] = r.Intn(len(recs) + 1)
	}
	sort.Ints(cuts)
	var parts [][]binRec
	prev := 0
	for _, cu := range cuts {
		parts = append(parts, recs[prev:cu])
		prev = cu
	}
	return append(parts, recs[prev:])
}

func binGenExactCase(c *Ctx) *binCase {
	r := c.rng
	bc := &binCase{dim: 1 + r.Intn(2), form: r.Intn(12), tag: "exact"}
	for d := 0; d < bc.dim; d++ {
		bc.ax[d] = binGenAxis(r)
	}
	if bc.dim == 2 && r.Intn(16) != 0 {
		// keep 2-d tables small most of the time: at most one long axis
		if r.Intn(2) == 0 {
			bc.ax[0].count %= 7
		} else {
			bc.ax[1].count %= 7
		}
		if r.Intn(4) != 0 {
			bc.ax[0].count %= 7
			bc.ax[1].count %= 7
		}
	}
	n := 0
	switch r.Intn(8) {
	case 0:
		n = 0
	case 1:
		n = 1
	case 2:
		n = 20 + r.Intn(180)
	default:
		n = 2 + r.Intn(14)
	}
	wm := r.Intn(3)
	recs := make([]binRec, n)
	for i := range recs {
		recs[i].x = binGenX(r, bc.ax[0], c)
		if bc.dim == 2 {
			recs[i].y = binGenX(r, bc.ax[1], c)
		}
		recs[i].w = binGenW(r, wm)
	}
	bc.parts = binSplitParts(r, recs)
	bc.exact = bc.inExactDomain()
	return bc
}

// out-of-domain stream: rounding sizes, arbitrary doubles, NaN, ±Inf, size <= 0, negative counts.
// Only "no crash" and the bit-exact correspondence with the model on IEEE doubles are checked.
var binOddSizes = []float64{0.05, 0.1, 1.0 / 3, 3, 1e-3, 0, math.Copysign(0, -1), -1, -0.5, math.NaN(), math.Inf(1), math.Inf(-1), 5e-324, 1e-300, 1e300, 0.7, 1e15}
var binOddVals = []float64{math.NaN(), math.Inf(1), math.Inf(-1), math.Copysign(0, -1), 0, 0.1, 0.3, 1e-320, 5e-324, 1e308, -1e308, 9007199254740993, 0.1 + 0.2, 1e15 + 0.3, 2.675, -0.05, 0.05, 0.15, 0.35, 1}

func binGenFloatCase(c *Ctx) *binCase {
	r := c.rng
	bc := &binCase{dim: 1 + r.Intn(2), form: r.Intn(12), tag: "float"}
	for d := 0; d < bc.dim; d++ {
		a := binAxis{count: r.Intn(12)}
		switch r.Intn(10) {
		case 0:
			a.count = []int{-1, -2, -3, -5, 0}[r.Intn(5)]
		case 1:
			a.count = r.Intn(65)
		}
		if r.Intn(3) == 0 {
			a.size = binOddSizes[r.Intn(len(binOddSizes))]
		} else {
			a.size = math.Abs(r.NormFloat64()) + 1e-3
		}
		switch r.Intn(4) {
		case 0:
			a.start = binOddVals[r.Intn(len(binOddVals))]
		case 1:
			a.start = 0
		default:
			a.start = r.NormFloat64() * 10
		}
		bc.ax[d] = a
	}
	val := func(a binAxis) float64 {
		switch r.Intn(6) {
		case 0:
			return binOddVals[r.Intn(len(binOddVals))]
		case 1:
			f := binFar[r.Intn(len(binFar))]
			if r.Intn(2) == 0 {
				return -f
			}
			return f
		case 2:
			return a.start + float64(r.Intn(14)-2)*a.size // computed edge (rounded)
		default:
			return a.start + r.Float64()*float64(a.count+2)*a.size - a.size
		}
	}
	n := r.Intn(12)
	recs := make([]binRec, n)
	for i := range recs {
		recs[i].x = val(bc.ax[0])
		if bc.dim == 2 {
			recs[i].y = val(bc.ax[1])
		}
		switch r.Intn(4) {
		case 0:
			recs[i].w = binOddVals[r.Intn(len(binOddVals))]
		case 1:
			recs[i].w = 1
		default:
			recs[i].w = r.NormFloat64()
		}
	}
	bc.parts = binSplitParts(r, recs)
	bc.exact = bc.inExactDomain()
	return bc
}

// corpus: past failures and the design's witnesses, as request lines (run first)
var binCorpus = []string{
	// B20: [1e300].binning(0,1,4,e->e,e->1)
	"BIN\tR\t1\t0000000000000000 3ff0000000000000 4\t7e37e43c8800759c,3ff0000000000000",
	// 2^63, 2^63-1024, -2^63, 2^64 next to in-range values, split in three parts
	"BIN\tR\t1\t0000000000000000 3ff0000000000000 4\t43e0000000000000,3ff0000000000000 43dfffffffffffff,4000000000000000|c3e0000000000000,4010000000000000 43f0000000000000,4020000000000000|3ff8000000000000,4030000000000000",
	// 2^62 with size 2^-6: the quotient (2^68) is out of range although the value is not
	"BIN\tR\t1\t0000000000000000 3f90000000000000 2\t43d0000000000000,3ff0000000000000",
	// 2-d: huge x and huge y
	"BIN\tR\t2\t0000000000000000 3ff0000000000000 1 0000000000000000 3fe0000000000000 2\t7e37e43c8800759c,3fe8000000000000,3ff0000000000000 3fe0000000000000,7fefffffffffffff,4000000000000000|",
	// values exactly on every edge, count 0
	"BIN\tR\t1\tc000000000000000 4000000000000000 0\tc000000000000000,3ff0000000000000 c000800000000000,3ff0000000000000 bff0000000000000,3ff0000000000000",
}

// literal programs: the design's witness as source text, and a malformed stream (non-numeric records,
// collectBinning of things that are not binnings). The property demands nothing of the malformed ones
// except that the call returns; the outcome is only counted.
func runC20Literals(c *Ctx) {
	st := func(src string) (value.Value, error) {
		f, _, err := binParser.Generate(src)
		if err != nil {
			return nil, err
		}
		return f.Eval()
	}
	// DESIGN Appendix B, B20
	src := "[1e300].binning(0,1,4,e->e,e->1).values"
	v, err := st(src)
	ok := false
	if err == nil {
		if fl, ok2 := binFloatsOf(v, funcGen.NewEmptyStack[value.Value]()); ok2 {
			ok = binShowFloats(fl, func(f float64) string { return strconv.FormatFloat(f, 'g', -1, 64) }) == "0,0,0,0,0,1"
		}
	}
	c.Case(src, true)
	if !ok {
		c.Violation("index:huge-quotient-counted-in-underflow-bin", "1e300 is not counted in the overflow bin",
			map[string]any{"program": src, "request": binCorpus[0], "result": fmt.Sprint(v), "error": fmt.Sprint(err)})
	}
	for _, m := range []string{
		`[{x:"a",w:1}].binning(0,1,4,e->e.x,e->e.w)`,
		`[1,2].binning(0,1,4,e->e,e->"s")`,
		`[1,2].binning(0,1,4,e->e>1,e->1)`,
		`[1,2].binning("0",1,4,e->e,e->1)`,
		`[1,2].binning(0,1,4,(a,b)->a,e->1)`,
		`[1,2].binning2d(0,1,4,0,1,4,e->e,e->[e],e->1)`,
		`[].collectBinning()`,
		`[1].collectBinning()`,
		`[{a:1}].collectBinning()`,
		`[{descr:[],values:1}].collectBinning()`,
		`[{descr:[],values:[1,"a"]}].collectBinning()`,
		`[[1].binning(0,1,4,e->e,e->1),[1].binning(0,1,5,e->e,e->1)].collectBinning()`,
		`[[1].binning(0,1,4,e->e,e->1),[1].binning2d(0,1,4,0,1,4,e->e,e->e,e->1)].collectBinning()`,
		`[[1].binning2d(0,1,4,0,1,4,e->e,e->e,e->1),[1].binning2d(0,1,4,0,1,5,e->e,e->e,e->1)].collectBinning()`,
		`[[1].binning2d(0,1,4,0,1,4,e->e,e->e,e->1),[1].binning(0,1,4,e->e,e->1)].collectBinning()`,
	} {
		_, err := st(m)
		c.Case(m, false)
		if err != nil {
			c.Count("malformed:error")
		} else {
			c.Count("malformed:accepted")
		}
	}
}

// ---------------------------------------------------------------------------------------------

func runC20(c *Ctx) {
	log.SetOutput(io.Discard) // generateIntern logs recovered panics (negative counts in the out-of-domain stream)
	c.rule = "cases = (1-d | 2-d) x start/size/count grid (count 0..64; sizes 2^-6..2^6, small integers, k/2^j) x list of records (x/y on bin edges, next to edges, inside, near outside, far outside incl. ±1e300, ±2^63(±), ±MaxFloat64; values = 1, small integers, small dyadics) x splitting into 1..4 parts x presentation (records as maps or lists, numbers as Int or Float, parts as list argument or list literal); plus an out-of-domain stream (rounding sizes, arbitrary doubles, NaN, ±Inf, size <= 0, negative count) for correspondence only; non-trivial = exact-domain case whose records fall into at least two different bins by the interval rule"
	c.assume = append(c.assume,
		"the index and value closures are evaluated by the real evaluator; the model receives the numbers they returned (closure evaluation is C01's subject)",
		"theorems are about the exact instance (scaled integers); on the exact domain (x, start, size multiples of 2^-20 below 2^26 or |x| >= 2^40; values multiples of 2^-20 below 2^20; < 1000 records) float64 arithmetic is exact or its rounding cannot change a bin — sampled: Go = model on IEEE doubles (bit patterns) = model on exact integers",
		"IEEE operations of Lean's Float (+ - * / floor, comparisons, bit casts) are the C double operations; Go/amd64 does not fuse a.start + float64(i)*a.size",
		"count arguments are integral (int(count) truncation of a fractional count is outside the model); bin key `str` (fmt.Sprintf) is outside the model")

	var cases []*binCase
	if rp := os.Getenv("VERIF_REPLAY"); rp != "" {
		data, err := os.ReadFile(rp)
		if err != nil {
			fatal("replay file: %v", err)
		}
		var rep map[string]any
		if err := json.Unmarshal(data, &rep); err != nil {
			fatal("replay file: %v", err)
		}
		line, _ := rep["request"].(string)
		bc, ok := parseBinRequest(line)
		if !ok {
			fatal("replay file has no usable request line")
		}
		if f, ok := rep["form"].(float64); ok {
			bc.form = int(f)
		}
		cases = append(cases, bc)
	} else {
		runC20Literals(c)
		for i, l := range binCorpus {
			for form := 0; form < 4; form++ {
				bc, ok := parseBinRequest(l)
				if !ok {
					fatal("C20: bad corpus line %d", i)
				}
				bc.form = form
				bc.tag = "corpus"
				cases = append(cases, bc)
			}
		}
		n := c.Pick(12000, 250000)
		if len(c.BrokenObligs()) > 0 {
			n *= 2 // a theorem no longer checks: search harder for a failing input
		}
		for i := 0; i < n; i++ {
			if i%8 == 7 {
				cases = append(cases, binGenFloatCase(c))
			} else {
				cases = append(cases, binGenExactCase(c))
			}
		}
	}

	const batch = 20000
	for lo := 0; lo < len(cases); lo += batch {
		hi := lo + batch
		if hi > len(cases) {
			hi = len(cases)
		}
		runC20Batch(c, cases[lo:hi])
	}
}

func runC20Batch(c *Ctx, cases []*binCase) {
	type binImplOut struct {
		whole, coll *binResult
		predFailed  bool
	}
	reqs := make([]string, 0, len(cases))
	outs := make([]binImplOut, 0, len(cases))
	for _, bc := range cases {
		req := bc.request("R")
		whole := bc.runWhole(c)
		coll := bc.runCollect(c)
		o := binImplOut{whole: whole, coll: coll}

		// bookkeeping
		nrec, binsHit := 0, map[[2]int]bool{}
		for _, p := range bc.parts {
			nrec += len(p)
		}
		c.Count("dim=" + strconv.Itoa(bc.dim))
		c.Count("domain=" + map[bool]string{true: "exact", false: "out-of-domain"}[bc.exact])
		c.Count("parts=" + strconv.Itoa(len(bc.parts)))
		switch {
		case nrec == 0:
			c.Count("records=0")
		case nrec == 1:
			c.Count("records=1")
		case nrec <= 16:
			c.Count("records=2..16")
		default:
			c.Count("records=17..200")
		}
		switch cnt := bc.ax[0].count; {
		case cnt < 0:
			c.Count("count<0")
		case cnt == 0:
			c.Count("count=0")
		case cnt <= 8:
			c.Count("count=1..8")
		case cnt < 64:
			c.Count("count=9..63")
		default:
			c.Count("count=64")
		}
		if whole.err != "" {
			c.Count("impl=" + whole.err)
		} else {
			c.Count("impl=ok")
		}

		if bc.exact {
			for _, p := range bc.parts {
				for _, r := range p {
					k := [2]int{binSpecIndex(bc.ax[0], r.x), 0}
					if bc.dim == 2 {
						k[1] = binSpecIndex(bc.ax[1], r.y)
					}
					binsHit[k] = true
					if k[0] == 0 {
						c.Count("bin:underflow")
					} else if k[0] == bc.ax[0].count+1 {
						c.Count("bin:overflow")
					} else {
						c.Count("bin:inner")
					}
				}
			}
			for _, v := range bc.checkExact(c, whole, coll) {
				o.predFailed = true
				c.Violation(v.sig, v.what, map[string]any{"request": req, "form": bc.form, "program": bc.call("l"),
					"impl_whole": whole.canon(bc.dim, binBits), "impl_collect": coll.canon(bc.dim, binBits)})
			}
		} else {
			// out of the property's domain: the call must return (a value or an error), nothing else is demanded
			if strings.HasPrefix(whole.err, "shape") || strings.HasPrefix(coll.err, "shape") {
				o.predFailed = true
				c.Violation("binning:result-shape", "result is not a binning map: "+whole.err+" / "+coll.err, map[string]any{"request": req, "form": bc.form})
			}
		}
		c.Case(req, bc.exact && len(binsHit) >= 2)
		if len(c.samples) < 4 && bc.exact && len(binsHit) >= 3 && nrec <= 6 {
			c.Sample(map[string]any{"request": req, "program": bc.call("l"), "impl": whole.canon(bc.dim, binBits)})
		}
		reqs = append(reqs, req)
		outs = append(outs, o)
	}

	// correspondence with the model
	resp := c.Model(reqs)
	var again []int // cases that differ from the repaired model: ask the model of the pinned getIndex
	for i, r := range resp {
		bc, o := cases[i], outs[i]
		f := splitBinResponse(r)
		if len(f) != 5 {
			c.Broken("corr:BIN", "model driver rejected the request", map[string]any{"request": reqs[i], "response": r})
			continue
		}
		implW, implC := o.whole.canon(bc.dim, binBits), o.coll.canon(bc.dim, binBits)
		okF := binModelOutcome(f[0]) == implW && binModelOutcome(f[1]) == implC
		okX := true
		if bc.exact {
			if f[2] == "-" {
				okX = false
			} else {
				k, _ := strconv.Atoi(f[2])
				sh := binScaledInt(k)
				okX = binModelOutcome(f[3]) == o.whole.canon(bc.dim, sh) && binModelOutcome(f[4]) == o.coll.canon(bc.dim, sh)
			}
			c.Count("model-exact-compared")
		}
		if okF && okX {
			continue
		}
		c.disagree++
		if o.predFailed {
			c.Count("model-differs(explained by a predicate violation)")
			again = append(again, i)
			continue
		}
		again = append(again, i)
	}
	if len(again) > 0 {
		var preqs []string
		for _, i := range again {
			preqs = append(preqs, cases[i].request("P"))
		}
		presp := c.Model(preqs)
		for n, i := range again {
			bc, o := cases[i], outs[i]
			f := splitBinResponse(presp[n])
			pinnedAgrees := len(f) == 5 && binModelOutcome(f[0]) == o.whole.canon(bc.dim, binBits) && binModelOutcome(f[1]) == o.coll.canon(bc.dim, binBits)
			if pinnedAgrees {
				c.Count("impl=model of the pinned getIndex")
			}
			if o.predFailed {
				continue
			}
			rf := splitBinResponse(resp[i])
			name := "corr:BIN"
			what := "model (repaired getIndex) and implementation differ"
			if pinnedAgrees {
				name = "corr:BIN:pinned-getIndex"
				what = "implementation behaves like the pinned getIndex (int(math.Floor(q))+1 with an out-of-range conversion), the model is the repaired one; the case is outside the property's exact domain"
			}
			c.Broken(name, what, map[string]any{"request": reqs[i], "form": bc.form, "exact_domain": bc.exact,
				"impl_whole": o.whole.canon(bc.dim, binBits), "impl_collect": o.coll.canon(bc.dim, binBits), "model": rf})
		}
	}
}
