package main

// Tie 1: regenerated facts. Dumps table-like parts of /repo's current working tree as Lean data
// into lean/P2/Generated/*.lean (only rewritten when the content changed).

import (
	"encoding/json"
	"fmt"
	"os"
	"os/exec"
	"path/filepath"
	"reflect"
	"runtime"
	"sort"
	"strconv"
	"strings"
	"sync"
	"unicode/utf8"

	"github.com/hneemann/parser2/funcGen"
	"github.com/hneemann/parser2/value"
	"github.com/hneemann/parser2/value/export"
)

var extractors []func()

// genPath: the path of a generated file; in a child of runExtract the name is also recorded as owned by the
// running extractor (before the file is written: an extractor that fails later still owns it).
func genPath(name string) string {
	if of := os.Getenv("VERIF_EXTRACT_OWNED"); of != "" {
		if f, err := os.OpenFile(of, os.O_APPEND|os.O_CREATE|os.O_WRONLY, 0o644); err == nil {
			fmt.Fprintln(f, name)
			f.Close()
		}
	}
	return filepath.Join(verifRoot, "lean/P2/Generated", name)
}

// runExtract runs every extractor in its own child process (`tie extract <index>`), so that an extractor which no
// longer understands the code (it ends the process with a message) takes down only the tables it owns: they are
// listed in .work/extract_failures.json and `check` reports every property whose model or obligations use them. Which files an extractor owns is recorded by genPath and kept from its last successful run (tie/extract_owners.json).
func runExtract() {
	if len(os.Args) > 2 {
		i, err := strconv.Atoi(os.Args[2])
		if err != nil || i < 0 || i >= len(extractors) {
			fatal("extract: bad index %q", os.Args[2])
		}
		extractors[i]()
		return
	}
	genDir := filepath.Join(verifRoot, "lean", "P2", "Generated")
	ownersPath := filepath.Join(verifRoot, "tie", "extract_owners.json") // committed: a fresh sandbox knows the owners too
	owners := map[string][]string{}
	if data, err := os.ReadFile(ownersPath); err == nil {
		json.Unmarshal(data, &owners)
	}
	var failures []map[string]any
	// the children run side by side (each writes its own files), their results are handled in order
	type childResult struct {
		err  error
		errb strings.Builder
	}
	results := make([]childResult, len(extractors))
	var wg sync.WaitGroup
	os.MkdirAll(filepath.Join(verifRoot, ".work"), 0o755)
	for i := range extractors {
		ownedFile := filepath.Join(verifRoot, ".work", "extract_owned_"+strconv.Itoa(i)+".txt")
		os.Remove(ownedFile)
		wg.Add(1)
		go func(i int, ownedFile string) {
			defer wg.Done()
			cmd := exec.Command(os.Args[0], "extract", strconv.Itoa(i))
			cmd.Env = append(os.Environ(), "VERIF_EXTRACT_OWNED="+ownedFile)
			cmd.Stderr = &results[i].errb
			results[i].err = cmd.Run()
		}(i, ownedFile)
	}
	wg.Wait()
	for i := range extractors {
		ownedFile := filepath.Join(verifRoot, ".work", "extract_owned_"+strconv.Itoa(i)+".txt")
		err := results[i].err
		errb := &results[i].errb
		var mine []string
		if data, e := os.ReadFile(ownedFile); e == nil {
			for _, l := range strings.Fields(string(data)) {
				mine = append(mine, l)
			}
		}
		os.Remove(ownedFile)
		key := runtime.FuncForPC(reflect.ValueOf(extractors[i]).Pointer()).Name()
		if err != nil {
			msg := strings.TrimSpace(errb.String())
			if len(msg) > 600 {
				msg = msg[:600]
			}
			fmt.Fprintf(os.Stderr, "tie extract: %s failed: %s\n", key, msg)
			// the tables this extractor owns are NOT regenerated: `check` reports every property that depends on them.
			// The files stay (other properties' models import them too); in a fresh sandbox the committed baseline
			// copy is used so that the shared driver still builds.
			stale := append(append([]string{}, owners[key]...), mine...)
			for _, f := range stale {
				if _, e := os.Stat(filepath.Join(genDir, f)); e != nil {
					if data, e2 := os.ReadFile(filepath.Join(verifRoot, "lean", "generated_baseline", f)); e2 == nil {
						os.MkdirAll(genDir, 0o755)
						os.WriteFile(filepath.Join(genDir, f), data, 0o644)
					}
				}
			}
			failures = append(failures, map[string]any{"extractor": key, "message": msg, "stale": stale})
			continue
		}
		sort.Strings(mine)
		if len(mine) > 0 {
			owners[key] = mine
		}
	}
	os.MkdirAll(filepath.Join(verifRoot, ".work"), 0o755)
	if data, err := json.MarshalIndent(owners, "", " "); err == nil {
		writeIfChanged(ownersPath, append(data, '\n'))
	}
	data, _ := json.MarshalIndent(failures, "", " ")
	os.WriteFile(filepath.Join(verifRoot, ".work", "extract_failures.json"), data, 0o644)
}

func leanCharList(s string) string {
	var parts []string
	for _, r := range s {
		parts = append(parts, fmt.Sprintf("Char.ofNat %d", r))
	}
	return "[" + strings.Join(parts, ", ") + "]"
}

func init() { extractors = append(extractors, extractJsonEsc) }

// jsonEscapeOf runs the real exporter on the one-rune string and strips the quotes.
func jsonEscapeOf(r rune) (string, bool) {
	ex := export.JSON()
	err := export.Export(funcGen.NewEmptyStack[value.Value](), value.String(string(r)), ex)
	if err != nil {
		return "", false
	}
	out := string(ex.Result())
	if len(out) < 2 || out[0] != '"' || out[len(out)-1] != '"' || !utf8.ValidString(out) {
		return out, false
	}
	return out[1 : len(out)-1], true
}

// extractJsonEsc: for every Unicode scalar value the bytes jsonExporter.String emits;
// compressed as "exceptions, verbatim otherwise".
func extractJsonEsc() {
	var b strings.Builder
	b.WriteString("import P2.Model.Json\n/-! GENERATED by `tie extract` from value/export/json.go (exhaustive run of the real exporter over all\nUnicode scalar values; entries = code points not written verbatim). Do not edit. -/\nnamespace P2.Generated\ndef jsonEscTable : P2.Json.EscTable := [\n")
	n := 0
	bad := 0
	truncated := false
	for r := rune(0); r <= 0x10FFFF; r++ {
		if r >= 0xD800 && r <= 0xDFFF {
			continue
		}
		out, ok := jsonEscapeOf(r)
		if !ok {
			bad++
			continue
		}
		if out == string(r) {
			continue
		}
		if n > 0 {
			b.WriteString(",\n")
		}
		fmt.Fprintf(&b, "  (Char.ofNat %d, %s)", r, leanCharList(out))
		n++
		if n >= 600 {
			truncated = true // far more exceptions than any sane escaper has: keep the table small, the obligation fails
			break
		}
	}
	b.WriteString("]\n")
	fmt.Fprintf(&b, "/-- the exception list was cut off (the exporter rewrites more than 600 code points) -/\ndef jsonEscTruncated : Bool := %v\n", truncated)
	fmt.Fprintf(&b, "/-- code points for which the exporter did not return a quoted valid UTF-8 string -/\ndef jsonEscMalformed : Nat := %d\nend P2.Generated\n", bad)
	writeIfChanged(genPath("JsonEsc.lean"), []byte(b.String()))
}
