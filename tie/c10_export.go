package main

// C10, helper libraries of the repository itself: a generator with the file helpers of value/export registered
// (export.AddFileHelpers: dataFile(...) and its builder methods add / addIf / timeIsDate / timeFormat / dateFormat, dat, csv,
// zip). dataFile(...) is a pure static function, so a builder bound before use is a CONSTANT shared by all evaluations; a
// builder method that changes its receiver instead of a copy makes every later evaluation (and every result still held by
// the host) see the change. Histories as in the main family: every outcome equals the isolated first evaluation on a fresh
// generator, results held by the host are rendered after later evaluations.

import (
	"fmt"
	"strings"

	"github.com/hneemann/parser2/funcGen"
	"github.com/hneemann/parser2/value"
	"github.com/hneemann/parser2/value/export"
)

var c10ExportPrograms = []string{
	`let d = dataFile("t", "s", t -> t); if a = 1 then d.timeIsDate().csv("f", [1, 2]) else d.csv("f", [1, 2])`,
	`let d = dataFile("t", "s", t -> t).timeIsDate(); if a = 1 then d.timeFormat("15h").csv("f", [a, 7]) else if a = 2 then d.dateFormat("2006").csv("f", [a, 7]) else d.csv("f", [a, 7])`,
	`let d = dataFile("t", "s", t -> t).add("x", "u", e -> e * 2); if a % 2 = 1 then d.timeIsDate() else d`,
	`let d = dataFile("t", "s", t -> t).add("x", "u", e -> e * 2); [d.addIf(a > 0, "p", "u", e -> e + a), d.addIf(a > 1, "q", "u", e -> e - a), d]`,
	`let r = dataFile("t", "s", t -> t).add("x", "u", e -> e).add("y", "u", e -> e * 2).add("z", "u", e -> e * 3); r.add("c" + a, "u", e -> e + a)`,
	`let r = dataFile("t", "s", t -> t).add("x", "u", e -> e).add("y", "u", e -> e * 2).add("z", "u", e -> e * 3); let u = r.add("A" + a, "u", e -> e + a); let v = r.add("B", "u", e -> e - a); [u, v, u.add("C", "u", e -> e), u.add("D", "u", e -> 0 - e)]`,
	`let r = dataFile("t", "s", t -> t).add("x", "u", e -> e); let z = [r.csv("one", [1, a]), r.timeIsDate().dat("two", [2, a])].zip("z"); [z, r.csv("three", [a])]`,
	`func col(d, n) if n = 0 then d else col(d.add("c" + n, "u", e -> e * n), n - 1); let base = dataFile("t", "s", t -> t); [col(base, a % 4), col(base.timeIsDate(), 2), base]`,
}

func c10ExportFG(opt bool) *value.FunctionGenerator {
	fg := newValueFG(opt)
	export.AddFileHelpers(fg)
	return fg
}

// c10ExportShow renders a result: files by their bytes, builders by the csv and dat files they write for [1, 2]
func c10ExportShow(v value.Value) (out string) {
	defer func() {
		if r := recover(); r != nil {
			out = fmt.Sprintf("PANIC %v", r)
		}
	}()
	st := funcGen.NewEmptyStack[value.Value]()
	switch x := v.(type) {
	case export.File:
		return fmt.Sprintf("FILE %s %s %x", x.Name, x.MimeType, x.Data)
	case *export.Data:
		rows := value.NewList(value.Int(1), value.Int(2))
		c, err1 := x.CsvFile(st, rows)
		d, err2 := x.DatFile(st, rows)
		if err1 != nil || err2 != nil {
			return "DATA ERR"
		}
		return fmt.Sprintf("DATA %q %q", c, d)
	case *value.List:
		sl, err := x.ToSlice(st)
		if err != nil {
			return "ERR"
		}
		var parts []string
		for _, e := range sl {
			parts = append(parts, c10ExportShow(e))
		}
		return "[" + strings.Join(parts, " | ") + "]"
	}
	s, err := canonValue(v)
	if err != nil {
		return "ERR"
	}
	return "OK " + s
}

func c10ExportHelpers(c *Ctx) {
	for _, opt := range []bool{true, false} {
		for _, src := range c10ExportPrograms {
			iso := map[int]string{}
			isolated := func(a int) string {
				if s, ok := iso[a]; ok {
					return s
				}
				f, _, err := c10ExportFG(opt).Generate(src, "a")
				if err != nil {
					fatal("c10 export helpers: %q: %v", src, err)
				}
				v, err := f.Eval(value.Int(a))
				s := "ERR"
				if err == nil {
					s = c10ExportShow(v)
				}
				iso[a] = s
				return s
			}
			fg := c10ExportFG(opt)
			f, _, err := fg.Generate(src, "a")
			if err != nil {
				fatal("c10 export helpers: %q: %v", src, err)
			}
			type held struct {
				a int
				v value.Value
			}
			var helds []held
			hist := []int{0, 1, 0, 2, 3, 1, 2, 0, 5, 0}
			bad := false
			for step, a := range hist {
				v, err := f.Eval(value.Int(a))
				c.Count("export-helpers:eval")
				if err != nil {
					if isolated(a) != "ERR" {
						c.Violation("evaluation-depends-on-history", "an evaluation that uses the file helpers fails after earlier evaluations",
							map[string]any{"program": src, "optimizer": opt, "history": fmt.Sprint(hist[:step]), "argument": a, "outcome": "ERR", "isolated": trunc(isolated(a), 300)})
						bad = true
						break
					}
					continue
				}
				if step%3 == 1 {
					helds = append(helds, held{a, v}) // rendered after the later evaluations
					continue
				}
				if out := c10ExportShow(v); out != isolated(a) {
					c.disagree++
					c.Violation("evaluation-depends-on-history", "an evaluation that uses the file helpers differs from the isolated first evaluation with the same argument",
						map[string]any{"program": src, "optimizer": opt, "history": fmt.Sprint(hist[:step]), "argument": a, "outcome": trunc(out, 300), "isolated": trunc(isolated(a), 300)})
					bad = true
					break
				}
			}
			if !bad {
				for _, h := range helds {
					c.Count("export-helpers:late-consume")
					if out := c10ExportShow(h.v); out != isolated(h.a) {
						c.disagree++
						c.Violation("evaluation-depends-on-history", "a result built with the file helpers and rendered after later evaluations differs from the isolated evaluation",
							map[string]any{"program": src, "optimizer": opt, "argument": h.a, "outcome": trunc(out, 300), "isolated": trunc(isolated(h.a), 300)})
						break
					}
				}
			}
			c.Case(fmt.Sprintf("export-helpers|%v|%s", opt, src), true)
		}
	}
}
