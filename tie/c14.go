package main

// C14 — equality and ordering operators obey their algebraic laws.
//
// Tie 1: extractCmpMatrix probes the live operator implementations of value.New() on one representative
// value per type pair (value vs. error) and which comparator List.Equals / Map.Equals get
// (-> lean/P2/Generated/CmpMatrix.lean).
// Tie 2: a pool of values, ALL ordered pairs x all comparison operators evaluated by the real code
// (through Generate+Eval and, to see panics, directly through the operator implementation), the laws of
// the property evaluated on those outcomes, and every pair/triple outcome compared with the Lean model.

import (
	"encoding/json"
	"fmt"
	"io"
	"log"
	"math"
	"math/big"
	"os"
	"sort"
	"strconv"
	"strings"

	"github.com/hneemann/parser2/funcGen"
	"github.com/hneemann/parser2/listMap"
	"github.com/hneemann/parser2/value"
)

func init() {
	props["C14"] = runC14
	extractors = append(extractors, extractCmpMatrix)
}

// ---------------------------------------------------------------------------------------------
// value descriptions

type cv struct {
	Kind  byte // 'i' 'f' 's' 'b' 'L' 'M' 'C'
	I     int64
	F     float64
	S     string
	B     bool
	Items []*cv
	Keys  []string
	Rep   int // list: 0 materialised, 1 lazy, 2 lazy with known size, 3 appended; map: see buildMap, 6 = replaced
	Args  int
}

var c14TypeNames = map[byte]string{'i': "int", 'f': "float", 's': "string", 'b': "bool", 'L': "list", 'M': "map", 'C': "closure"}
var c14TypeOrder = []byte{'i', 'f', 's', 'b', 'L', 'M', 'C'}

func cI(i int64) *cv               { return &cv{Kind: 'i', I: i} }
func cF(f float64) *cv             { return &cv{Kind: 'f', F: f} }
func cS(s string) *cv              { return &cv{Kind: 's', S: s} }
func cB(b bool) *cv                { return &cv{Kind: 'b', B: b} }
func cC(args int) *cv              { return &cv{Kind: 'C', Args: args} }
func cL(rep int, items ...*cv) *cv { return &cv{Kind: 'L', Rep: rep, Items: items} }
func cM(rep int, kv ...any) *cv {
	m := &cv{Kind: 'M', Rep: rep}
	for i := 0; i+1 < len(kv); i += 2 {
		m.Keys = append(m.Keys, kv[i].(string))
		m.Items = append(m.Items, kv[i+1].(*cv))
	}
	return m
}

func (v *cv) isRandomOrderMap() bool {
	return v.Kind == 'M' && (v.Rep == 3 || v.Rep == 4) && len(v.Keys) >= 2
}

// mutable: evaluation changes the Go object (a lazy list is materialised), so every evaluation gets a fresh one
func (v *cv) mutable() bool {
	if v.Kind == 'L' && (v.Rep == 1 || v.Rep == 2) {
		return true
	}
	for _, it := range v.Items {
		if it.mutable() {
			return true
		}
	}
	return false
}

func (v *cv) build() value.Value {
	switch v.Kind {
	case 'i':
		return value.Int(v.I)
	case 'f':
		return value.Float(v.F)
	case 's':
		return value.String(v.S)
	case 'b':
		return value.Bool(v.B)
	case 'C':
		return value.Closure(funcGen.Function[value.Value]{Func: func(st funcGen.Stack[value.Value], cs []value.Value) (value.Value, error) {
			return st.Get(0), nil
		}, Args: v.Args})
	case 'L':
		items := make([]value.Value, len(v.Items))
		for i, it := range v.Items {
			items[i] = it.build()
		}
		switch v.Rep {
		case 1:
			return lazyList(items, false)
		case 2:
			return lazyList(items, true)
		case 3:
			if len(items) > 0 {
				st := funcGen.NewEmptyStack[value.Value]()
				head := value.NewList(items[:len(items)-1]...)
				st.Push(head)
				st.Push(items[len(items)-1])
				l, err := head.Append(st.CreateFrame(2))
				if err != nil {
					panic(err)
				}
				return l
			}
		}
		return value.NewList(items...)
	default:
		vals := make([]value.Value, len(v.Items))
		for i, it := range v.Items {
			vals[i] = it.build()
		}
		if v.Rep == 6 && len(vals) > 0 {
			// replaced: the original map holds a stale value under the last key
			n := len(vals)
			stale := append(append([]value.Value{}, vals[:n-1]...), value.String("stale"))
			orig := buildMap(v.Keys, stale, 0)
			rep := value.NewMap(listMap.New[value.Value](1).Append(v.Keys[n-1], vals[n-1]))
			st := funcGen.NewEmptyStack[value.Value]()
			st.Push(orig)
			st.Push(value.Closure(funcGen.Function[value.Value]{Func: func(st funcGen.Stack[value.Value], cs []value.Value) (value.Value, error) {
				return rep, nil
			}, Args: 1}))
			m, err := orig.Replace(st.CreateFrame(2))
			if err != nil {
				panic(err)
			}
			return m
		}
		return buildMap(v.Keys, vals, v.Rep)
	}
}

// iteration order of the storage (indices into Keys); for hash maps the declared order (any order can occur)
func (v *cv) mapOrder() []int {
	n := len(v.Keys)
	idx := map[string]int{}
	vals := make([]value.Value, n)
	for i, k := range v.Keys {
		idx[k] = i
		vals[i] = value.Int(i)
	}
	res := []int{}
	if v.Rep == 3 || v.Rep == 4 {
		for i := range v.Keys {
			res = append(res, i)
		}
		return res
	}
	probe := &cv{Kind: 'M', Rep: v.Rep, Keys: v.Keys}
	for i := range v.Keys {
		probe.Items = append(probe.Items, cI(int64(i)))
	}
	m := probe.build().(value.Map)
	m.Iter(func(k string, _ value.Value) bool {
		res = append(res, idx[k])
		return true
	})
	if len(res) != n {
		fatal("C14: map representation %d iterates %d of %d keys", v.Rep, len(res), n)
	}
	return res
}

// tokens renders the value in the CMP request syntax; perm (optional) overrides the order of a top-level map
func (v *cv) tokens(perm []int) string {
	switch v.Kind {
	case 'i':
		return "I " + strconv.FormatInt(v.I, 10)
	case 'f':
		return fmt.Sprintf("F %016x", math.Float64bits(v.F))
	case 's':
		return "S " + cps(v.S)
	case 'b':
		if v.B {
			return "B 1"
		}
		return "B 0"
	case 'C':
		return "C " + itoa(v.Args)
	case 'L':
		p := "1"
		if v.Rep == 1 || v.Rep == 2 {
			p = "0"
		}
		s := "L " + p + " " + itoa(len(v.Items))
		for _, it := range v.Items {
			s += " " + it.tokens(nil)
		}
		return s
	default:
		if perm == nil {
			perm = v.mapOrder()
		}
		s := "M " + itoa(len(v.Keys))
		for _, i := range perm {
			s += " " + cps(v.Keys[i]) + " " + v.Items[i].tokens(nil)
		}
		return s
	}
}

// abstract: representation-independent canonical form (maps sorted by key) — "the same value"
func (v *cv) abstract() string {
	switch v.Kind {
	case 'L':
		s := "L " + itoa(len(v.Items))
		for _, it := range v.Items {
			s += " " + it.abstract()
		}
		return s
	case 'M':
		idx := make([]int, len(v.Keys))
		for i := range idx {
			idx[i] = i
		}
		sort.Slice(idx, func(a, b int) bool { return v.Keys[idx[a]] < v.Keys[idx[b]] })
		s := "M " + itoa(len(v.Keys))
		for _, i := range idx {
			s += " " + cps(v.Keys[i]) + " " + v.Items[i].abstract()
		}
		return s
	case 'C':
		return fmt.Sprintf("C %p", v)
	}
	return v.tokens(nil)
}

func (v *cv) depth() int {
	if v.Kind != 'L' && v.Kind != 'M' {
		return 0
	}
	d := 0
	for _, it := range v.Items {
		if x := it.depth(); x > d {
			d = x
		}
	}
	return d + 1
}

func (v *cv) any(p func(*cv) bool) bool {
	if p(v) {
		return true
	}
	for _, it := range v.Items {
		if it.any(p) {
			return true
		}
	}
	return false
}

func (v *cv) plain() bool { // no NaN, no closure
	return !v.any(func(x *cv) bool { return x.Kind == 'C' || (x.Kind == 'f' && math.IsNaN(x.F)) })
}
func (v *cv) hasMap() bool { return v.any(func(x *cv) bool { return x.Kind == 'M' }) }
func (v *cv) isNum() bool  { return v.Kind == 'i' || v.Kind == 'f' }
func (v *cv) isNaN() bool  { return v.Kind == 'f' && math.IsNaN(v.F) }

// exact numeric value of a non-NaN number: (class, rational); class -1/+1 for the infinities
func (v *cv) num() (int, *big.Rat) {
	if v.Kind == 'i' {
		return 0, new(big.Rat).SetInt64(v.I)
	}
	if math.IsInf(v.F, 1) {
		return 1, nil
	}
	if math.IsInf(v.F, -1) {
		return -1, nil
	}
	r2 := new(big.Rat)
	r2.SetFloat64(v.F)
	return 0, r2
}

// numCmp: -1, 0, +1 by exact numeric value (±0 equal)
func numCmp(a, b *cv) int {
	ca, ra := a.num()
	cb, rb := b.num()
	if ca != cb {
		if ca < cb {
			return -1
		}
		return 1
	}
	if ca != 0 {
		return 0
	}
	return ra.Cmp(rb)
}

func parseCV(ws []string) (*cv, []string, error) {
	if len(ws) < 2 {
		return nil, nil, fmt.Errorf("short value")
	}
	switch ws[0] {
	case "I":
		i, err := strconv.ParseInt(ws[1], 10, 64)
		return cI(i), ws[2:], err
	case "F":
		b, err := strconv.ParseUint(ws[1], 16, 64)
		return cF(math.Float64frombits(b)), ws[2:], err
	case "S":
		return cS(fromCps(ws[1])), ws[2:], nil
	case "B":
		return cB(ws[1] == "1"), ws[2:], nil
	case "C":
		n, err := strconv.Atoi(ws[1])
		return cC(n), ws[2:], err
	case "L":
		if len(ws) < 3 {
			return nil, nil, fmt.Errorf("short list")
		}
		n, err := strconv.Atoi(ws[2])
		if err != nil {
			return nil, nil, err
		}
		l := &cv{Kind: 'L'}
		if ws[1] == "0" {
			l.Rep = 1
		}
		rest := ws[3:]
		for i := 0; i < n; i++ {
			var it *cv
			it, rest, err = parseCV(rest)
			if err != nil {
				return nil, nil, err
			}
			l.Items = append(l.Items, it)
		}
		return l, rest, nil
	case "M":
		n, err := strconv.Atoi(ws[1])
		if err != nil {
			return nil, nil, err
		}
		m := &cv{Kind: 'M'}
		rest := ws[2:]
		for i := 0; i < n; i++ {
			if len(rest) < 1 {
				return nil, nil, fmt.Errorf("short map")
			}
			key := fromCps(rest[0])
			var it *cv
			it, rest, err = parseCV(rest[1:])
			if err != nil {
				return nil, nil, err
			}
			m.Keys = append(m.Keys, key)
			m.Items = append(m.Items, it)
		}
		return m, rest, nil
	}
	return nil, nil, fmt.Errorf("unknown value tag %q", ws[0])
}

func parseCVString(s string) (*cv, error) {
	v, rest, err := parseCV(strings.Fields(s))
	if err != nil {
		return nil, err
	}
	if len(rest) != 0 {
		return nil, fmt.Errorf("trailing tokens")
	}
	return v, nil
}

// ---------------------------------------------------------------------------------------------
// the pool

const c14Max = int64(1)<<53 - 1

func c14Pool() []*cv {
	var p []*cv
	add := func(vs ...*cv) { p = append(p, vs...) }
	// ints, |x| < 2^53
	for _, i := range []int64{0, 1, -1, 2, 3, 5, c14Max, -c14Max, c14Max - 1, 1 << 31, 1<<32 + 1} {
		add(cI(i))
	}
	// floats: ±0, ±inf, neighbours of integers, halves, the int boundary, extremes; NaN (its own class)
	for _, f := range []float64{0, math.Copysign(0, -1), 1, -1, 2, 3, 0.5, 1.5, -0.5, 2.5,
		math.Nextafter(1, 2), math.Nextafter(1, 0), math.Nextafter(3, 4), math.Nextafter(2, 1),
		float64(c14Max), -float64(c14Max), float64(c14Max - 1), float64(1 << 31),
		math.Inf(1), math.Inf(-1), 1e300, -1e300, 5e-324, math.NaN()} {
		add(cF(f))
	}
	// strings: empty, prefixes of each other, case, Unicode (2-, 3-, 4-byte), composed vs. decomposed, look-alikes of other types
	for _, s := range []string{"", "a", "ab", "abc", "b", "B", "e", "\u00e9", "e\u0301", "z", "\u65e5", "\u65e5\u672c", "\U0001F600", "\uffff", "1", "true", " ", "p", "x"} {
		add(cS(s))
	}
	add(cB(true), cB(false))
	one, two := cI(1), cI(2)
	// lists: lazy and materialised, nested, mixed
	add(cL(0), cL(1), cL(2),
		cL(0, one), cL(1, one), cL(0, cF(1)), cL(0, two),
		cL(0, one, two), cL(1, one, two), cL(2, one, two), cL(3, one, two), cL(0, two, one), cL(0, cF(1), cF(2)),
		cL(0, one, two, cI(3)), cL(0, cI(3), one, two),
		cL(0, cS("a")), cL(0, one, cS("a")), cL(0, cS("a"), one), cL(0, two, cI(5)),
		cL(0, cB(true)), cL(0, cF(math.NaN())), cL(0, cC(1)),
		cL(0, cL(0, one)), cL(1, cL(1, one)), cL(0, cL(0, cF(1))), cL(0, cL(0, two)), cL(0, cL(0, one), cL(0, two)), cL(0, cL(0, one, two)), cL(0, cL(0)),
		cL(0, cL(0, cL(0, one))),
		cL(0, cM(0, "p", one, "q", two)), cL(0, cM(1, "p", one, "q", two)), cL(0, cS("p")))
	// maps in different representations; the hash-map representations (3, 4) have a random iteration order
	add(cM(0), cM(1), cM(3),
		cM(0, "a", one), cM(1, "a", one), cM(3, "a", one), cM(4, "a", one), cM(6, "a", one), cM(0, "a", cF(1)), cM(0, "a", two), cM(0, "b", one),
		cM(0, "", one), cM(0, "é", one))
	for rep := 0; rep <= 6; rep++ {
		add(cM(rep, "p", one, "q", two))
	}
	add(cM(0, "q", two, "p", one), cM(0, "p", one, "q", cI(3)), cM(0, "p", one, "q", cF(2)), cM(0, "p", one, "r", two),
		cM(0, "p", one, "q", two, "r", cI(3)), cM(5, "p", one, "q", two, "r", cI(3)), cM(2, "r", cI(3), "q", two, "p", one),
		// the mixed false/error family
		cM(0, "x", one, "y", cS("s")), cM(1, "x", one, "y", cS("s")), cM(0, "y", two, "x", cI(5)), cM(1, "y", two, "x", cI(5)),
		// nested
		cM(0, "a", cL(0, one)), cM(1, "a", cL(1, one)), cM(0, "a", cL(0, two)), cM(0, "a", cM(0, "b", one)), cM(1, "a", cM(1, "b", one)),
		cM(0, "a", cF(math.NaN())), cM(0, "a", cC(1)), cM(0, "a", cS("a")))
	add(cC(1), cC(1), cC(2))
	for _, v := range p {
		v.any(func(x *cv) bool {
			if x != v && x.isRandomOrderMap() {
				fatal("C14 pool: nested hash map with more than one key")
			}
			return false
		})
	}
	return p
}

// ---------------------------------------------------------------------------------------------
// the real code

var c14Ops = []string{"=", "!=", "<", ">", "<=", ">=", "~"}
var c14OpNames = []string{"eq", "ne", "lt", "gt", "le", "ge", "ti"}

const (
	opEq = iota
	opNe
	opLt
	opGt
	opLe
	opGe
	opTi
)

type c14Impl struct {
	fg     *value.FunctionGenerator
	opFn   []funcGen.Func[value.Value]
	opImpl []funcGen.OperatorImpl[value.Value]
	fns    map[string]funcGen.Func[value.Value]
}

func newC14Impl() *c14Impl {
	log.SetOutput(io.Discard) // the generated function logs every recovered panic with a stack trace
	im := &c14Impl{fg: value.New(), fns: map[string]funcGen.Func[value.Value]{}}
	for _, op := range c14Ops {
		f, _, err := im.fg.Generate("a "+op+" b", "a", "b")
		if err != nil {
			fatal("C14: cannot generate 'a %s b': %v", op, err)
		}
		im.opFn = append(im.opFn, f)
		impl := im.fg.GetOpImpl(op)
		if impl == nil {
			fatal("C14: operator %s is not registered", op)
		}
		im.opImpl = append(im.opImpl, impl)
	}
	for name, src := range map[string]string{
		"min2": "min(a,b)", "max2": "max(a,b)", "lmin2": "[a,b].min()", "lmax2": "[a,b].max()", "ord2": "[a,b].order(e->e)",
		"sw2":  "switch a case b: 0 default 9",
		"min3": "min(a,b,c)", "max3": "max(a,b,c)", "lmin3": "[a,b,c].min()", "lmax3": "[a,b,c].max()", "ord3": "[a,b,c].order(e->e)",
		"sw3": "switch a case b: 0 case c: 1 default 9",
	} {
		args := []string{"a", "b"}
		if strings.HasSuffix(name, "3") {
			args = append(args, "c")
		}
		f, _, err := im.fg.Generate(src, args...)
		if err != nil {
			fatal("C14: cannot generate %q: %v", src, err)
		}
		im.fns[name] = f
	}
	return im
}

func outBool(v value.Value, err error) byte {
	if err != nil {
		return 'E'
	}
	if b, ok := v.(value.Bool); ok {
		if b {
			return 'T'
		}
		return 'F'
	}
	return '?'
}

func (im *c14Impl) evalOp(op int, a, b *cv) byte {
	return outBool(im.opFn[op].Eval(a.build(), b.build()))
}

// directOp calls the operator implementation without the generated function's recover: T F E, P = Go panic
func (im *c14Impl) directOp(op int, a, b value.Value) (o byte) {
	defer func() {
		if r := recover(); r != nil {
			o = 'P'
		}
	}()
	return outBool(im.opImpl[op].Calc(funcGen.NewEmptyStack[value.Value](), a, b))
}

// canonGo: canonical form of a result value (forces lists; maps sorted by key)
func canonGo(v value.Value) string {
	st := funcGen.NewEmptyStack[value.Value]()
	switch x := v.(type) {
	case nil:
		return "nil"
	case value.Int:
		return "I " + strconv.FormatInt(int64(x), 10)
	case value.Float:
		if math.IsNaN(float64(x)) {
			return "F nan"
		}
		return fmt.Sprintf("F %016x", math.Float64bits(float64(x)))
	case value.String:
		return "S " + cps(string(x))
	case value.Bool:
		if x {
			return "B 1"
		}
		return "B 0"
	case value.Closure:
		return "C " + itoa(x.Args)
	case *value.List:
		sl, err := x.ToSlice(st)
		if err != nil {
			return "L!err"
		}
		s := "L " + itoa(len(sl))
		for _, it := range sl {
			s += " " + canonGo(it)
		}
		return s
	case value.Map:
		var keys []string
		vals := map[string]value.Value{}
		x.Iter(func(k string, v value.Value) bool {
			keys = append(keys, k)
			vals[k] = v
			return true
		})
		sort.Strings(keys)
		s := "M " + itoa(len(keys))
		for _, k := range keys {
			s += " " + cps(k) + " " + canonGo(vals[k])
		}
		return s
	}
	return fmt.Sprintf("?%T", v)
}

func (v *cv) canon() string { return canonGo(v.build()) }

// lit renders the value as a constant expression of the language (false: closures cannot be written down)
func (v *cv) lit() (string, bool) {
	switch v.Kind {
	case 'i':
		if v.I < 0 {
			if v.I == math.MinInt64 {
				return "(0-9223372036854775807-1)", true
			}
			return "(0-" + strconv.FormatInt(-v.I, 10) + ")", true
		}
		return strconv.FormatInt(v.I, 10), true
	case 'f':
		switch {
		case math.IsNaN(v.F):
			return "(0.0/0.0)", true
		case math.IsInf(v.F, 1):
			return "(1.0/0.0)", true
		case math.IsInf(v.F, -1):
			return "((0.0-1.0)/0.0)", true
		}
		t := strconv.FormatFloat(math.Abs(v.F), 'f', -1, 64)
		if !strings.Contains(t, ".") {
			t += ".0"
		}
		if math.Signbit(v.F) {
			return "(0.0-" + t + ")", true
		}
		return t, true
	case 's':
		return "\"" + strings.NewReplacer("\\", "\\\\", "\"", "\\\"", "\n", "\\n", "\t", "\\t", "\r", "\\r").Replace(v.S) + "\"", !strings.ContainsAny(v.S, "\x00")
	case 'b':
		if v.B {
			return "true", true
		}
		return "false", true
	case 'L':
		var parts []string
		for _, it := range v.Items {
			t, ok := it.lit()
			if !ok {
				return "", false
			}
			parts = append(parts, t)
		}
		return "[" + strings.Join(parts, ",") + "]", true
	case 'M':
		var parts []string
		for i, it := range v.Items {
			t, ok := it.lit()
			if !ok || strings.ContainsAny(v.Keys[i], "'\n\x00") {
				return "", false
			}
			parts = append(parts, "'"+v.Keys[i]+"':"+t)
		}
		// duplicate keys are rejected by the literal
		seen := map[string]bool{}
		for _, k := range v.Keys {
			if seen[k] {
				return "", false
			}
			seen[k] = true
		}
		return "{" + strings.Join(parts, ",") + "}", true
	}
	return "", false
}

func indexIn(args []*cv, v value.Value) string {
	c := canonGo(v)
	for i, a := range args {
		if a.canon() == c {
			return itoa(i)
		}
	}
	return "?" + c
}

// evalVal: a built-in whose result is one of the arguments (index), a list of them (i.j.k), or an int
func (im *c14Impl) evalFn(name string, args ...*cv) string {
	vals := make([]value.Value, len(args))
	for i, a := range args {
		vals[i] = a.build()
	}
	v, err := im.fns[name].Eval(vals...)
	if err != nil {
		return "E"
	}
	switch {
	case strings.HasPrefix(name, "ord"):
		l, ok := v.(*value.List)
		if !ok {
			return fmt.Sprintf("?%T", v)
		}
		sl, err := l.ToSlice(funcGen.NewEmptyStack[value.Value]())
		if err != nil {
			return "E"
		}
		var parts []string
		for _, it := range sl {
			parts = append(parts, indexIn(args, it))
		}
		if len(parts) == 0 {
			return "-"
		}
		return strings.Join(parts, ".")
	case strings.HasPrefix(name, "sw"):
		if i, ok := v.(value.Int); ok {
			if i == 9 {
				return "d"
			}
			return itoa(int(i))
		}
		return fmt.Sprintf("?%T", v)
	}
	return indexIn(args, v)
}

// ---------------------------------------------------------------------------------------------
// Tie 1: the operator matrix and the comparator used for nested containers

func c14Representatives() map[byte]*cv {
	return map[byte]*cv{'i': cI(1), 'f': cF(1.5), 's': cS("a"), 'b': cB(true), 'L': cL(0), 'M': cM(0, "a", cI(1)), 'C': cC(1)}
}

func extractCmpMatrix() {
	im := newC14Impl()
	reps := c14Representatives()
	leanOp := []string{".eq", ".ne", ".lt", ".gt", ".le", ".ge", ".tilde"}
	boolS := func(b bool) string {
		if b {
			return "true"
		}
		return "false"
	}
	// the comparator handed to List.Equals is the deep one: [[1]] = [[1]] gives a value
	nested := im.directOp(opEq, cL(0, cL(0, cI(1))).build(), cL(0, cL(0, cI(1))).build())
	nestedM := im.directOp(opEq, cM(0, "a", cM(0, "b", cI(1))).build(), cM(0, "a", cM(0, "b", cI(1))).build())
	if (nested == 'T') != (nestedM == 'T') {
		fatal("extractCmpMatrix: nested lists and nested maps are compared differently (%c, %c); the model has one flag", nested, nestedM)
	}
	var b strings.Builder
	b.WriteString("import P2.Model.Cmp\n/-! GENERATED by `tie extract` from the live operator implementations of `value.New()`\n(value/value.go, value/operations.go). Do not edit. -/\nnamespace P2.Generated\nopen P2.Cmp\n")
	fmt.Fprintf(&b, "/-- probe: `[[1]] = [[1]]` and `{a:{b:1}} = {a:{b:1}}` give a value -/\ndef cmpCfg : Cfg := { nestedDeep := %s }\n", boolS(nested == 'T'))
	b.WriteString("/-- per operator: rows = type of the left operand, columns = type of the right operand, both in the order\nint, float, string, bool, list, map, closure; `true` = the operator returned a value on the representatives\n1, 1.5, \"a\", true, [], {a:1}, a closure -/\ndef cmpMatrix : List (Op × List (List Bool)) := [\n")
	for oi := range c14Ops {
		fmt.Fprintf(&b, "  (%s, [", leanOp[oi])
		for ai, ta := range c14TypeOrder {
			if ai > 0 {
				b.WriteString(", ")
			}
			b.WriteString("[")
			for bi, tb := range c14TypeOrder {
				if bi > 0 {
					b.WriteString(", ")
				}
				o := im.directOp(oi, reps[ta].build(), reps[tb].build())
				b.WriteString(boolS(o == 'T' || o == 'F'))
			}
			b.WriteString("]")
		}
		b.WriteString("])")
		if oi+1 < len(c14Ops) {
			b.WriteString(",")
		}
		b.WriteString("\n")
	}
	b.WriteString("]\nend P2.Generated\n")
	writeIfChanged(genPath("CmpMatrix.lean"), []byte(b.String()))
}

// ---------------------------------------------------------------------------------------------
// the property's reading of "comparable": which type pairs an operator is defined on

func propDefined(op int, a, b byte) bool {
	num := func(k byte) bool { return k == 'i' || k == 'f' }
	ordered := func(x, y byte) bool { return (num(x) && num(y)) || (x == 's' && y == 's') }
	switch op {
	case opEq, opNe:
		return ordered(a, b) || (a == 'b' && b == 'b') || (a == 'L' && b == 'L') || (a == 'M' && b == 'M')
	case opLt, opGt, opLe, opGe:
		return ordered(a, b)
	default:
		return b == 'L' || (a == 's' && b == 'M') || (a == 's' && b == 's')
	}
}

// ---------------------------------------------------------------------------------------------
// the check

type c14Run struct {
	c    *Ctx
	im   *c14Impl
	pool []*cv
	R    [][][]byte // [op][i][j] outcome through Generate+Eval: T F E
	D    [][][]byte // [op][i][j] outcome of the operator implementation itself: T F E P
	memo map[string]byte
}

func (r *c14Run) replay(expr string, vals ...*cv) map[string]any {
	m := map[string]any{"expr": expr}
	for i, v := range vals {
		m[string(rune('a'+i))] = v.tokens(nil)
	}
	return m
}

// implEq: outcome of `x = y` on the implementation for arbitrary (also non-pool) values
func (r *c14Run) implEq(x, y *cv) byte {
	k := x.tokens(nil) + "\t" + y.tokens(nil)
	if o, ok := r.memo[k]; ok && !x.isRandomOrderMap() {
		return o
	}
	o := r.im.evalOp(opEq, x, y)
	r.memo[k] = o
	return o
}

func (r *c14Run) fillTables() {
	n := len(r.pool)
	r.R = make([][][]byte, len(c14Ops))
	r.D = make([][][]byte, len(c14Ops))
	for op := range c14Ops {
		r.R[op] = make([][]byte, n)
		r.D[op] = make([][]byte, n)
		for i := range r.pool {
			r.R[op][i] = make([]byte, n)
			r.D[op][i] = make([]byte, n)
			for j := range r.pool {
				r.R[op][i][j] = r.im.evalOp(op, r.pool[i], r.pool[j])
				r.D[op][i][j] = r.im.directOp(op, r.pool[i].build(), r.pool[j].build())
			}
		}
	}
}

func neg(o byte) byte {
	switch o {
	case 'T':
		return 'F'
	case 'F':
		return 'T'
	}
	return o
}

// seqAny: the outcome of "some element equals x" evaluated left to right on implementation outcomes
func (r *c14Run) seqAny(x *cv, items []*cv) byte {
	for _, it := range items {
		switch o := r.implEq(x, it); o {
		case 'T':
			return 'T'
		case 'F':
		default:
			return o
		}
	}
	return 'F'
}

// pairLaws evaluates the laws of the property on the implementation outcomes of the ordered pair (i, j)
func (r *c14Run) pairLaws(i, j int) string {
	c := r.c
	a, b := r.pool[i], r.pool[j]
	R := r.R
	eq, ne, lt, gt, le, ge, ti := R[opEq][i][j], R[opNe][i][j], R[opLt][i][j], R[opGt][i][j], R[opLe][i][j], R[opGe][i][j], R[opTi][i][j]
	for op := range c14Ops {
		o := R[op][i][j]
		if o != 'T' && o != 'F' && o != 'E' {
			c.Violation("non-boolean-result:"+c14Ops[op], "a comparison operator returned something that is neither a bool nor an error", r.replay("a "+c14Ops[op]+" b", a, b))
		}
		// incomparable operands: an error, never a boolean; comparable scalars: a boolean
		def := propDefined(op, a.Kind, b.Kind)
		if !def && o != 'E' {
			c.Violation("incomparable-not-error:"+c14Ops[op]+":"+c14TypeNames[a.Kind]+","+c14TypeNames[b.Kind], fmt.Sprintf("operator %s applied to incomparable operands returned %c instead of an error", c14Ops[op], o), r.replay("a "+c14Ops[op]+" b", a, b))
		}
		if def && o == 'E' && a.depth() == 0 && b.depth() == 0 {
			c.Violation("comparable-scalars-error:"+c14Ops[op]+":"+c14TypeNames[a.Kind]+","+c14TypeNames[b.Kind], fmt.Sprintf("operator %s fails on comparable scalars", c14Ops[op]), r.replay("a "+c14Ops[op]+" b", a, b))
		}
	}
	// = symmetric as an outcome
	if back := R[opEq][j][i]; eq != back && i < j {
		sig := "eq-not-symmetric"
		if a.hasMap() && b.hasMap() && (eq == 'E' || back == 'E') && (eq == 'F' || back == 'F') {
			sig = "map-eq-mixed-error"
		}
		c.Violation(sig, fmt.Sprintf("a = b is %c but b = a is %c", eq, back), r.replay("a = b", a, b))
	}
	// = reflexive on plain values, across representations of the same value
	if a.plain() && a.abstract() == b.abstract() && eq != 'T' {
		sig := "eq-not-reflexive"
		if a.depth() >= 2 && eq == 'E' {
			sig = "eq-nested-container-error"
		}
		c.Violation(sig, fmt.Sprintf("a = b is %c for two representations of the same NaN-free, closure-free value", eq), r.replay("a = b", a, b))
	}
	// ints and floats by numeric value
	if a.isNum() && b.isNum() {
		want := byte('F')
		if !a.isNaN() && !b.isNaN() && numCmp(a, b) == 0 {
			want = 'T'
		}
		if eq != want {
			c.Violation("eq-not-numeric", fmt.Sprintf("a = b is %c, by numeric value it is %c", eq, want), r.replay("a = b", a, b))
		}
		wantLt := byte('F')
		if !a.isNaN() && !b.isNaN() && numCmp(a, b) < 0 {
			wantLt = 'T'
		}
		if lt != wantLt {
			c.Violation("lt-not-numeric", fmt.Sprintf("a < b is %c, by numeric value it is %c", lt, wantLt), r.replay("a < b", a, b))
		}
	}
	if a.Kind == 's' && b.Kind == 's' {
		want := byte('F')
		if a.S == b.S {
			want = 'T'
		}
		if eq != want {
			c.Violation("eq-strings", fmt.Sprintf("a = b is %c on strings, expected %c", eq, want), r.replay("a = b", a, b))
		}
	}
	// lists element-wise (first element outcome that is not `true` decides)
	if a.Kind == 'L' && b.Kind == 'L' {
		want := byte('T')
		if len(a.Items) != len(b.Items) {
			want = 'F'
		} else {
			for k := range a.Items {
				if o := r.implEq(a.Items[k], b.Items[k]); o != 'T' {
					want = o
					break
				}
			}
		}
		if eq != want {
			sig := "eq-list-not-elementwise"
			if eq == 'E' && want != 'E' && a.depth() >= 2 && b.depth() >= 2 {
				sig = "eq-nested-container-error"
			}
			c.Violation(sig, fmt.Sprintf("a = b is %c, element-wise it is %c", eq, want), r.replay("a = b", a, b))
		}
	}
	// maps key-wise: true iff same key set and all values equal; otherwise false and/or error must occur among the keys
	if a.Kind == 'M' && b.Kind == 'M' {
		allowed := map[byte]bool{}
		if len(a.Keys) != len(b.Keys) {
			allowed['F'] = true
		} else {
			all := true
			for k, key := range a.Keys {
				found := -1
				for k2, key2 := range b.Keys {
					if key2 == key {
						found = k2
					}
				}
				if found < 0 {
					allowed['F'] = true
					all = false
					continue
				}
				o1, o2 := r.implEq(a.Items[k], b.Items[found]), r.implEq(b.Items[found], a.Items[k])
				for _, o := range []byte{o1, o2} {
					if o != 'T' {
						allowed[o] = true
						all = false
					}
				}
			}
			if all {
				allowed['T'] = true
			}
		}
		if !allowed[eq] {
			sig := "eq-map-not-keywise"
			if eq == 'E' && a.depth() >= 2 && b.depth() >= 2 {
				sig = "eq-nested-container-error"
			}
			c.Violation(sig, fmt.Sprintf("a = b is %c, key-wise only %v can occur", eq, keysOf(allowed)), r.replay("a = b", a, b))
		}
	}
	// < irreflexive, asymmetric
	if i == j && lt == 'T' {
		c.Violation("lt-reflexive", "a < a is true", r.replay("a < b", a, b))
	}
	if lt == 'T' && R[opLt][j][i] != 'F' {
		c.Violation("lt-not-asymmetric", fmt.Sprintf("a < b is true and b < a is %c", R[opLt][j][i]), r.replay("a < b", a, b))
	}
	// derived forms
	if ne != neg(eq) {
		c.Violation("ne-is-not-negation", fmt.Sprintf("a = b is %c but a != b is %c", eq, ne), r.replay("a != b", a, b))
	}
	if gt != R[opLt][j][i] {
		c.Violation("gt-is-not-flipped-lt", fmt.Sprintf("a > b is %c but b < a is %c", gt, R[opLt][j][i]), r.replay("a > b", a, b))
	}
	wantLe := lt
	if lt == 'F' {
		wantLe = eq
	}
	if le != wantLe {
		c.Violation("le-is-not-lt-or-eq", fmt.Sprintf("a <= b is %c, a < b is %c, a = b is %c", le, lt, eq), r.replay("a <= b", a, b))
	}
	if ge != R[opLe][j][i] {
		c.Violation("ge-is-not-flipped-le", fmt.Sprintf("a >= b is %c but b <= a is %c", ge, R[opLe][j][i]), r.replay("a >= b", a, b))
	}
	// ~ : some element equals x / key present / substring
	switch {
	case b.Kind == 'L':
		want := r.seqAny(a, b.Items)
		if ti != want {
			sig := "tilde-not-exists"
			if a.Kind == 'L' {
				sig = "tilde-lhs-is-list"
			}
			c.Violation(sig, fmt.Sprintf("a ~ b is %c, 'some element of b equals a' is %c", ti, want), r.replay("a ~ b", a, b))
		}
	case a.Kind == 's' && b.Kind == 'M':
		want := byte('F')
		for _, k := range b.Keys {
			if k == a.S {
				want = 'T'
			}
		}
		if ti != want {
			c.Violation("tilde-map-key", fmt.Sprintf("a ~ b is %c, key present: %c", ti, want), r.replay("a ~ b", a, b))
		}
	case a.Kind == 's' && b.Kind == 's':
		want := byte('F')
		if runesContain([]rune(b.S), []rune(a.S)) {
			want = 'T'
		}
		if ti != want {
			c.Violation("tilde-substring", fmt.Sprintf("a ~ b is %c, substring: %c", ti, want), r.replay("a ~ b", a, b))
		}
	}
	// min / max / order / switch agree with the operators
	pick := func(o byte, ifTrue, ifFalse string) string {
		switch o {
		case 'T':
			return ifTrue
		case 'F':
			return ifFalse
		}
		return "E"
	}
	args := []*cv{a, b}
	got := map[string]string{}
	for _, fn := range []string{"min2", "max2", "lmin2", "lmax2", "sw2"} {
		got[fn] = r.im.evalFn(fn, args...)
	}
	for _, fn := range []string{"min2", "max2", "lmin2", "lmax2"} {
		r.checkExtreme(fn, got[fn], []int{i, j}, strings.Contains(fn, "max"))
	}
	if want := pick(eq, "0", "d"); got["sw2"] != want {
		c.Violation("builtin-disagrees:sw2", fmt.Sprintf("switch selects %s, the = operator says %s", got["sw2"], want), r.replay("sw2", a, b))
	}
	ord := r.im.evalFn("ord2", args...)
	r.checkOrder("ord2", ord, []int{i, j})
	return fmt.Sprintf(" min=%s max=%s lmin=%s lmax=%s ord=%s sw=%s", got["min2"], got["max2"], got["lmin2"], got["lmax2"], ord, got["sw2"])
}

func keysOf(m map[byte]bool) string {
	var s []string
	for k := range m {
		s = append(s, string(k))
	}
	sort.Strings(s)
	return strings.Join(s, "")
}

func runesContain(h, n []rune) bool {
	for i := 0; i+len(n) <= len(h); i++ {
		ok := true
		for k := range n {
			if h[i+k] != n[k] {
				ok = false
				break
			}
		}
		if ok {
			return true
		}
	}
	return false
}

// checkOrder: the result of order is an error iff some pair is incomparable, otherwise a permutation of the
// arguments in which no later element is less than an earlier one (by the implementation's own `<`)
func (r *c14Run) checkOrder(fn, got string, idx []int) {
	c := r.c
	vals := make([]*cv, len(idx))
	for k, i := range idx {
		vals[k] = r.pool[i]
	}
	incomparable := false
	for _, x := range idx {
		for _, y := range idx {
			if r.R[opLt][x][y] == 'E' {
				incomparable = true
			}
		}
	}
	if incomparable != (got == "E") {
		c.Violation("order-error-mismatch", fmt.Sprintf("%s gives %s, incomparable pair among the elements: %v", fn, got, incomparable), r.replay(fn, vals...))
		return
	}
	if got == "E" {
		return
	}
	parts := strings.Split(got, ".")
	if len(parts) != len(idx) {
		c.Violation("order-not-permutation", fmt.Sprintf("%s gives %s", fn, got), r.replay(fn, vals...))
		return
	}
	// multiset of canonical forms
	want := map[string]int{}
	for _, v := range vals {
		want[v.canon()]++
	}
	var res []int
	for _, p := range parts {
		k, err := strconv.Atoi(p)
		if err != nil || k < 0 || k >= len(idx) {
			c.Violation("order-not-permutation", fmt.Sprintf("%s gives %s", fn, got), r.replay(fn, vals...))
			return
		}
		want[vals[k].canon()]--
		res = append(res, idx[k])
	}
	for _, n := range want {
		if n != 0 {
			c.Violation("order-not-permutation", fmt.Sprintf("%s gives %s", fn, got), r.replay(fn, vals...))
			return
		}
	}
	// with a NaN among the elements `<` is not a strict weak order: only neighbours are required to be in order
	hasNaN := false
	for _, v := range vals {
		hasNaN = hasNaN || v.isNaN()
	}
	for x := 0; x < len(res); x++ {
		for y := x + 1; y < len(res); y++ {
			if hasNaN && y != x+1 {
				continue
			}
			if r.R[opLt][res[y]][res[x]] == 'T' {
				c.Violation("order-not-sorted", fmt.Sprintf("%s gives %s but element %d is less than element %d", fn, got, y, x), r.replay(fn, vals...))
				return
			}
		}
	}
}

// checkExtreme: min / max fail exactly when some pair of arguments is incomparable; otherwise the result is one
// of the arguments and no argument is less than the minimum / the maximum is less than no argument (by the
// implementation's own `<`).  Which of several equal arguments is returned is left to the model comparison.
func (r *c14Run) checkExtreme(fn, got string, idx []int, max bool) {
	c := r.c
	vals := make([]*cv, len(idx))
	for k, i := range idx {
		vals[k] = r.pool[i]
	}
	incomparable := false
	for _, x := range idx {
		for _, y := range idx {
			if r.R[opLt][x][y] == 'E' {
				incomparable = true
			}
		}
	}
	if incomparable != (got == "E") {
		c.Violation("builtin-disagrees:"+fn, fmt.Sprintf("%s gives %s, incomparable pair among the arguments: %v", fn, got, incomparable), r.replay(fn, vals...))
		return
	}
	if got == "E" {
		return
	}
	m, err := strconv.Atoi(got)
	if err != nil || m < 0 || m >= len(idx) {
		c.Violation("builtin-disagrees:"+fn, fmt.Sprintf("%s gives %s which is none of the arguments", fn, got), r.replay(fn, vals...))
		return
	}
	for _, x := range idx {
		if (!max && r.R[opLt][x][idx[m]] == 'T') || (max && r.R[opLt][idx[m]][x] == 'T') {
			c.Violation("builtin-disagrees:"+fn, fmt.Sprintf("%s gives argument %d but another argument is beyond it", fn, m), r.replay(fn, vals...))
			return
		}
	}
}

// tripleLaws: laws on the triple evaluated on the implementation; returns the outcome line compared with the model
func (r *c14Run) tripleLaws(i, j, k int) string {
	c := r.c
	a, b, cc := r.pool[i], r.pool[j], r.pool[k]
	idx := []int{i, j, k}
	args := []*cv{a, b, cc}
	out := map[string]string{}
	for _, fn := range []string{"min3", "max3", "lmin3", "lmax3", "ord3", "sw3"} {
		out[fn] = r.im.evalFn(fn, args...)
	}
	for _, fn := range []string{"min3", "max3", "lmin3", "lmax3"} {
		r.checkExtreme(fn, out[fn], idx, strings.Contains(fn, "max"))
	}
	r.checkOrder("ord3", out["ord3"], idx)
	wantSw := "d"
	switch o := r.R[opEq][i][j]; o {
	case 'T':
		wantSw = "0"
	case 'F':
		switch o2 := r.R[opEq][i][k]; o2 {
		case 'T':
			wantSw = "1"
		case 'F':
		default:
			wantSw = "E"
		}
	default:
		wantSw = "E"
	}
	if out["sw3"] != wantSw {
		c.Violation("builtin-disagrees:sw3", fmt.Sprintf("switch selects %s, the = operator says %s", out["sw3"], wantSw), r.replay("sw3", args...))
	}
	// a ~ [b, c] (materialised and lazy) iff a = b or a = c, evaluated in that order
	wantTi := r.seqAny(a, []*cv{b, cc})
	ti := r.im.evalOp(opTi, a, cL(0, b, cc))
	til := r.im.evalOp(opTi, a, cL(1, b, cc))
	for _, t := range []struct {
		name string
		got  byte
	}{{"a ~ [b,c]", ti}, {"a ~ lazy [b,c]", til}} {
		if t.got != wantTi {
			sig := "tilde-not-exists"
			if a.Kind == 'L' {
				sig = "tilde-lhs-is-list"
			}
			c.Violation(sig, fmt.Sprintf("%s is %c, 'a = b or a = c' is %c", t.name, t.got, wantTi), r.replay(t.name, args...))
		}
	}
	tia := r.im.evalOp(opTi, cL(0, a, b), cL(0, cc, b, a))
	return fmt.Sprintf("min=%s max=%s lmin=%s lmax=%s ord=%s sw=%s ti=%c til=%c tia=%c", out["min3"], out["max3"], out["lmin3"], out["lmax3"], out["ord3"], out["sw3"], ti, til, tia)
}

func permutations(n int) [][]int {
	if n == 0 {
		return [][]int{{}}
	}
	var res [][]int
	for _, p := range permutations(n - 1) {
		for pos := 0; pos <= len(p); pos++ {
			q := append(append(append([]int{}, p[:pos]...), n-1), p[pos:]...)
			res = append(res, q)
		}
	}
	return res
}

// tokenAlts: the request renderings of a value; a hash map can iterate in any order
func tokenAlts(v *cv) []string {
	if v.isRandomOrderMap() {
		var res []string
		for _, p := range permutations(len(v.Keys)) {
			res = append(res, v.tokens(p))
		}
		return res
	}
	return []string{v.tokens(nil)}
}

func runC14(c *Ctx) {
	c.rule = "pool of values (ints |x|<2^53, floats incl. ±0, ±inf, neighbours of integers, NaN as its own class, strings incl. empty/Unicode/prefixes, bools, nested lists lazy and materialised, maps as literal/put chain/merge/hash map/evaluated/put-on-merge/replaced, closures): ALL ordered pairs x {=, !=, <, >, <=, >=, ~} + min/max/list.min/list.max/order/switch evaluated by value.New() through Generate+Eval and directly through the operator implementation; the laws of the property evaluated on the implementation outcomes (transitivity of < on all triples of the pair table); every pair outcome and the sampled/all triples compared with the Lean model; a pair is non-trivial if at least one operator returns a boolean, a triple if at least two of its three pairs are comparable by = or <"
	c.assume = append(c.assume,
		"FloatOrder: IEEE-754 binary64 == is symmetric and reflexive except on NaN, < is irreflexive, asymmetric, transitive and (away from NaN) negatively transitive, float64(int) is never NaN and is exact and strictly monotone for |x| < 2^53 (hypothesis record of the theorems; sampled here on boundary values through the real operators)",
		"Go's sort.Sort sorts with respect to Less (for at most 12 elements it is the insertion sort the model uses)",
		"Go compares strings bytewise; on valid UTF-8 this is the code point order of the model",
		"a Go panic on the calling goroutine is recovered by the generated function and surfaces as an error (observed here: Eval outcome vs. direct operator call)")
	im := newC14Impl()
	r := &c14Run{c: c, im: im, pool: c14Pool(), memo: map[string]byte{}}

	// corpus first: past failures / pinned witnesses (they are pool members as well); a replay file replaces the pool
	corpus := [][]*cv{
		{cL(0, cI(1)), cL(0, cL(0, cI(1)))},                              // [1] ~ [[1]]
		{cM(0, "x", cI(1), "y", cS("s")), cM(0, "y", cI(2), "x", cI(5))}, // map = : false one way, error the other
		{cI(1), cS("a")}, // 1 != "a" and switch 1 case "a": Go panic
		{cL(0, cL(0, cI(1))), cL(1, cL(1, cI(1)))},                     // nested lists
		{cM(0, "a", cM(0, "b", cI(1))), cM(1, "a", cM(1, "b", cI(1)))}, // nested maps
		{cL(0, cI(1), cI(2)), cL(1, cS("a"))},                          // containsAllItems looks at itemsPresent
	}
	if p := os.Getenv("VERIF_REPLAY"); p != "" {
		data, err := os.ReadFile(p)
		if err != nil {
			fatal("replay file: %v", err)
		}
		var rep map[string]any
		if err := json.Unmarshal(data, &rep); err != nil {
			fatal("replay file: %v", err)
		}
		var vals []*cv
		for _, k := range []string{"a", "b", "c"} {
			if s, ok := rep[k].(string); ok {
				v, err := parseCVString(s)
				if err != nil {
					fatal("replay file: value %s: %v", k, err)
				}
				vals = append(vals, v)
			}
		}
		if len(vals) == 0 {
			fatal("replay file has no values a, b, c")
		}
		r.pool = vals
		corpus = nil
	}
	for _, cs := range corpus {
		for _, v := range cs {
			found := false
			for _, pv := range r.pool {
				if pv.tokens(nil) == v.tokens(nil) && pv.Rep == v.Rep {
					found = true
				}
			}
			if !found {
				r.pool = append(r.pool, v)
			}
		}
	}
	n := len(r.pool)
	c.extra["pool_size"] = n
	c.extra["exhaustive"] = true
	c.extra["exhaustive_over"] = fmt.Sprintf("all %d ordered pairs of the pool x 7 operators x {Eval, direct} + 6 built-ins per pair; transitivity of < on all %d triples of the pair table", n*n, n*n*n)
	for _, v := range r.pool {
		c.Count("pool:" + c14TypeNames[v.Kind])
	}

	// ---- all ordered pairs x all operators on the real code
	r.fillTables()
	// ---- the same operators on CONSTANT operands (the optimizer folds them while the function is generated, and has rules
	// of its own for a constant switch): the folded outcome is the outcome on arguments
	{
		fgC := newValueFG(true)
		outcomeOf := func(src string) byte {
			defer func() { recover() }()
			f, _, err := fgC.Generate(src)
			if err != nil {
				return 'E'
			}
			return outBool(f.Eval())
		}
		stride := c.Pick(5, 1)
		for i := 0; i < n; i++ {
			la, oka := r.pool[i].lit()
			if !oka || r.pool[i].isRandomOrderMap() {
				continue
			}
			for j := 0; j < n; j++ {
				if (i*31+j)%stride != 0 || r.pool[j].isRandomOrderMap() {
					continue
				}
				lb, okb := r.pool[j].lit()
				if !okb {
					continue
				}
				c.Count("constant-operands-pair")
				for op := range c14Ops {
					if r.R[op][i][j] == '?' {
						continue
					}
					crumb("constant " + la + " " + c14Ops[op] + " " + lb)
					if got := outcomeOf(la + " " + c14Ops[op] + " " + lb); got != r.R[op][i][j] {
						flipEF := (got == 'E' && r.R[op][i][j] == 'F') || (got == 'F' && r.R[op][i][j] == 'E')
						if op == opNe { // != negates =
							flipEF = (got == 'E' && r.R[op][i][j] == 'T') || (got == 'T' && r.R[op][i][j] == 'E')
						}
						if flipEF && op == 6 && r.pool[i].Kind == 'L' {
							c.Count("tilde-list-lhs:error-vs-false-by-materialisation") // see the same-operands pass
							continue
						}
						if flipEF && (r.pool[i].hasMap() || r.pool[j].hasMap()) {
							// the listed finding: Map.Equals leaves at the first difference it meets in ITS iteration order, so a
							// differing entry and an incomparable one give false or an error depending on the representation
							c.Violation("map-eq-mixed-error", fmt.Sprintf("a %s b on constant operands is %c, on arguments %c", c14Ops[op], got, r.R[op][i][j]), r.replay(la+" "+c14Ops[op]+" "+lb, r.pool[i], r.pool[j]))
							continue
						}
						c.Violation("constant-operands-differ", fmt.Sprintf("a %s b on constant operands is %c, on arguments %c", c14Ops[op], got, r.R[op][i][j]),
							r.replay(la+" "+c14Ops[op]+" "+lb, r.pool[i], r.pool[j]))
					}
				}
				// switch: selects the case exactly if = says true, fails exactly if = fails
				want := map[byte]byte{'T': 'T', 'F': 'F', 'E': 'E'}[r.R[opEq][i][j]]
				for _, form := range []string{"switch " + la + " case " + lb + " : true default false", "let c0 = " + la + "; switch c0 case " + lb + " : true default false",
					"let c0 = " + la + "; let c1 = " + lb + "; switch c0 case c1 : true default false"} {
					if got := outcomeOf(form); want != 0 && got != want {
						if ((got == 'E' && want == 'F') || (got == 'F' && want == 'E')) && (r.pool[i].hasMap() || r.pool[j].hasMap()) {
							c.Violation("map-eq-mixed-error", fmt.Sprintf("a constant switch selects %c, a = b on arguments is %c", got, r.R[opEq][i][j]), r.replay(form, r.pool[i], r.pool[j]))
							continue
						}
						c.Violation("constant-switch-differs", fmt.Sprintf("a constant switch selects %c, a = b is %c", got, r.R[opEq][i][j]), r.replay(form, r.pool[i], r.pool[j]))
					}
				}
			}
		}
	}
	// ---- maps built by the library (bins of a binning incl. the two open-ended ones, a function-backed map with a declared
	// but unavailable key, a struct wrapper): = against literal maps with the same entries, one entry more (also the keys
	// such a map hides) and one entry less is symmetric, and true exactly for the same entries
	{
		fgL := newValueFG(true)
		evalV := func(src string) value.Value {
			f, _, err := fgL.Generate(src)
			if err != nil {
				fatal("C14 library maps: %v", err)
			}
			v, err := f.Eval()
			if err != nil {
				fatal("C14 library maps: %v", err)
			}
			return v
		}
		var libMaps []value.Map
		var libNames []string
		if l, ok := evalV("[0.5, 1.5, 2.5].binning(1, 1, 1, x -> x, x -> 1).descr").(*value.List); ok {
			for it, err := range l.Iterate(funcGen.NewEmptyStack[value.Value]()) {
				if m, isMap := it.(value.Map); err == nil && isMap {
					libMaps = append(libMaps, m)
					libNames = append(libNames, fmt.Sprintf("bin %d of [0.5,1.5,2.5].binning(1,1,1,…).descr", len(libMaps)-1))
				}
			}
		}
		facL := value.NewFuncMapFactory[value.Int](func(k value.Int, key string) (value.Value, bool) {
			switch key {
			case "zeta":
				return k, true
			case "alpha":
				return k + 1, true
			}
			return nil, false
		}, "zeta", "alpha") // every declared key is available (the contract of a function-backed map, see C13)
		libMaps = append(libMaps, facL.Create(1), buildMap([]string{"x", "y"}, []value.Value{value.Int(1), value.Int(2)}, 7))
		libNames = append(libNames, "function-backed map", "struct wrapper")
		eqv := func(a, b value.Value) byte { return outBool(r.im.opFn[opEq].Eval(a, b)) }
		for mi, lm := range libMaps {
			var ks []string
			var vs []value.Value
			lm.Iter(func(k string, v value.Value) bool { ks = append(ks, k); vs = append(vs, v); return true })
			type cand struct {
				name string
				m    value.Map
				same bool
			}
			cands := []cand{{"the same entries", buildMap(ks, vs, 0), true}, {"the same entries (hash map)", buildMap(ks, vs, 3), true}}
			for _, extra := range []string{"min", "max", "ghost", "zz"} {
				has := false
				for _, k := range ks {
					has = has || k == extra
				}
				if !has {
					for _, ev := range []value.Value{value.Float(0), value.Int(0), value.Int(2)} {
						cands = append(cands, cand{"one entry more: " + extra, buildMap(append(append([]string{}, ks...), extra), append(append([]value.Value{}, vs...), ev), 0), false})
					}
				}
			}
			if len(ks) > 0 {
				cands = append(cands, cand{"one entry less", buildMap(ks[1:], vs[1:], 0), false})
			}
			// the same size, one key replaced by a key the map does not show
			for ki := range ks {
				for _, hidden := range []string{"min", "max", "ghost", "zz"} {
					has := false
					for _, k := range ks {
						has = has || k == hidden
					}
					if has {
						continue
					}
					for _, hv := range []value.Value{value.Float(0), value.Int(0), vs[ki]} {
						k2 := append([]string{}, ks...)
						v2 := append([]value.Value{}, vs...)
						k2[ki], v2[ki] = hidden, hv
						cands = append(cands, cand{"key " + ks[ki] + " replaced by " + hidden, buildMap(k2, v2, 0), false})
					}
				}
			}
			for _, cd := range cands {
				ab, ba := eqv(lm, cd.m), eqv(cd.m, lm)
				c.Case(fmt.Sprintf("library-map|%d|%s", mi, cd.name), true)
				c.Count("library-map-equality")
				want := byte('F')
				if cd.same {
					want = 'T'
				}
				if ab != ba || ab != want {
					c.Violation("eq-library-built-map", fmt.Sprintf("%s against a literal map with %s: a = b is %c, b = a is %c, key-wise %c", libNames[mi], cd.name, ab, ba, want),
						map[string]any{"library_map": libNames[mi], "entries": strings.Join(ks, ","), "candidate": cd.name})
				}
			}
		}
	}
	// ---- lists built by the library (stages whose size hint is computed from their arguments, results of append, +, reverse …),
	// compared BEFORE they have been evaluated: = against the literal list of their items is true in both directions, against
	// a longer / shorter / different literal false, != is the negation, and the answer is the same after the list was evaluated
	{
		fgL := newValueFG(true)
		gen := func(src string) funcGen.Func[value.Value] {
			f, _, err := fgL.Generate(src, "a")
			if err != nil {
				fatal("C14 library lists: %q: %v", src, err)
			}
			return f
		}
		eqv := func(op int, a, b value.Value) byte { return outBool(r.im.opFn[op].Eval(a, b)) }
		st := funcGen.NewEmptyStack[value.Value]()
		libSrcs := []string{"[1, 2, 3].top(5)", "[1, 2, 3].top(3)", "[1, 2, 3].top(2)", "[1, 2, 3].top(0)", "[1, 2, 3].skip(1)", "[1, 2, 3].skip(5)", "[1, 2, 3].top(5).map(e -> e)", "[1, 2, 3].top(5).number((i, e) -> e)",
			"[1, 2, 3].map(e -> e + a)", "[1, 2, 3].accept(e -> e > a)", "numbers(3)", "numbers(0)", "[1, 2].append(3)", "[1, 2] + [3]", "[1, 2].top(9) + [3].top(9)", "[3, 2, 1].reverse()", "[1, 2, 3].iir(e -> e, (e, p) -> e)",
			"[1, 2, 3].combine((p, q) -> q)", "[1, 2, 3, 4].combineN(2, w -> w[0]).top(9)", "[[1, 2, 3].top(5), [4].top(2)]", "[1, 1, 2].compact((p, q) -> p = q)", "[1, 2].cross([3], (p, q) -> p)", "[2, 1].order(e -> e).top(7)",
			"[1, 2, 3].skip(1).top(9).skip(0)", "[1, 2, 3].merge([].top(4), (p, q) -> p < q)"}
		// binary constructions over operands of every size-knowledge class (literal, evaluated, lazy with a known size, lazy with an
		// unknown size, empty): what a list claims about its size before it is evaluated must not decide equality (round-5 seed
		// C14-13: `+` added the "unknown" sentinel -1 like a size, `=` compared the claimed sizes first)
		operandCls := []string{"[1, 2, 3]", "[]", "[4]", "[1, 2, 3].eval()", "numbers(3)", "[1, 2, 3].map(e -> e + a)", "[1, 2, 3].accept(e -> e > a)", "[1, 2, 3].accept(e -> e > 1)",
			"[5, 1, 2].skip(1)", "[1, 2, 3].top(2)", "[1, 1, 2].compact((p, q) -> p = q)", "[1, 2].append(3)", "[].accept(e -> true)"}
		for _, oa := range operandCls {
			for _, ob := range operandCls {
				libSrcs = append(libSrcs, "("+oa+") + ("+ob+")")
				if strings.Contains(oa, ".") && strings.Contains(ob, ".") {
					libSrcs = append(libSrcs, "("+oa+").merge("+ob+", (p, q) -> p < q)", "("+oa+").cross("+ob+", (p, q) -> p * 10 + q)", "(("+oa+") + ("+ob+")).map(e -> e)", "[("+oa+") + ("+ob+"), "+ob+"]")
				}
			}
		}
		for _, src := range libSrcs {
			f := gen(src)
			fresh := func() value.Value {
				v, err := f.Eval(value.Int(0))
				if err != nil {
					fatal("C14 library lists: %q: %v", src, err)
				}
				return v
			}
			var items []value.Value
			if l, ok := fresh().ToList(); ok {
				for it, err := range l.Iterate(st) {
					if err != nil {
						fatal("C14 library lists: %q: %v", src, err)
					}
					items = append(items, it)
				}
			}
			same := value.NewList(items...)
			longer := value.NewList(append(append([]value.Value{}, items...), value.Int(99))...)
			var shorter *value.List
			if len(items) > 0 {
				shorter = value.NewList(items[:len(items)-1]...)
			}
			c.Case("library-list|"+src, true)
			c.Count("library-list-equality")
			check := func(what string, other value.Value, want byte) {
				neg := map[byte]byte{'T': 'F', 'F': 'T'}[want]
				ab, ba, nab := eqv(opEq, fresh(), other), eqv(opEq, other, fresh()), eqv(opNe, fresh(), other)
				v := fresh()
				first := eqv(opEq, v, other)
				canonGo(v) // evaluates
				after := eqv(opEq, v, other)
				if ab != want || ba != want || nab != neg || first != after {
					c.Violation("eq-library-built-list", fmt.Sprintf("%s against %s: a = b is %c, b = a is %c, a != b is %c, before / after evaluation %c / %c, want %c", src, what, ab, ba, nab, first, after, want),
						map[string]any{"program": src, "other": what})
				}
			}
			check("the literal list of its items", same, 'T')
			check("a literal list one item longer", longer, 'F')
			if shorter != nil {
				check("a literal list one item shorter", shorter, 'F')
			}
			check("another unevaluated instance of itself", fresh(), 'T')
		}
	}
	// ---- the operators are observers: evaluated repeatedly on the SAME operand values (built once) they give the
	// outcomes they give on fresh operands, and leave both operands as they were
	for i := 0; i < n; i++ {
		for j := 0; j < n; j++ {
			a, b := r.pool[i], r.pool[j]
			if !(a.Kind == 'L' || a.Kind == 'M' || b.Kind == 'L' || b.Kind == 'M') || a.isRandomOrderMap() || b.isRandomOrderMap() {
				continue
			}
			va, vb := a.build(), b.build()
			c.Count("same-operands-pass")
			for round := 0; round < 2; round++ {
				for _, op := range []int{6, 0, 1, 2, 3, 4, 5} { // ~ first
					crumb("operator " + c14Ops[op] + " on " + a.tokens(nil) + " | " + b.tokens(nil))
					o := outBool(r.im.opFn[op].Eval(va, vb))
					if op == 6 && a.Kind == 'L' && ((o == 'E' && r.R[op][i][j] == 'F') || (o == 'F' && r.R[op][i][j] == 'E')) {
						// list ~ list ("all items contained", see the open finding C14-tilde-lhs-is-list) answers false
						// from the sizes alone once the right list is materialised and otherwise meets the
						// incomparable pair first: error vs false, never true vs false
						c.Count("tilde-list-lhs:error-vs-false-by-materialisation")
						continue
					}
					if o != r.R[op][i][j] {
						c.Violation("operator-changes-its-operands", fmt.Sprintf("a %s b on operands that were compared before is %c, on fresh operands %c", c14Ops[op], o, r.R[op][i][j]),
							r.replay("a "+c14Ops[op]+" b (evaluated after a ~ b, a = b, … on the same values)", a, b))
						round = 2
						break
					}
				}
			}
			if ca, cb := canonGo(va), canonGo(vb); ca != canonGo(a.build()) || cb != canonGo(b.build()) {
				c.Violation("operator-changes-its-operands", "an operand is not the value it was before it was compared", r.replay("a ~ b; a = b; a < b …", a, b))
			}
		}
	}
	builtins := make([]string, n*n)
	predFailed := make([]bool, n*n) // the property predicate already failed on this pair
	for i := 0; i < n; i++ {
		for j := 0; j < n; j++ {
			a, b := r.pool[i], r.pool[j]
			nontriv := false
			for op := range c14Ops {
				o := r.R[op][i][j]
				c.Count(fmt.Sprintf("%s:%c", c14OpNames[op], o))
				if r.D[op][i][j] == 'P' {
					c.Count(c14OpNames[op] + ":panic-recovered")
				}
				if o == 'T' || o == 'F' {
					nontriv = true
				}
				// the generated function turns a panic of the operator into an error and changes nothing else
				if want := r.D[op][i][j]; (want == 'P' && o != 'E') || (want != 'P' && o != want) {
					c.Broken("corr:EVAL", "outcome through Generate+Eval differs from the operator implementation's outcome", map[string]any{"a": a.tokens(nil), "b": b.tokens(nil), "op": c14Ops[op], "eval": string(o), "direct": string(want)})
				}
			}
			c.Case("P\t"+a.tokens(nil)+"\t"+b.tokens(nil)+"\t"+itoa(a.Rep)+itoa(b.Rep), nontriv)
			c.Count("pair:" + c14TypeNames[a.Kind] + "," + c14TypeNames[b.Kind])
			nv := len(c.violations)
			builtins[i*n+j] = r.pairLaws(i, j)
			predFailed[i*n+j] = len(c.violations) > nv
		}
	}
	// < transitive: all triples of the pair table
	lt := r.R[opLt]
	for i := 0; i < n; i++ {
		for j := 0; j < n; j++ {
			if lt[i][j] != 'T' {
				continue
			}
			for k := 0; k < n; k++ {
				if lt[j][k] == 'T' {
					c.Count("lt-chain")
					if lt[i][k] != 'T' {
						c.Violation("lt-not-transitive", fmt.Sprintf("a < b and b < c but a < c is %c", lt[i][k]), r.replay("a < b < c", r.pool[i], r.pool[j], r.pool[k]))
					}
				}
			}
		}
	}

	// ---- model: every pair
	type pend struct {
		kind  string
		idx   []int
		impl  string
		first int
		nAlt  int
		// the property predicate already failed on this case
		predFail bool
	}
	var reqs []string
	var pends []pend
	for i := 0; i < n; i++ {
		for j := 0; j < n; j++ {
			a, b := r.pool[i], r.pool[j]
			var ops []string
			for op := range c14Ops {
				ops = append(ops, fmt.Sprintf("%s=%c", c14OpNames[op], r.R[op][i][j]))
			}
			impl := strings.Join(ops, " ") + builtins[i*n+j]
			p := pend{kind: "P", idx: []int{i, j}, impl: impl, first: len(reqs), predFail: predFailed[i*n+j]}
			for _, ta := range tokenAlts(a) {
				for _, tb := range tokenAlts(b) {
					reqs = append(reqs, "CMP\tP\t"+ta+"\t"+tb)
					p.nAlt++
				}
			}
			pends = append(pends, p)
		}
	}
	// ---- triples: sampled (quick) or all (thorough)
	nTriples := c.Pick(150000, n*n*n)
	exhaustive3 := nTriples >= n*n*n
	c.extra["triples_exhaustive"] = exhaustive3
	doTriple := func(i, j, k int) {
		a, b, cc := r.pool[i], r.pool[j], r.pool[k]
		comparable := 0
		for _, pr := range [][2]int{{i, j}, {j, k}, {i, k}} {
			if o := r.R[opEq][pr[0]][pr[1]]; o == 'T' || o == 'F' {
				comparable++
			} else if o := r.R[opLt][pr[0]][pr[1]]; o == 'T' || o == 'F' {
				comparable++
			}
		}
		c.Case("T\t"+a.tokens(nil)+"\t"+b.tokens(nil)+"\t"+cc.tokens(nil)+"\t"+itoa(a.Rep)+itoa(b.Rep)+itoa(cc.Rep), comparable >= 2)
		c.Count(fmt.Sprintf("triple:comparable-pairs=%d", comparable))
		nv := len(c.violations)
		impl := r.tripleLaws(i, j, k)
		p := pend{kind: "T", idx: []int{i, j, k}, impl: impl, first: len(reqs), predFail: len(c.violations) > nv || predFailed[i*n+j] || predFailed[i*n+k] || predFailed[j*n+k]}
		for _, ta := range tokenAlts(a) {
			for _, tb := range tokenAlts(b) {
				for _, tc := range tokenAlts(cc) {
					reqs = append(reqs, "CMP\tT\t"+ta+"\t"+tb+"\t"+tc)
					p.nAlt++
				}
			}
		}
		pends = append(pends, p)
	}
	if exhaustive3 {
		for i := 0; i < n; i++ {
			for j := 0; j < n; j++ {
				for k := 0; k < n; k++ {
					doTriple(i, j, k)
				}
			}
		}
	} else {
		// half uniform, half from the comparable classes (numbers with numbers, strings with strings, lists, maps)
		classes := map[byte][]int{}
		for i, v := range r.pool {
			k := v.Kind
			if k == 'f' {
				k = 'i'
			}
			classes[k] = append(classes[k], i)
		}
		kinds := []byte{'i', 's', 'L', 'M'}
		for t := 0; t < nTriples; t++ {
			if t%2 == 0 {
				doTriple(c.rng.Intn(n), c.rng.Intn(n), c.rng.Intn(n))
			} else {
				cl := classes[kinds[c.rng.Intn(len(kinds))]]
				if c.rng.Intn(4) == 0 { // one stranger
					doTriple(cl[c.rng.Intn(len(cl))], cl[c.rng.Intn(len(cl))], c.rng.Intn(n))
				} else {
					doTriple(cl[c.rng.Intn(len(cl))], cl[c.rng.Intn(len(cl))], cl[c.rng.Intn(len(cl))])
				}
			}
		}
	}

	resp := c.Model(reqs)
	for _, p := range pends {
		ok := false
		var models []string
		for k := 0; k < p.nAlt; k++ {
			m := resp[p.first+k]
			models = append(models, m)
			cmp := m
			if cmp == p.impl {
				ok = true
			}
		}
		if p.nAlt > 1 {
			c.Count("model:hash-map-orders-tried")
		}
		if !ok {
			c.disagree++
			if p.predFail {
				// the case already is a concrete violation of the property: the model (of the correct behaviour) has to differ
				c.Count("model:differs-on-violating-case")
				continue
			}
			rep := map[string]any{"request": reqs[p.first], "impl": p.impl, "model": models}
			for x, i := range p.idx {
				rep[string(rune('a'+x))] = r.pool[i].tokens(nil)
			}
			// a concrete, unlisted violation of the property found by this run explains the disagreement (verdict logic (b) -> (a))
			concrete := false
			for _, v := range c.violations {
				if !v.noInput && c.matchFinding(v.signature) == nil {
					concrete = true
				}
			}
			if concrete {
				c.Count("model:differs-while-property-violated")
				continue
			}
			c.Broken("corr:CMP", "implementation and Lean model disagree on a "+map[string]string{"P": "pair", "T": "triple"}[p.kind], rep)
			if c.disagree > 20 {
				break
			}
		}
	}
	for k := 0; k < len(pends) && len(c.samples) < 6; k += len(pends)/6 + 1 {
		c.Sample(map[string]any{"request": reqs[pends[k].first], "impl": pends[k].impl})
	}
}
