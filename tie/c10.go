package main

// C10 — a generated function is a pure function of its arguments across evaluations.
// C11 — one generated function may be evaluated concurrently (worker "conc", -race build).

import (
	"bufio"
	"fmt"
	"os"
	"os/exec"
	"path/filepath"
	"strconv"
	"strings"
	"sync"
	"sync/atomic"
	"time"

	"github.com/hneemann/parser2/funcGen"
	"github.com/hneemann/parser2/value"
)

func init() {
	props["C10"] = runC10
	props["C11"] = runC11
	workers["conc"] = workerConc
}

// programs with shared state that survives an evaluation: constant lazy lists, constant maps,
// constant closures, recursive functions, partially consumed results
var c10Corpus = []string{
	// closures by the NUMBER of outer values they capture (none, one, one used twice, two) x recursive or not x where they are created
	// (main body, closure body, callback of a list method): what a closure captured in one evaluation must not show in the next
	// (seed C10-6: a recursive function capturing exactly one outer value was created once and shared afterwards - caught by a
	// random program until the random stream moved; now deterministic)
	"func pow(n) if n = 0 then 1 else a * pow(n - 1); pow(3)",
	"let b = a + 1; func pw(n) if n = 0 then 1 else b * pw(n - 1); pw(2)",
	"func p2(n) if n = 0 then a else (a + 1) * p2(n - 1) - a; p2(2)",
	"let b = a * 2; func q(n) if n = 0 then a else b + q(n - 1); q(3)",
	"func r(n) if n = 0 then 0 else 1 + r(n - 1); r(a % 5)",
	"(k -> func s(n) if n = 0 then 1 else k * s(n - 1); s(3))(a)",
	"let f = n -> if n = 0 then 1 else a * f(n - 1); f(3)",
	"[1, 2].map(i -> func t(n) if n = 0 then i else a + t(n - 1); t(2)).sum()",
	"let g = x -> x + a; g(1) + g(2)",
	"let g = x -> x + 1; g(a) + g(2)",
	"let b = a + 1; let g = x -> x * a + b; g(1) + g(2)",
	"func pow(n) if n = 0 then 1 else a * pow(n - 1); [pow(1), pow(2)].map(e -> e + a)",
	"func mk(k) (n -> if n = 0 then k else a + mk(k)(n - 1)); mk(a * 10)(2)",
	"let l = numbers(1000).map(e -> e * 2); l[a] + l[a + 1]",
	"let l = numbers(50).map(e -> e * 2).accept(e -> e % 3 = 0); l.first() + l.size() + a",
	"let l = [3, 1, 2]; l.append(a).size() + l.size() + l.order(e -> e).first() + l.reverse().first()",
	"let l = [3, 1, 2]; l.append(a)",
	"let l = numbers(20).map(e -> e + 1); l.top(a).size() + l.skip(a).size()",
	"let l = numbers(20).map(e -> e + 1); if a % 2 = 0 then l.first() else l.sum()",
	"let m = {x: 1, y: [1, 2, 3].map(e -> e * 10)}; m.y[a % 3] + m.put(\"z\", a).z + m.size()",
	"let f = (k -> (e -> e + k))(10); f(a) + f(a + 1)",
	"func fib(n) if n < 2 then n else fib(n - 1) + fib(n - 2); fib(a % 12)",
	"let l = numbers(10).map(e -> if e = 7 then throw(\"x\") else e); if a > 3 then l.sum() else l.top(3).sum()",
	"let l = numbers(30).map(e -> e * e); [l[a], l.size(), l.last()]",
	"let l = numbers(30).map(e -> e * e); l.map(e -> e + a)",
	"numbers(a + 5).map(e -> e * 2).accept(e -> e > 3)",
	"let s = [\"b\", \"a\", \"c\"].order(e -> e); s[a % 3] + s.reverse()[0]",
	"let g = [1, 2, 2, 3].groupByInt(e -> e); g.size() + a",
	"[1, 2, 3].map(e -> e + a).reduce((p, q) -> p * q) + (try [1][a] catch 0 - 1)",
	"let big = numbers(200).map(e -> e + 1).map(e -> e * 3); big[a * 7 % 200] + big.indexWhere(e -> e > a * 9)",
	// what another evaluation did to a shared lazy list (it materialised it) shows nowhere: not in what multiUse allows, not in
	// the texts that print the list
	"let c = numbers(5).map(e -> e + 1); if a % 2 = 0 then (try c.multiUse({a: l -> l.first() + l.last() + a, b: l -> l.sum()}).a catch 0 - 1) else c.size()",
	"let c = numbers(5).map(e -> e + 1); if a % 3 = 0 then c[a % 5] else (try c.multiUse({a: l -> [l.size(), l.sum()].sum(), b: l -> l.top(2).sum()}).a catch 0 - 1)",
	"let c = numbers(14).map(e -> e + 1); if a % 2 = 0 then sprintf(\"%v: %v\", a, c) else c.size().string()",
	"let c = numbers(14).map(e -> e * 2); if a % 2 = 0 then (try c(a) catch e -> e) else c.last().string()",
	"let c = numbers(30).accept(e -> e % 2 = 0); [sprintf(\"%v\", c), c[a % 15].string(), sprintf(\"%v\", c)].string()",
	// constant maps with more entries than any small-map shortcut handles, read behind every position, then observed in order
	"let c = {k0: 0, k1: 1, k2: 2, k3: 3, k4: 4, k5: 5, k6: 6, k7: 7, k8: 8, k9: 9, k10: 10, k11: 11}; [(c + {zz: a}).string(), c.k10 + a, c.k9 + a, c.k11 + a, (c + {zy: a}).list().map(e -> e.key).string()].string()",
	"let c = {k0: 0, k1: 1, k2: 2, k3: 3, k4: 4, k5: 5, k6: 6, k7: 7, k8: 8, k9: 9, k10: 10, k11: 11}; if a % 2 = 0 then c.get(\"k\" + (8 + a % 4)) else (c + {zz: a}).string().len() * 1000 + (c + {zz: a}).list().first().value",
	"let c = {k0: 0, k1: 1, k2: 2, k3: 3, k4: 4, k5: 5, k6: 6, k7: 7, k8: 8, k9: 9, k10: 10, k11: 11, k12: 12, k13: 13, k14: 14, k15: 15, k16: 16, k17: 17, k18: 18, k19: 19, k20: 20, k21: 21}; [c.k21 + a, c.map((k, v) -> v + a).string()].string()",
	// a constant binning as the first part of a collector (the collector sums into a value of its own)
	"[[0.5, 1.5, 1.5].binning(0, 1, 2, x -> x, x -> 1), [a + 0.5].binning(0, 1, 2, x -> x, x -> 1)].collectBinning().values.string()",
	"let b0 = [0.5, 1.5, 1.5].binning(0, 1, 2, x -> x, x -> 1); [[b0, [a + 0.5].binning(0, 1, 2, x -> x, x -> 1)].collectBinning().values.string(), b0.values.string()].string()",
	"let b0 = [[0.5, 0.5], [1.5, 0.5]].binning2d(0, 1, 2, 0, 1, 2, x -> x[0], x -> x[1], x -> 1); [[b0, [[a + 0.5, 0.5]].binning2d(0, 1, 2, 0, 1, 2, x -> x[0], x -> x[1], x -> 1)].collectBinning().values.string(), b0.values.string()].string()",
}

// every lazy stage as a constant (argument-free, folded by the optimizer) that is then consumed lazily,
// partially and repeatedly with the argument; and operators that take a constant list as left operand
func c10ConstSweep() []string {
	stages := []string{
		"numbers(40).map(e -> e * 3)", "numbers(40).accept(e -> e % 3 = 0)", "[1, 4, 7, 10].merge([2, 3, 9, 11], (p, q) -> p < q)",
		"numbers(40).combine((p, q) -> p * q)", "numbers(40).combine3((p, q, r) -> p + q * r)", "numbers(40).combineN(3, w -> w[0] + w[2])",
		"numbers(40).iir(e -> e, (e, l) -> l + e)", "numbers(40).number((n, e) -> n * e)", "[1, 1, 2, 2, 3, 1].compact((p, q) -> p = q)",
		"[1, 2, 3].cross([10, 20], (p, q) -> p + q)", "numbers(40).top(25)", "numbers(40).skip(5)", "numbers(20) + numbers(20).map(e -> e + 100)",
		"numbers(2000).combine((p, q) -> p * q).map(x -> x % 7)", "numbers(40).map(e -> e + 1).combine((p, q) -> p + q).accept(e -> e % 2 = 1)",
		"numbers(30).iirCombine(e -> e, (le, e, l) -> l + e - le)", "numbers(12).fsm((s, e) -> goto((s.state + e) % 3)).map(m -> m.state)",
		"[3, 1, 2].order(e -> e)", "[3, 1, 2].reverse()", // (groupBy*/unique* have an unspecified order: excluded by the property)
		// constant concatenations whose operands run closures on the stack of whoever iterates them
		"numbers(20).number((n, e) -> n * e) + numbers(20).iir(e -> e, (e, l) -> l + e)", "[1, 2, 3].number((n, e) -> n + e) + [4]", "[0] + numbers(30).combine((p, q) -> p * q)",
		// constants that are materialised with spare capacity when the function is generated
		"[1, 2].append(3)", "numbers(5).eval()", "[1, 2, 3].map(x -> x * 2).eval()", "[1, 2].append(3).append(4).append(5)",
	}
	uses := []string{
		"c.map(x -> x * a).top(a % 5 + 1)", "c.mapReduce(a, (s, x) -> s + x)", "c.top(a % 7).size() + c.skip(a % 7).size()", "c.first() + a",
		"c.accept(x -> x % (a % 3 + 2) = 0)", "[c.size(), c.map(x -> x + a).sum()]", "c.indexWhere(x -> x > a * 3)", "c.append(a).size() + c.size()",
		"c.map(x -> x + a)", "(c ~ (c + [a])) & ([c.first()] ~ c)", "c.append(a).string()", "c.append(a).append(a + 1).sum()", "c[a % 3] + c[0]", "c[c.size() - 1] + a",
	}
	var res []string
	for _, st := range stages {
		for _, u := range uses {
			res = append(res, "let c = "+st+"; "+u)
		}
	}
	// lazy lists that depend on the argument (built anew by every evaluation) under every operation that forces them:
	// whatever the forcing needs (scratch stacks, buffers) must belong to the evaluation
	argStages := []string{"numbers(40).iir(e -> a, (e, l) -> l + a)", "numbers(40).combine((p, q) -> p + q + a)", "numbers(40).number((n, e) -> n * e + a)", "numbers(30).map(e -> e + a)",
		"numbers(30).accept(e -> e % (a + 2) = 0)", "[1, 1, 2, a, a].compact((p, q) -> p = q)", "[1, 2, 3].cross([a, 20], (p, q) -> p + q)", "numbers(20).combine3((p, q, r) -> p + q + r + a)",
		"numbers(20).combineN(2, w -> w.sum() + a)", "numbers(20).iirCombine(e -> e, (le, e, l) -> l + e - le + a)", "[1, 4, 7].merge([2, a + 3], (p, q) -> p < q)",
		"numbers(12).fsm((s, e) -> goto((s.state + e + a) % 3)).map(m -> m.state)", "(numbers(10) + numbers(10).number((n, e) -> n + a))"}
	forcing := []string{"[5]", ".size()", ".first()", ".last()", ".string()", ".eval().size()", ".reverse().first()", ".top(3).string()", ".sum()", ".append(a).size()", ".indexWhere(x -> x > 5)", ".skip(2).first()"}
	for _, st := range argStages {
		for _, fo := range forcing {
			res = append(res, st+fo)
		}
	}
	res = append(res,
		"[1, 2, 3] ~ [1, 2, 3, a]", "let need = [1, 2, 3]; (need ~ [3, 2, 1, a]) & (need.size() = 3) & (need[0] = 1)",
		"let need = [1, 2, 3]; if need ~ [1, 2, 3, 4] then need.string() + a else \"no\"",
		"let off = a * 100; (x -> x + off)", "let f = x -> x * a; [1, 2, 3].map(f)", "[1, 2, 3].map(x -> x * a)",
		"let off = a * 100; {f: x -> x + off, l: [1, 2].map(x -> x + off)}")
	return res
}

type histProg struct {
	src string
	iso map[int]string // isolated outcome per argument (fresh generator, first evaluation)
}

func isolatedOutcome(src string, a int) string {
	return evalOutcome(newValueFG(true), src, []string{"a"}, []value.Value{value.Int(a)})
}

func genC10Programs(c *Ctx, n, depth int) []string {
	progs := append([]string{}, c10Corpus...)
	progs = append(progs, c10ConstSweep()...)
	for i := 0; i < n; i++ {
		g := newProgGen(c.rng)
		g.enterBody("a")
		t := []pty{pInt, pInt, pList, pStr, pMap, pBool}[c.rng.Intn(6)]
		// a constant (argument-free) list or closure bound first, so that evaluations share it
		prefix := []string{"let cl = numbers(40).map(e -> e * 3); ", "let cl = [5, 3, 9, 1]; ", "let cl = numbers(12).accept(e -> e % 2 = 0).map(e -> e + 1); ", ""}[c.rng.Intn(4)]
		sc := []pbind{{"a", pInt}}
		if prefix != "" {
			sc = append(sc, pbind{"cl", pList})
			g.used[len(g.used)-1]["cl"] = true
		}
		progs = append(progs, prefix+g.stmt(t, 2+c.rng.Intn(depth), sc))
	}
	return progs
}

// c10Pooled: values that outlive an evaluation because the HOST keeps them (a pool of arguments): a function-backed map
// whose declared keys are not sorted, a list map with 12 entries, a list with spare capacity, a binning. Observers and
// "touching" programs (reads behind every position, failed lookups, method calls, appends, collects) are evaluated in a random
// history on the pooled value; every outcome must be the one a fresh value gives to a fresh generator.
func c10Pooled(c *Ctx) {
	fg0 := newValueFG(true)
	mk := func(src string) func() value.Value {
		return func() value.Value {
			f, _, err := newValueFG(true).Generate(src)
			if err != nil {
				fatal("c10 pooled: %v", err)
			}
			v, err := f.Eval()
			if err != nil {
				fatal("c10 pooled: %v", err)
			}
			return v
		}
	}
	_ = fg0
	kinds := []struct {
		name  string
		build func() value.Value
		progs []string
	}{
		{"func-map", func() value.Value {
			fac := value.NewFuncMapFactory[value.Int](func(k value.Int, key string) (value.Value, bool) {
				switch key {
				case "zeta":
					return k, true
				case "alpha":
					return k * 10, true
				case "mid":
					return value.String("m"), true
				}
				return nil, false
			}, "zeta", "alpha", "mid")
			return fac.Create(7)
		}, []string{"\"rec: \" + p", "p.zeta + a", "try p.nosuch catch 0 - 1", "p.size()", "p.list().map(e -> e.key).string()", "p.string()", "(p + {q: a}).string()", "p.map((k, v) -> k).string()", "\"again: \" + p"}},
		{"list-map-12", mk("{k0: 0, k1: 1, k2: 2, k3: 3, k4: 4, k5: 5, k6: 6, k7: 7, k8: 8, k9: 9, k10: 10, k11: 11}"),
			[]string{"\"rec: \" + p", "p.k10 + a", "p.k8", "p.k11 + p.k9", "p.string()", "p.list().map(e -> e.key).string()", "try p.nosuch catch 0 - 1", "p.get(\"k\" + (8 + a % 4))", "(p + {zz: a}).string()", "p.isAvail(\"k9\", \"k11\")"}},
		{"list-with-spare-capacity", mk("[1, 2].append(3)"), []string{"p.string()", "p.append(a).string()", "(p + [a]).string()", "p.append(a).append(a + 1).size() + p.size()", "p.reverse().string()", "[1, 2] ~ p", "p ~ [3, 2, 1, a]", "p.sum()"}},
		{"binning", mk("[0.5, 1.5, 1.5].binning(0, 1, 2, x -> x, x -> 1)"), []string{"p.values.string()", "[p, [a + 0.5].binning(0, 1, 2, x -> x, x -> 1)].collectBinning().values.string()", "[p, p].collectBinning().values.string()", "p.values.append(a).size()", "p.string()"}},
		{"lazy-list", func() value.Value { return lazyList([]value.Value{value.Int(4), value.Int(5), value.Int(6)}, false) }, []string{"p.string()", "p.first() + a", "p.size()", "p.append(a).string()", "p[1]", "try p[7] catch 0 - 1", "p.map(e -> e + a).string()", "p.reverse().string()",
			"try p.multiUse({a: l -> l.first() + l.last() + a, b: l -> l.sum()}).a catch 0 - 1", "p.multiUse({a: l -> l.sum() + a, b: l -> l.size()}).a", "sprintf(\"%v\", p)"}},
		{"long-lazy-list", func() value.Value {
			var items []value.Value
			for i := 0; i < 14; i++ {
				items = append(items, value.Int(int64(i*3)))
			}
			return lazyList(items, true)
		}, []string{"sprintf(\"%v: %v\", a, p)", "p.size()", "p[a]", "try p(a) catch e -> e", "p.top(3).string()", "sprintf(\"%v\", [p, a])", "p.last()", "p.string().len()"}},
	}
	steps := c.Pick(40, 120)
	for _, k := range kinds {
		for rep := 0; rep < c.Pick(6, 40); rep++ {
			pooled := k.build()
			fg := newValueFG(true)
			fns := map[string]funcGen.Func[value.Value]{}
			var hist []string
			for s := 0; s < steps; s++ {
				src := k.progs[c.rng.Intn(len(k.progs))]
				a := c.rng.Intn(4)
				f, ok := fns[src]
				if !ok {
					var err error
					f, _, err = fg.Generate(src, "p", "a")
					if err != nil {
						fatal("c10 pooled: %q: %v", src, err)
					}
					fns[src] = f
				}
				out := func() (o string) {
					defer func() {
						if r := recover(); r != nil {
							o = fmt.Sprintf("PANIC %v", r)
						}
					}()
					v, err := f.Eval(pooled, value.Int(a))
					if err != nil {
						return "ERR"
					}
					cv, err := canonValue(v)
					if err != nil {
						return "ERR"
					}
					return "OK " + cv
				}()
				iso := evalOutcome(newValueFG(true), src, []string{"p", "a"}, []value.Value{k.build(), value.Int(a)})
				hist = append(hist, fmt.Sprintf("%s [a=%d]", src, a))
				c.Case("pooled|"+k.name+"|"+strings.Join(hist, ";"), s >= 2)
				c.Count("pooled:" + k.name)
				if out != iso {
					c.disagree++
					c.Violation("evaluation-depends-on-history", "an evaluation on a value the host keeps between evaluations differs from the evaluation on a fresh value",
						map[string]any{"pooled_value": k.name, "history": append([]string{}, hist...), "outcome": trunc(out, 300), "isolated": trunc(iso, 300)})
					break
				}
			}
		}
	}
}

// c10StackLimitScan: an evaluation that fails because the value stack is exhausted in the MIDDLE of something (here: of the first
// materialisation of a shared constant list, reached at a recursion depth scanned across the limit) leaves nothing behind: the
// next evaluation gives what it gives on a fresh generator
func c10StackLimitScan(c *Ctx) {
	// (the use of the list mentions n: c.size() alone would be folded, and the list materialised, at compile time)
	progs := []string{
		"let c = numbers(9).iir(e -> e, (e, l) -> l + e); func f(n) if n = 0 then c.append(n).size() else f(n - 1); try f(a) catch 0 - 1",
		"let c = numbers(9).number((i, e) -> let u = i + e; u); func f(n) if n = 0 then c.map(e -> e + n).sum() else f(n - 1); try f(a) catch 0 - 1",
		"let c = numbers(6).combine((p, q) -> let u = p + q; u); func f(n) if n = 0 then c[n + 2] else f(n - 1); try f(a) catch 0 - 1",
		"let m = {k: numbers(7).iir(e -> e, (e, l) -> l + e)}; func f(n) if n = 0 then m.k.append(n).string().len() else f(n - 1); try f(a) catch 0 - 1",
	}
	for _, src := range progs {
		iso0, iso3, isoShallow := isolatedOutcome(src, 0), isolatedOutcome(src, 3), isolatedOutcome(src, 9000)
		for d := 9930; d <= 10030; d++ {
			// a fresh generated function per depth: once an evaluation got through, the list is in memory for good
			fg := newValueFG(true)
			f, _, err := fg.Generate(src, "a")
			if err != nil {
				fatal("c10 stack limit scan: %v", err)
			}
			firstAtDepth := ""
			for step, a := range []int{d, 0, 3, d} {
				out := func() (o string) {
					defer func() {
						if r := recover(); r != nil {
							o = fmt.Sprintf("PANIC %v", r)
						}
					}()
					v, err := f.Eval(value.Int(int64(a)))
					if err != nil {
						return "ERR"
					}
					cv, _ := canonValue(v)
					return "OK " + cv
				}()
				c.Case(fmt.Sprintf("stack-limit-scan|%s|%d|%d", src, d, a), true)
				c.Count("stack-limit-scan")
				if step == 0 {
					firstAtDepth = out
					continue
				}
				want := iso0
				if a == 3 {
					want = iso3
				}
				if step == 3 {
					// the evaluation at depth d again, after the list has been materialised at depth 0: the first evaluation of THIS
					// function was the isolated one
					want = firstAtDepth
					if out != want && want == "OK i-1" && out == isoShallow {
						c.Violation("stack-limit-hidden-by-materialised-list", "an evaluation that runs out of value stack on a fresh function succeeds after another evaluation has materialised the shared constant list",
							map[string]any{"program": src, "argument": a, "outcome": out, "isolated": want})
						continue
					}
				}
				if out != want {
					c.disagree++
					c.Violation("evaluation-depends-on-history", "after an evaluation that ran out of value stack at some depth, the next evaluation differs from the one on a fresh generator",
						map[string]any{"program": src, "depth_of_the_failing_evaluation": d, "argument": a, "outcome": trunc(out, 200), "isolated": trunc(want, 200)})
					d = 1 << 30
					break
				}
			}
		}
	}
}

func runC10(c *Ctx) {
	// (a replay of C10 is the quick tier again: every family is deterministic)
	c10Pooled(c)
	c10StackLimitScan(c)
	c10MemoCells(c)
	c10ExportHelpers(c)
	c.rule = "programs with state that survives an evaluation (constant lazy lists, constant maps and closures bound before use, recursion, failing elements, partially consumed lists; corpus + C01 generator with a constant list in scope) are generated once and evaluated in a history of up to 50 steps: arguments from a pool of 8, handed over as a sub-slice of a host-owned buffer with spare capacity (which must stay untouched), interleaved with evaluations of two other functions of the same generator, new Generate calls, results dropped, forced, or half consumed (first / top / size via the API) and consumed later; predicate: every outcome equals the isolated first evaluation of the same program and argument on a fresh generator, and the Lean model's reference outcome; non-trivial = distinct (program, history) with >= 3 evaluations over >= 2 different arguments of a program that contains a constant list/closure"
	c.rule += "; further deterministic families: values the host keeps between evaluations (pooled maps, lists, binnings), a scan of recursion depths across the value-stack limit with a fresh function per depth, memo-cell histories (force / iterate-k operations with 0..60 free value-stack slots on ONE shared *value.List with host-defined and library producers, every outcome compared with the same operation on an untouched list and with the Lean model P2.Memo), the repository's file helpers (export.AddFileHelpers) through histories with results rendered late"
	c.assume = append(c.assume, "state outside the models: package-level variables (type ids)",
		"the free-slot needs of the library producers in the memo-cell corpus (iir 1/2, iirCombine 1/3, number and combine with a let 3, map/accept 0) were measured once on the pinned commit; a change of the compiler's slot discipline shows as a broken MEMO correspondence")
	n := c.Pick(400, 12000)
	steps := c.Pick(30, 50)
	progs := genC10Programs(c, n, c.Pick(4, 6))
	pool := []int{0, 1, 2, 3, 5, 8, 13, -1}
	var reqs []string
	type pend struct {
		src string
		a   int
		iso string
	}
	var pends []pend
	for pi, src := range progs {
		fg := newValueFG(true)
		f, _, err := fg.Generate(src, "a")
		if err != nil {
			c.Count("generr")
			c.Case(src, false)
			continue
		}
		others := []string{"let q = numbers(10).map(e -> e + a); q.sum()", "[a, a + 1].map(e -> e * 2)"}
		var of []funcGen.Func[value.Value]
		for _, o := range others {
			g, _, err := fg.Generate(o, "a")
			if err == nil {
				of = append(of, g)
			}
		}
		iso := map[int]string{}
		argBuf := make([]value.Value, 12)
		for k := range argBuf {
			argBuf[k] = value.String("host-owned")
		}
		type heldResult struct {
			v value.Value
			a int
		}
		var held []heldResult
		distinctArgs := map[int]bool{}
		evals := 0
		ok := true
		for s := 0; s < steps && ok; s++ {
			switch c.rng.Intn(10) {
			case 0:
				if len(of) > 0 {
					of[c.rng.Intn(len(of))].Eval(value.Int(pool[c.rng.Intn(len(pool))]))
				}
				c.Count("step:other-function")
			case 1:
				fg.Generate("[1, 2, 3].map(e -> e + zz).sum() + 1", "zz")
				fg.Generate("1 + + 2", "zz")
				c.Count("step:generate")
			case 2:
				// consume a held result late (or half)
				if len(held) > 0 {
					k := c.rng.Intn(len(held))
					h := held[k]
					held = append(held[:k:k], held[k+1:]...)
					if l, isList := h.v.(*value.List); isList && c.rng.Intn(2) == 0 {
						l.First(funcGen.NewEmptyStack[value.Value]()) // half consume first
					}
					out := "ERR"
					if cl, isClo := h.v.(value.Closure); isClo && cl.Args == 1 {
						// a returned closure is called later
						r, err := cl.Eval(funcGen.NewEmptyStack[value.Value](), value.Int(7))
						if err == nil {
							if sv, err := canonValue(r); err == nil {
								out = "OK " + sv
							}
						}
						want := "ERR"
						if f2, _, err := newValueFG(true).Generate(src, "a"); err == nil {
							if v2, err := f2.Eval(value.Int(h.a)); err == nil {
								if c2, ok := v2.(value.Closure); ok {
									if r2, err := c2.Eval(funcGen.NewEmptyStack[value.Value](), value.Int(7)); err == nil {
										if sv, err := canonValue(r2); err == nil {
											want = "OK " + sv
										}
									}
								}
							}
						}
						c.Count("step:late-call-of-returned-closure")
						if out != want {
							c.disagree++
							c.Violation("evaluation-depends-on-history", "a closure returned by an earlier evaluation behaves differently after later evaluations",
								map[string]any{"program": src, "argument": h.a, "step": s, "outcome": trunc(out, 200), "isolated": trunc(want, 200)})
							ok = false
						}
					} else {
						if sv, err := canonValue(h.v); err == nil {
							out = "OK " + sv
						}
						c.Count("step:late-consume")
						if out != iso[h.a] {
							c.disagree++
							c.Violation("evaluation-depends-on-history", "a result left unconsumed differs from the isolated evaluation when it is consumed after later evaluations",
								map[string]any{"program": src, "argument": h.a, "step": s, "outcome": trunc(out, 200), "isolated": trunc(iso[h.a], 200)})
							ok = false
						}
					}
				}
			default:
				a := pool[c.rng.Intn(len(pool))]
				if _, ok := iso[a]; !ok {
					iso[a] = isolatedOutcome(src, a)
				}
				distinctArgs[a] = true
				evals++
				// the argument is handed over as a sub-slice of a host buffer with spare capacity (f.Eval(buf[:1]...)):
				// the evaluation must not write into the rest of the buffer
				argBuf[0] = value.Int(a)
				v, err := f.Eval(argBuf[:1]...)
				for k := 1; k < len(argBuf); k++ {
					if sv, isStr := argBuf[k].(value.String); !isStr || string(sv) != "host-owned" {
						c.Violation("evaluation-writes-into-the-argument-slice", "Func.Eval wrote into the spare capacity of the slice its arguments were passed in",
							map[string]any{"program": src, "argument": a, "step": s, "slot": k, "found": fmt.Sprint(argBuf[k])})
						argBuf[k] = value.String("host-owned")
						ok = false
					}
				}
				var out string
				mode := c.rng.Intn(4)
				switch {
				case err != nil:
					out = "ERR"
				case mode == 0:
					// drop the result unconsumed; compare a second evaluation instead
					held = append(held, heldResult{v, a})
					c.Count("step:eval-dropped")
					continue
				case mode == 1:
					// half consume first, then force
					if l, isList := v.(*value.List); isList {
						l.First(funcGen.NewEmptyStack[value.Value]())
					}
					fallthrough
				default:
					s, err := canonValue(v)
					if err != nil {
						out = "ERR"
					} else {
						out = "OK " + s
					}
				}
				c.Count("step:eval")
				if out != iso[a] {
					c.disagree++
					c.Violation("evaluation-depends-on-history", "an evaluation differs from the isolated first evaluation with the same argument",
						map[string]any{"program": src, "argument": a, "step": s, "outcome": trunc(out, 200), "isolated": trunc(iso[a], 200)})
					ok = false
				}
			}
		}
		nontriv := evals >= 3 && len(distinctArgs) >= 2 && (strings.Contains(src, "let") || strings.Contains(src, "func"))
		c.Case(fmt.Sprintf("%d|%s", pi, src), nontriv)
		if len(c.samples) < 4 && nontriv {
			c.Sample(map[string]any{"program": src, "evaluations": evals, "distinct_arguments": len(distinctArgs)})
		}
		// model: reference outcome per argument (history-free by construction)
		for a, o := range iso {
			fgOff := newValueFG(false)
			ast, err := parseUnoptimized(fgOff, src, []string{"a"})
			if err != nil {
				continue
			}
			var d astDump
			d.dump(ast, 0)
			if d.unmodelled != "" {
				continue
			}
			cs := &langCase{src: src, names: []string{"a"}, args: []value.Value{value.Int(a)}, ast: d.b.String()}
			reqs = append(reqs, evalRequest("fixed", 6000, cs))
			pends = append(pends, pend{src, a, o})
		}
	}
	resp := c.Model(reqs)
	for i, r := range resp {
		f := strings.Split(r, "\t")
		if len(f) != 2 {
			continue
		}
		mr := f[1]
		if strings.Contains(mr, "60.101.114.114.111.114.62") {
			// the model abstracts the text of an implementation-raised error as "<error>"; a result that contains it is not compared
			c.Count("model:error-text-abstracted")
			continue
		}
		if mr == "FUEL" || mr == "UNMODELLED" {
			c.Count("model:" + mr)
			continue
		}
		c.Count("model:compared")
		if mr != pends[i].iso {
			c.disagree++
			c.Broken("corr:EVAL", "the model's reference outcome differs from the isolated evaluation", map[string]any{"program": pends[i].src, "argument": pends[i].a, "impl": trunc(pends[i].iso, 200), "model": trunc(mr, 200)})
		}
	}
}

// ---- C11 --------------------------------------------------------------------------------------

// the FIRST run-time error of a kind on a fresh generator, created by all goroutines at once: error texts are built from
// objects the generator owns (function descriptions, type names, method tables); every worker case starts on a generator
// of its own, so round 0 is that first time (each program stands three times: once per GOMAXPROCS group)
var c11ErrorPrograms = func() []string {
	base := []string{
		"a.nope(1)", "[a, 2].top()", "[a].map()", "{k: a}.put(1)", "a.string(1, 2)", "\"s\".cut(a)", "nope(a)", "[a].nope", "{k: a}.j", "a.k",
		"try a.nope(1) catch e -> e.len() > 0", "try [a, 2].top() catch e -> e.len() > 0", "[1, 2].map(e -> e.nope(a)).size()",
		"abs(a, a)", "sqrt(\"x\" + a)", "[a](1)", "a(1)", "(x -> x)(a, a)", "numbers(3).reduce(a)", "[a, 1].order((p, q) -> p.nope()).size()",
	}
	var r []string
	for _, b := range base {
		r = append(r, b, b, b)
	}
	return r
}()

// workerConc: lines `id TAB goroutines TAB rounds TAB program`. One Generate; per round all goroutines
// are released by a barrier and evaluate with their own argument (equal for even rounds).
func workerConc(args []string) {
	in := bufio.NewScanner(os.Stdin)
	in.Buffer(make([]byte, 1<<20), 1<<26)
	out := bufio.NewWriter(os.Stdout)
	defer out.Flush()
	for in.Scan() {
		f := strings.SplitN(in.Text(), "\t", 4)
		if len(f) != 4 {
			continue
		}
		ng, _ := strconv.Atoi(f[1])
		rounds, _ := strconv.Atoi(f[2])
		src := f[3]
		fg := newValueFG(true)
		fn, _, err := fg.Generate(src, "a")
		if err != nil {
			fmt.Fprintf(out, "%s\tGENERR\n", f[0])
			out.Flush()
			continue
		}
		bad := ""
		var mu sync.Mutex
		sharedArgs := map[int][]value.Value{}
		for a := 0; a < 5; a++ {
			buf := make([]value.Value, 1, 16)
			buf[0] = value.Int(a)
			sharedArgs[a] = buf
		}
		for r := 0; r < rounds && bad == ""; r++ {
			if r > 0 && r%2 == 0 {
				// a fresh function: what happens only on the FIRST evaluation of a function (materialising a constant,
				// the first append to it, filling a cache) happens concurrently in every second round
				if fn2, _, err := fg.Generate(src, "a"); err == nil {
					fn = fn2
				}
			}
			start := make(chan struct{})
			var wg sync.WaitGroup
			results := make([]string, ng)
			argsOf := make([]int, ng)
			for g := 0; g < ng; g++ {
				a := g % 5
				if r%2 == 0 {
					a = r % 5
				}
				argsOf[g] = a
				wg.Add(1)
				go func(g, a int) {
					defer wg.Done()
					<-start
					var v value.Value
					var err error
					if r%2 == 0 {
						// equal arguments: every goroutine hands over the SAME host-owned slice, which has spare capacity
						v, err = fn.Eval(sharedArgs[a][:1]...)
					} else {
						v, err = fn.Eval(value.Int(a))
					}
					if err != nil {
						results[g] = "ERR"
						return
					}
					s, err := canonValue(v)
					if err != nil {
						results[g] = "ERR"
					} else {
						results[g] = "OK " + s
					}
				}(g, a)
			}
			close(start)
			wg.Wait()
			// a second Generate on the same generator concurrently with nothing: cheap sanity
			for g := 0; g < ng; g++ {
				iso := isolatedOutcome(src, argsOf[g])
				if results[g] != iso {
					mu.Lock()
					bad = fmt.Sprintf("round %d goroutine %d argument %d: %s instead of %s", r, g, argsOf[g], trunc(results[g], 80), trunc(iso, 80))
					mu.Unlock()
				}
			}
		}
		if bad != "" {
			fmt.Fprintf(out, "%s\tDIFF %s\n", f[0], bad)
		} else {
			fmt.Fprintf(out, "%s\tOK\n", f[0])
		}
		out.Flush()
	}
}

type concCase struct {
	id, src  string
	ng       int
	result   string
	stderr   string
	answered bool
}

func runConcWorker(cases []*concCase, rounds, gmp int) {
	pending := cases
	solo := false // the batch watchdog fired: the case it fired on is run again alone, with a limit of its own
	for len(pending) > 0 {
		batch := pending
		if solo {
			batch = pending[:1]
		}
		bin := filepath.Join(verifRoot, ".work/bin/tie-race")
		cmd := exec.Command(bin, "worker", "conc")
		cmd.Env = append(os.Environ(), "GOMEMLIMIT=3GiB", "GORACE=halt_on_error=1 exitcode=66 history_size=4", fmt.Sprintf("GOMAXPROCS=%d", gmp))
		stdin, _ := cmd.StdinPipe()
		stdout, _ := cmd.StdoutPipe()
		var errb strings.Builder
		cmd.Stderr = &limitedWriter{b: &errb, max: 6000}
		if err := cmd.Start(); err != nil {
			fatal("cannot start conc worker: %v", err)
		}
		go func(p []*concCase) {
			w := bufio.NewWriter(stdin)
			for _, cc := range p {
				fmt.Fprintf(w, "%s\t%d\t%d\t%s\n", cc.id, cc.ng, rounds, cc.src)
			}
			w.Flush()
			stdin.Close()
		}(batch)
		done := 0
		sc := bufio.NewScanner(stdout)
		sc.Buffer(make([]byte, 1<<20), 1<<26)
		var watchdog atomic.Bool
		limit := time.Duration(120+len(batch)*4) * time.Second
		if solo {
			limit = 300 * time.Second
		}
		timer := time.AfterFunc(limit, func() { watchdog.Store(true); cmd.Process.Kill() })
		for sc.Scan() {
			f := strings.SplitN(sc.Text(), "\t", 2)
			if len(f) == 2 && done < len(batch) && f[0] == batch[done].id {
				batch[done].result = f[1]
				batch[done].answered = true
				done++
			}
		}
		timer.Stop()
		err := cmd.Wait()
		switch {
		case done == len(batch):
			pending = pending[done:]
			solo = false
		case watchdog.Load() && !solo:
			// the machine is busy or one case hangs: decide on that case alone
			pending = pending[done:]
			solo = true
		default:
			cc := batch[done]
			cc.answered = true
			cc.result = "CRASH"
			if watchdog.Load() {
				cc.result = "TIMEOUT"
			} else if ee, ok := err.(*exec.ExitError); ok && ee.ExitCode() == 66 {
				cc.result = "RACE"
			}
			cc.stderr = errb.String()
			pending = pending[done+1:]
			solo = false
		}
	}
}

func runC11(c *Ctx) {
	c.rule = "programs as in C10 (constant lazy lists, maps, closures, recursion, failing elements) are generated once in a -race worker and evaluated from 2..16 goroutines released by a barrier, with equal arguments in even rounds (handed over as one shared host-owned slice with spare capacity) and different arguments in odd rounds, on a freshly generated function in every second round (first-evaluation effects happen concurrently again), under GOMAXPROCS in {1,4,16}; predicate: every outcome equals the isolated evaluation and the race detector reports nothing; non-trivial = distinct program containing a constant list, map or closure"
	c.assume = append(c.assume, "the race detector and the Go memory model are the runtime authority on the explored schedules; the theorem-level content is the model's access discipline (fresh stack per evaluation, constants read-only)")
	n := c.Pick(150, 4000)
	rounds := c.Pick(12, 30)
	progs := append(append([]string{}, c11ErrorPrograms...), genC10Programs(c, n, c.Pick(4, 6))...)
	gmps := []int{16, 4, 1}
	var all []*concCase
	groups := map[int][]*concCase{}
	for i, src := range progs {
		cc := &concCase{id: itoa(i), src: strings.ReplaceAll(src, "\n", " "), ng: []int{2, 4, 8, 16}[i%4]}
		all = append(all, cc)
		g := gmps[i%len(gmps)]
		groups[g] = append(groups[g], cc)
	}
	var wg sync.WaitGroup
	for g, part := range groups {
		// three workers per GOMAXPROCS group
		for w := 0; w < 4; w++ {
			var sub []*concCase
			for j := w; j < len(part); j += 4 {
				sub = append(sub, part[j])
			}
			wg.Add(1)
			go func(sub []*concCase, g int) { defer wg.Done(); runConcWorker(sub, rounds, g) }(sub, g)
		}
	}
	wg.Wait()
	for _, cc := range all {
		nontriv := strings.Contains(cc.src, "let") || strings.Contains(cc.src, "func")
		c.Case(cc.src, nontriv && cc.result != "GENERR")
		c.Count("result=" + strings.SplitN(cc.result, " ", 2)[0])
		c.Count(fmt.Sprintf("goroutines=%d", cc.ng))
		if len(c.samples) < 4 && nontriv {
			c.Sample(map[string]any{"program": cc.src, "goroutines": cc.ng, "rounds": rounds, "result": trunc(cc.result, 80)})
		}
		replay := map[string]any{"program": cc.src, "goroutines": cc.ng, "rounds": rounds, "result": trunc(cc.result, 400)}
		if cc.stderr != "" {
			replay["stderr_head"] = firstLines(cc.stderr, 30)
		}
		switch {
		case !cc.answered:
			c.Violation("conc-worker-no-answer", "the worker did not answer", replay)
		case cc.result == "RACE":
			c.Violation("data-race", "the race detector reported a data race during concurrent evaluation", replay)
		case cc.result == "CRASH":
			c.Violation("crash", "the worker died during concurrent evaluation", replay)
		case cc.result == "TIMEOUT":
			c.Violation("hang", "concurrent evaluation of this program alone did not finish within 300 s", replay)
		case strings.HasPrefix(cc.result, "DIFF"):
			c.disagree++
			c.Violation("concurrent-differs-from-isolated", "a concurrent evaluation differs from the isolated one", replay)
		}
	}
}
