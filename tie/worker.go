package main

import (
	"fmt"
	"os"
)

// runWorker is the isolated child process used for crash / hang / race / goroutine observations.
var workers = map[string]func(args []string){}

func runWorker(args []string) {
	if len(args) == 0 {
		fmt.Fprintln(os.Stderr, "worker: kind missing")
		os.Exit(2)
	}
	f, ok := workers[args[0]]
	if !ok {
		fmt.Fprintln(os.Stderr, "worker: unknown kind", args[0])
		os.Exit(2)
	}
	f(args[1:])
}
