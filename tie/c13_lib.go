package main

// C13, additional phase: maps that the LIBRARY builds by itself (createLowPass/iirApply, goto, minMax,
// groupBy*, list(), binning, multiUse, linearReg …) construct storages directly, without going through
// put/+/replace. All language-level observers must agree on them as well.

import (
	"fmt"
	"strings"

	"github.com/hneemann/parser2/value"
)

var c13LibMapSources = []string{
	`createLowPass("lp", p -> p.t, p -> p.x, 1.0).initial({t: 0.0, x: 1.0})`,
	`createLowPass("lp", p -> p.t, p -> p.x, 1.0).initial({t: 0.0, x: 1.0, y: 2, z: 3})`,
	`[{t: 0.0, x: 1.0}, {t: 1.0, x: 2.0}, {t: 2.0, x: 4.0}].iirApply(createLowPass("lp", p -> p.t, p -> p.x, 1.0)).last()`,
	`[{t: 0.0, x: 1.0}, {t: 1.0, x: 2.0}].iirApply(createLowPass("lp", p -> p.t, p -> p.x, 1.0)).first()`,
	`[{t: 0.0, x: 1.0}, {t: 1.0, x: 2.0}].iirApply(createLowPass("lp", p -> p.t, p -> p.x, 1.0)).last().put("more", 1)`,
	`createLowPass("lp", p -> p.t, p -> p.x, 1.0)`,
	// the name of the filtered value collides with a key of the items (repair da223be: was a map with a duplicate key)
	`createLowPass("x", p -> p.t, p -> p.x, 1.0).initial({t: 0.0, x: 1.0})`,
	`createLowPass("t", p -> p.t, p -> p.x, 1.0).initial({t: 0.0, x: 1.0, y: 2})`,
	`[{t: 0.0, x: 1.0}, {t: 1.0, x: 2.0}, {t: 2.0, x: 4.0}].iirApply(createLowPass("x", p -> p.t, p -> p.x, 1.0)).last()`,
	`[{t: 0.0, x: 1.0, lp: 7}, {t: 1.0, x: 2.0}].iirApply(createLowPass("lp", p -> p.t, p -> p.x, 1.0)).first()`,
	`[{t: 0.0, x: 1.0}, {t: 1.0, x: 2.0, lp: 7}].iirApply(createLowPass("lp", p -> p.t, p -> p.x, 1.0)).last()`,
	`goto(3)`,
	`goto(3).put("k", 1)`,
	`[1, 2, 3].minMax(e -> e)`,
	`[].minMax(e -> e)`,
	`[1, 2, 2, 3].groupByInt(e -> e).first()`,
	`["a", "b", "a"].groupByString(e -> e).last()`,
	`[1, 2.0, 2].groupByEqual(e -> e).first()`,
	`{a: 1, b: 2}.list().first()`,
	`{a: 1, b: 2}.list().last().put("x", 1)`,
	`[1, 2, 3, 4].binning(0, 1, 2, e -> e, e -> 1)`,
	`[1, 2, 3, 4].binning(0, 1, 2, e -> e, e -> 1).descr.first()`,
	`[1, 2, 3, 4].binning(0, 1, 2, e -> e, e -> 1).descr.last()`,
	`[1, 2, 3, 4].binning(0, 1, 2, e -> e, e -> 1).descr[1]`,
	`[[1, 2], [3, 4]].binning2d(0, 1, 2, e -> e[0], 0, 1, 2, e -> e[1], e -> 1)`,
	`[1, 2, 3].multiUse({s: l -> l.sum(), n: l -> l.size()})`,
	`[1, 2, 3].fsm((s, e) -> goto((s.state + e) % 3)).last()`,
	`[{x: 1.0, y: 2.0}, {x: 2.0, y: 4.1}, {x: 3.0, y: 6.0}].linearReg(p -> p.x, p -> p.y)`,
	`{a: 1}.replace(m -> {a: 2}).replace(m -> {a: 3})`,
	`({a: 1} + {b: 2}).map((k, v) -> v + 1)`,
}

func c13LibraryMaps(c *Ctx) {
	fg := value.New()
	observe := func(src string) {
		probe := func(expr string) string {
			return evalOutcome(fg, "let m = "+src+"; "+expr, []string{"a"}, []value.Value{value.Int(0)})
		}
		base := probe("m.size()")
		c.Case("libmap|"+src, true)
		c.Count("library-built-map")
		if !strings.HasPrefix(base, "OK i") {
			c.Count("library-built-map:not-a-map-or-error")
			return
		}
		checks := []struct{ name, expr, want string }{
			{"size=list().size()", "m.list().size()", base},
			{"listed keys are unique", "m.list().uniqueString(e -> e.key).size()", base},
			{"size=eval().size()", "m.eval().size()", base},
			{"size=map().size()", "m.map((k, v) -> 0).size()", base},
			{"size=accept(true).size()", "m.accept((k, v) -> true).size()", base},
			{"m=m.eval()", "m = m.eval()", "OK b1"},
			{"m.eval()=m", "m.eval() = m", "OK b1"},
			{"all listed keys available", "m.list().accept(e -> m.isAvail(e.key) & (e.key ~ m)).size()", base},
			{"get answers for all listed keys", "m.list().map(e -> try (g -> 1)(m.get(e.key)) catch 0).mapReduce(0, (s, e) -> s + e)", base},
			{"put of a fresh key adds one", "m.put(\"fresh key §\", 0).size() - 1", base},
			{"merge with a disjoint map adds its size", "(m + {'fresh key §': 0}).size() - 1", base},
		}
		comparable := probe("m = m") == "OK b1" // maps holding closures cannot be compared at all
		for _, ck := range checks {
			if !comparable && strings.Contains(ck.name, "eval()") && strings.Contains(ck.name, "m") && strings.Contains(ck.expr, " = ") {
				continue
			}
			got := probe(ck.expr)
			if got != ck.want {
				c.Violation("library-built-map-observer:"+ck.name, fmt.Sprintf("observers of a map built by the library disagree: %s is %s, expected %s", ck.expr, got, ck.want),
					map[string]any{"program": "let m = " + src + "; " + ck.expr, "map_source": src, "check": ck.name, "got": got, "expected": ck.want})
				return
			}
		}
	}
	for _, src := range c13LibMapSources {
		observe(src)
	}
}
