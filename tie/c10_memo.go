package main

// C10 / C11, memo cells: the correspondence between the Lean model P2.Memo (lean/P2/Model/Memo.lean) and the cell of a
// real *value.List (value/list.go: Eval, iterable, evaluated). A cell is a lazy list whose producer is defined by the
// harness (item i needs need[i] free value-stack slots on the CONSUMER's stack while it is produced, or is an error
// item) or is built by the library (iir / iirCombine / number / combine / compact / map / accept with closures of a
// known slot need). A history of operations — force (ToSlice / Eval / CopyToSlice / Reverse) and iterate-at-most-k
// (Iterate / First / ToString) — is applied to ONE shared list, every operation on a stack with a chosen number of free
// slots; every outcome is compared with the model's (request MEMO), and the property predicate itself is evaluated:
// an operation with enough stack shows what it shows on an untouched list (memo_history_transparent).

import (
	"fmt"
	"strings"

	"github.com/hneemann/iterator"
	"github.com/hneemann/parser2/funcGen"
	"github.com/hneemann/parser2/value"
)

type memoItem struct {
	val, need int
	bad       bool
}

type memoOp struct {
	force   bool
	free, k int
	variant int
}

func (o memoOp) String() string {
	if o.force {
		return fmt.Sprintf("F%d", o.free)
	}
	return fmt.Sprintf("I%d:%d", o.free, o.k)
}

const valueStackSlots = 10001 // stackStorage.set panics on the slot with index 10001

var memoStackBase = func() []value.Value {
	b := make([]value.Value, valueStackSlots, valueStackSlots+64)
	for i := range b {
		b[i] = value.Int(0)
	}
	return b
}()

// stackWithFree: a stack whose storage is filled up to `free` slots below the limit (funcGen.NewStack takes the slice as its
// storage; the slots above are scratch, so one base slice serves every operation: they run one after the other)
func stackWithFree(free int) funcGen.Stack[value.Value] {
	return funcGen.NewStack[value.Value](memoStackBase[:valueStackSlots-free]...)
}

// hostCell builds the list for a producer given item by item
func hostCell(items []memoItem, sized bool) *value.List {
	prod := func(st funcGen.Stack[value.Value]) iterator.Producer[value.Value] {
		return func(yield iterator.Consumer[value.Value]) {
			for _, it := range items {
				s := st
				for j := 0; j < it.need; j++ {
					s.Push(value.Int(int64(j)))
				}
				if it.bad {
					yield(nil, fmt.Errorf("error item"))
					return
				}
				if !yield(value.Int(int64(it.val)), nil) {
					return
				}
			}
		}
	}
	if sized {
		return value.NewListFromSizedIterable(prod, len(items))
	}
	return value.NewListFromIterable(prod)
}

type memoLibCell struct {
	src   string
	items []memoItem
}

// the slot needs of the closures were measured once on the pinned commit; a change of the compiler's slot discipline
// shows here as a correspondence failure (and in C01's stack theorems), not as a violation of C10
var memoLibCells = []memoLibCell{
	{"numbers(5).iir(e -> e, (e, l) -> l + e)", []memoItem{{0, 1, false}, {1, 2, false}, {3, 2, false}, {6, 2, false}, {10, 2, false}}},
	{"numbers(5).number((i, e) -> let u = i + e; u)", []memoItem{{0, 3, false}, {2, 3, false}, {4, 3, false}, {6, 3, false}, {8, 3, false}}},
	{"numbers(5).combine((p, q) -> let u = p + q; u)", []memoItem{{1, 3, false}, {3, 3, false}, {5, 3, false}, {7, 3, false}}},
	{"numbers(5).iirCombine(e -> e, (p, e, l) -> p + e + l)", []memoItem{{0, 1, false}, {1, 3, false}, {4, 3, false}, {9, 3, false}, {16, 3, false}}},
	{"numbers(5).map(e -> let u = e + 1; u)", []memoItem{{1, 0, false}, {2, 0, false}, {3, 0, false}, {4, 0, false}, {5, 0, false}}},
	{"numbers(6).accept(e -> e % 2 = 0)", []memoItem{{0, 0, false}, {2, 0, false}, {4, 0, false}}},
	{"numbers(4).iir(e -> e, (e, l) -> if e = 2 then l.fail else l + e)", []memoItem{{0, 1, false}, {1, 2, false}, {0, 2, true}, {0, 2, false}}},
	{"numbers(6).accept(e -> e % 2 = 0).iir(e -> e, (e, l) -> l + e)", []memoItem{{0, 1, false}, {2, 2, false}, {6, 2, false}}},
}

func libCell(src string) *value.List {
	f, _, err := newValueFG(true).Generate(src, "a")
	if err != nil {
		fatal("memo cell %q: %v", src, err)
	}
	v, err := f.Eval(value.Int(0))
	if err != nil {
		fatal("memo cell %q: %v", src, err)
	}
	l, ok := v.(*value.List)
	if !ok {
		fatal("memo cell %q: not a list", src)
	}
	return l
}

func memoShow(vals []value.Value) string {
	if len(vals) == 0 {
		return "-"
	}
	var s []string
	for _, v := range vals {
		s = append(s, fmt.Sprint(v))
	}
	return strings.Join(s, ",")
}

// memoApply runs one operation on the shared list
func memoApply(l *value.List, o memoOp) (res string) {
	var got []value.Value
	defer func() {
		if r := recover(); r != nil {
			if strings.Contains(fmt.Sprint(r), "stack overflow") {
				if o.force {
					got = nil
				}
				res = "overflow " + memoShow(got)
			} else {
				res = "PANIC " + fmt.Sprint(r)
			}
		}
	}()
	st := stackWithFree(o.free)
	if o.force {
		var sl []value.Value
		var err error
		switch o.variant % 4 {
		case 0:
			sl, err = l.ToSlice(st)
		case 1:
			err = l.Eval(st)
			if err == nil {
				sl, err = l.ToSlice(stackWithFree(0))
			}
		case 2:
			sl, err = l.CopyToSlice(st)
		default:
			var r *value.List
			r, err = l.Reverse(st)
			if err == nil {
				var rs []value.Value
				rs, err = r.ToSlice(stackWithFree(0))
				for i := len(rs) - 1; i >= 0; i-- {
					sl = append(sl, rs[i])
				}
			}
		}
		if err != nil {
			return "item -"
		}
		return "ok " + memoShow(sl)
	}
	if o.k == 0 {
		return "ok -"
	}
	if o.k == 1 && o.variant%2 == 1 {
		// First: an empty list is an error of First itself, not of the list
		if v, err := l.First(st); err == nil {
			return "ok " + memoShow([]value.Value{v})
		}
		// fall through to the plain iteration to classify
		st = stackWithFree(o.free)
	}
	for v, err := range l.Iterate(st) {
		if err != nil {
			return "item " + memoShow(got)
		}
		got = append(got, v)
		if len(got) >= o.k {
			break
		}
	}
	return "ok " + memoShow(got)
}

func memoItemsField(items []memoItem) string {
	if len(items) == 0 {
		return "-"
	}
	var s []string
	for _, it := range items {
		b := 0
		if it.bad {
			b = 1
		}
		s = append(s, fmt.Sprintf("%d:%d:%d", it.val, it.need, b))
	}
	return strings.Join(s, " ")
}

func c10MemoCells(c *Ctx) {
	n := c.Pick(1500, 60000)
	frees := []int{0, 1, 2, 3, 4, 7, 60}
	type pending struct {
		desc     string
		items    []memoItem
		ops      []memoOp
		outcomes []string
		cached   bool
		lib      bool
	}
	var pend []pending
	var reqs []string
	hiddenReported := 0
	mkCell := func(i int) (string, []memoItem, func() *value.List, bool) {
		if i%5 == 4 {
			lc := memoLibCells[(i/5)%len(memoLibCells)]
			return lc.src, lc.items, func() *value.List { return libCell(lc.src) }, true
		}
		cnt := c.rng.Intn(7)
		items := make([]memoItem, cnt)
		for j := range items {
			items[j] = memoItem{val: c.rng.Intn(90) + 1, need: []int{0, 0, 1, 2, 3, 5}[c.rng.Intn(6)]}
		}
		if cnt > 0 && c.rng.Intn(4) == 0 {
			items[c.rng.Intn(cnt)].bad = true
		}
		clean := true
		for _, it := range items {
			clean = clean && !it.bad
		}
		sized := clean && c.rng.Intn(3) == 0
		return fmt.Sprintf("host cell (sized=%v)", sized), items, func() *value.List { return hostCell(items, sized) }, false
	}
	for i := 0; i < n; i++ {
		desc, items, build, lib := mkCell(i)
		maxNeed := 0
		for _, it := range items {
			if it.need > maxNeed {
				maxNeed = it.need
			}
		}
		nOps := 2 + c.rng.Intn(10)
		ops := make([]memoOp, nOps)
		for j := range ops {
			free := frees[c.rng.Intn(len(frees))]
			if c.rng.Intn(3) == 0 {
				free = maxNeed - 1 + c.rng.Intn(2) // at the limit of this cell
				if free < 0 {
					free = 0
				}
			}
			ops[j] = memoOp{force: c.rng.Intn(2) == 0, free: free, k: c.rng.Intn(len(items) + 2), variant: c.rng.Intn(8)}
		}
		shared := build()
		var outs []string
		failed, forcedOK, hidden := false, false, false
		for j, o := range ops {
			out := memoApply(shared, o)
			outs = append(outs, out)
			if strings.HasPrefix(out, "overflow") || strings.HasPrefix(out, "item") {
				failed = true
			}
			if o.force && strings.HasPrefix(out, "ok") {
				forcedOK = true
			}
			// the property predicate, on the implementation alone: the same operation on an untouched list
			iso := memoApply(build(), o)
			c.Count("memo:op")
			if out != iso {
				roomy := o
				roomy.free = 100
				if strings.HasPrefix(iso, "overflow") && o.free < maxNeed && out == memoApply(build(), roomy) {
					// the open finding, and nothing else: the untouched list makes THIS operation run out of value stack, and
					// the shared list shows exactly what the untouched one shows with enough stack
					hidden = true
					c.Count("memo:overflow-hidden-by-cache")
					if hiddenReported++; hiddenReported > 5 {
						continue // the open finding is reported a few times, counted always
					}
					c.Violation("stack-limit-hidden-by-materialised-list", "an operation that runs out of value stack on an untouched list succeeds on a list an earlier operation has materialised",
						map[string]any{"cell": desc, "items": memoItemsField(items), "operation": o.String(), "outcome": out, "isolated": iso})
					continue
				}
				var hs []string
				for _, p := range ops[:j] {
					hs = append(hs, p.String())
				}
				c.disagree++
				c.Violation("evaluation-depends-on-history", "an operation on a shared lazy list differs from the same operation on an untouched list",
					map[string]any{"cell": desc, "items": memoItemsField(items), "history": strings.Join(hs, " "), "operation": o.String(), "variant": o.variant, "outcome": out, "isolated": iso})
				break
			}
		}
		_, _, present := shared.VerifState()
		var opStr []string
		for _, o := range ops {
			opStr = append(opStr, o.String())
		}
		c.Case("memo|"+desc+"|"+memoItemsField(items)+"|"+strings.Join(opStr, " "), len(items) >= 2 && failed && forcedOK)
		if hidden {
			c.Count("memo:history-with-hidden-overflow")
		}
		if len(outs) == len(ops) {
			reqs = append(reqs, "MEMO\t"+memoItemsField(items)+"\t"+strings.Join(opStr, " "))
			pend = append(pend, pending{desc, items, ops, outs, present, lib})
		}
	}
	resp := c.Model(reqs)
	agree := 0
	for i, r := range resp {
		p := pend[i]
		f := strings.Split(r, "\t")
		want := strings.Join(p.outcomes, "|")
		state := "lazy"
		if p.cached {
			state = "cached"
		}
		if len(f) != 2 || f[0] != want || f[1] != state {
			var opStr []string
			for _, o := range p.ops {
				opStr = append(opStr, o.String())
			}
			c.Broken("corr:MEMO", "model and implementation differ on a history of operations on one shared lazy list",
				map[string]any{"cell": p.desc, "items": memoItemsField(p.items), "history": strings.Join(opStr, " "), "implementation": want + " / " + state, "model": r})
			continue
		}
		agree++
	}
	c.extra["memo_histories_compared_with_model"] = agree
}
