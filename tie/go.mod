module verif/tie

go 1.25.0

require (
	github.com/hneemann/iterator v0.0.0-20251109063853-cd388faef942
	github.com/hneemann/parser2 v0.0.0
)

replace github.com/hneemann/parser2 => /repo
