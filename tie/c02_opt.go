package main

// C02, correspondence of the optimizer model (request OPT): the tree the real parser + default
// optimizer hand to the generator is compared with `P2.Lang.Opt.optimize` applied to the tree the
// parser produces without an optimizer.

import (
	"fmt"
	"sort"
	"strings"

	"github.com/hneemann/parser2"
	"github.com/hneemann/parser2/funcGen"
	"github.com/hneemann/parser2/value"
)

// optDump is astDump for optimized trees: a Const may hold a materialised list, a map or a closure.
// Conventions shared with lean/P2/Driver/LangOpt.lean: a constant closure is `kclo <arity>`, the
// entries of a constant map are sorted by key. A constant that has no literal form (lazy list,
// host value) sets unmodelled.
type optDump struct {
	b          strings.Builder
	unmodelled string
	consts     int // Const nodes holding a list, map or closure
	// a map literal of constant forms is dumped sorted by key as well (the optimizer does not visit
	// case constants, so such a literal survives there; the model cannot tell it from a constant)
	sortConstMaps bool
}

// isConstForm: a constant, or a list / map literal of constant forms
func isConstForm(a parser2.AST) bool {
	switch n := a.(type) {
	case *parser2.Const[value.Value]:
		return true
	case *parser2.ListLiteral:
		for _, x := range n.List {
			if !isConstForm(x) {
				return false
			}
		}
		return true
	case *parser2.MapLiteral:
		ok := true
		n.Map.Iter(func(key string, v parser2.AST) bool {
			ok = ok && isConstForm(v)
			return ok
		})
		return ok
	}
	return false
}

func (d *optDump) tok(s ...string) {
	for _, x := range s {
		if d.b.Len() > 0 {
			d.b.WriteByte(' ')
		}
		d.b.WriteString(x)
	}
}

func (d *optDump) bad(why string) {
	if d.unmodelled == "" {
		d.unmodelled = why
	}
	d.tok("c", "i", "0")
}

func (d *optDump) constValue(v value.Value, top bool) {
	switch x := v.(type) {
	case value.Int:
		d.tok("c", "i", fmt.Sprint(int64(x)))
	case value.Float:
		d.tok("c", "f", fmt.Sprintf("%016x", floatBitsCanon(float64(x))))
	case value.String:
		d.tok("c", "s", cps(string(x)))
	case value.Bool:
		if x {
			d.tok("c", "b", "1")
		} else {
			d.tok("c", "b", "0")
		}
	case *value.List:
		if top {
			d.consts++
		}
		if _, _, present := x.VerifState(); !present {
			d.bad("constant lazy list")
			return
		}
		items, err := x.ToSlice(funcGen.NewEmptyStack[value.Value]())
		if err != nil {
			d.bad("constant list fails")
			return
		}
		d.tok("list", itoa(len(items)))
		for _, it := range items {
			d.constValue(it, false)
		}
	case value.Map:
		if top {
			d.consts++
		}
		type kv struct {
			k string
			v value.Value
		}
		var kvs []kv
		x.Iter(func(key string, val value.Value) bool {
			kvs = append(kvs, kv{key, val})
			return true
		})
		sort.Slice(kvs, func(i, j int) bool { return kvs[i].k < kvs[j].k })
		d.tok("map", itoa(len(kvs)))
		for _, e := range kvs {
			d.tok(cps(e.k))
			d.constValue(e.v, false)
		}
	case value.Closure:
		if top {
			d.consts++
		}
		d.tok("kclo", itoa(x.Args))
	default:
		d.bad(fmt.Sprintf("const of type %T", v))
	}
}

func (d *optDump) dump(a parser2.AST) {
	switch n := a.(type) {
	case *parser2.Const[value.Value]:
		d.constValue(n.Value, true)
	case *parser2.Ident:
		d.tok("id", cps(n.Name))
	case *parser2.Let:
		d.tok("let", cps(n.Name))
		d.dump(n.Value)
		d.dump(n.Inner)
	case *parser2.If:
		d.tok("if")
		d.dump(n.Cond)
		d.dump(n.Then)
		d.dump(n.Else)
	case *parser2.Switch[value.Value]:
		d.tok("sw", itoa(len(n.Cases)))
		d.dump(n.SwitchValue)
		for _, c := range n.Cases {
			d.dump(c.CaseConst)
			d.dump(c.Value)
		}
		d.dump(n.Default)
	case *parser2.TryCatch:
		d.tok("try")
		d.dump(n.Try)
		d.dump(n.Catch)
	case *parser2.Unary:
		d.tok("un", cps(n.Operator))
		d.dump(n.Value)
	case *parser2.Operate:
		d.tok("op", cps(n.Operator))
		d.dump(n.A)
		d.dump(n.B)
	case *parser2.ClosureLiteral:
		d.tok("clo", itoa(len(n.Names)))
		for _, x := range n.Names {
			d.tok(cps(x))
		}
		d.tok(itoa(len(n.OuterIdents)))
		for _, x := range n.OuterIdents {
			d.tok(cps(x))
		}
		if n.Recursive {
			d.tok("1")
		} else {
			d.tok("0")
		}
		d.tok(cps(n.ThisName))
		d.dump(n.Func)
	case *parser2.ListLiteral:
		d.tok("list", itoa(len(n.List)))
		for _, x := range n.List {
			d.dump(x)
		}
	case *parser2.ListAccess:
		d.tok("idx")
		d.dump(n.Index)
		d.dump(n.List)
	case *parser2.MapLiteral:
		d.tok("map", itoa(n.Map.Size()))
		type kv struct {
			k string
			v parser2.AST
		}
		var kvs []kv
		n.Map.Iter(func(key string, v parser2.AST) bool {
			kvs = append(kvs, kv{key, v})
			return true
		})
		if d.sortConstMaps && isConstForm(n) {
			sort.SliceStable(kvs, func(i, j int) bool { return kvs[i].k < kvs[j].k })
		}
		for _, e := range kvs {
			d.tok(cps(e.k))
			d.dump(e.v)
		}
	case *parser2.MapAccess:
		d.tok("mem", cps(n.Key))
		d.dump(n.MapValue)
	case *parser2.FunctionCall:
		d.tok("call", itoa(len(n.Args)))
		d.dump(n.Func)
		for _, x := range n.Args {
			d.dump(x)
		}
	case *parser2.MethodCall:
		d.tok("meth", cps(n.Name), itoa(len(n.Args)))
		d.dump(n.Value)
		for _, x := range n.Args {
			d.dump(x)
		}
	default:
		d.bad(fmt.Sprintf("node %T", a))
	}
}

// c02OptCase is one program of the OPT correspondence.
type c02OptCase struct {
	src      string
	names    []string
	request  string
	implOpt  string // dump of the tree the real parser + optimizer produce
	implRaw  string // dump of the tree without optimizer
	skip     string // reason the program is not compared
	violated bool   // the property predicate already failed on this program
}

// c02OptPrepare parses the program with and without the default optimizer (the generators carry the
// harness' counting functions, which the model gets as extra static signatures).
func c02OptPrepare(src string, names []string) *c02OptCase {
	oc := &c02OptCase{src: src, names: names}
	var lg tickLog
	fgOn, fgOff := newCountingFG(true, &lg), newCountingFG(false, &lg)
	raw, e1 := parseUnoptimized(fgOff, src, names)
	opt, e2 := parseUnoptimized(fgOn, src, names)
	if e1 != nil || e2 != nil {
		if (e1 == nil) != (e2 == nil) {
			oc.skip = "parse-differs"
		} else {
			oc.skip = "parse-error"
		}
		return oc
	}
	var dr, do optDump
	do.sortConstMaps = true
	dr.dump(raw)
	do.dump(opt)
	oc.implRaw, oc.implOpt = dr.b.String(), do.b.String()
	if dr.unmodelled != "" {
		oc.skip = "raw-tree: " + dr.unmodelled
		return oc
	}
	if do.unmodelled != "" {
		oc.skip = "go-const: " + do.unmodelled
	}
	var nb strings.Builder
	for i, n := range names {
		if i > 0 {
			nb.WriteByte(' ')
		}
		nb.WriteString(cps(n))
	}
	extra := cps("tickI") + ":1:0 " + cps("tickP") + ":1:1 " + cps(".tickM") + ":1:0" // ".name" = a host METHOD declared impure
	oc.request = fmt.Sprintf("OPT\tfixed\t%s\t%s\t%s", nb.String(), extra, oc.implRaw)
	return oc
}

// c02OptCompare sends the prepared programs to the model and compares the trees.
func c02OptCompare(c *Ctx, cases []*c02OptCase) {
	var reqs []string
	var kept []*c02OptCase
	seen := map[string]bool{}
	for _, oc := range cases {
		if seen[oc.src+"\x00"+strings.Join(oc.names, ",")] {
			continue
		}
		seen[oc.src+"\x00"+strings.Join(oc.names, ",")] = true
		if oc.request == "" {
			c.Count("opt:skipped:" + oc.skip)
			if oc.skip == "parse-differs" {
				c.Violation("optimizer-changes-parse-result", "the program parses with the optimizer only, or without it only", map[string]any{"program": oc.src})
			}
			continue
		}
		reqs = append(reqs, oc.request)
		kept = append(kept, oc)
	}
	resp := c.Model(reqs)
	compared, changedGo, changedModel, unmodelled := 0, 0, 0, 0
	for i, r := range resp {
		oc := kept[i]
		f := strings.Split(r, "\t")
		switch {
		case len(f) == 2 && f[0] == "UNMODELLED":
			unmodelled++
			c.Count("opt:unmodelled:" + f[1])
			continue
		case len(f) == 3 && f[0] == "OK":
		default:
			c.Broken("corr:OPT", "model driver rejected the request: "+r, map[string]any{"program": oc.src, "request": oc.request})
			continue
		}
		if oc.skip != "" {
			// the model is sure of its tree, but the real constant has no literal form
			unmodelled++
			c.Count("opt:unmodelled:" + oc.skip)
			continue
		}
		if strings.Contains(f[2], "60.101.114.114.111.114.62") && !strings.Contains(oc.implRaw, "60.101.114.114.111.114.62") {
			// a constant folded from the TEXT of an implementation-raised error (try … catch e -> e + 1): the model abstracts
			// such texts as "<error>", so the two constants are not comparable
			unmodelled++
			c.Count("opt:unmodelled:error-text-abstracted")
			continue
		}
		compared++
		if oc.implOpt != oc.implRaw {
			changedGo++
		}
		if f[1] == "1" {
			changedModel++
		}
		if f[2] != oc.implOpt {
			if oc.violated {
				c.Count("opt:differs-on-violating-program")
				continue
			}
			c.Broken("corr:OPT", "the optimized tree of the implementation differs from the model's optimize",
				map[string]any{"program": oc.src, "arg_names": oc.names, "tree_unoptimized": oc.implRaw, "tree_implementation": oc.implOpt, "tree_model": f[2]})
		}
	}
	c.extra["opt_programs_compared"] = compared
	c.extra["opt_programs_changed_by_optimizer_impl"] = changedGo
	c.extra["opt_programs_changed_by_optimizer_model"] = changedModel
	c.extra["opt_programs_unmodelled"] = unmodelled
}
