package main

// Tie 1 (C12): where the library starts goroutines of its own, and that Parse drains the tokenizer it starts. The process
// model P2.Proc has exactly two kinds of goroutines owned by parser2 itself — the tokenizer started by Parser.Parse (ended by
// the deferred Drain, whatever way Parse returns) and the consumers of multiUse — everything else belongs to the external
// iterator library (parallel stages, merge), which the model treats through its stop protocol. go/ast over every package of
// the repository.

import (
	"fmt"
	"go/ast"
	"go/parser"
	"go/token"
	"os"
	"path/filepath"
	"sort"
	"strings"
)

func init() { extractors = append(extractors, extractGoSites) }

func extractGoSites() {
	fset := token.NewFileSet()
	var goSites, startSites, closeSites []string
	drainRightAfterStart := false
	returnsBeforeDrain := -1
	multiUseReturnsBetween := -1
	multiUseRunArg := ""
	var files []string
	filepath.Walk(repoRoot, func(path string, info os.FileInfo, err error) error {
		if err != nil {
			return nil
		}
		if info.IsDir() {
			if strings.HasPrefix(info.Name(), ".") && path != repoRoot {
				return filepath.SkipDir
			}
			return nil
		}
		if strings.HasSuffix(path, ".go") && !strings.HasSuffix(path, "_test.go") && !strings.HasSuffix(path, "_verif.go") {
			files = append(files, path)
		}
		return nil
	})
	sort.Strings(files)
	for _, path := range files {
		f, err := parser.ParseFile(fset, path, nil, 0)
		if err != nil {
			fatal("extract go sites: %v", err)
		}
		rel, _ := filepath.Rel(repoRoot, path)
		for _, d := range f.Decls {
			fd, ok := d.(*ast.FuncDecl)
			if !ok || fd.Body == nil {
				continue
			}
			fname := fd.Name.Name
			if fd.Recv != nil && len(fd.Recv.List) == 1 {
				t := strings.TrimPrefix(exprText(fset, fd.Recv.List[0].Type), "*")
				if i := strings.Index(t, "["); i >= 0 {
					t = t[:i]
				}
				fname = t + "." + fname
			}
			ast.Inspect(fd.Body, func(n ast.Node) bool {
				switch x := n.(type) {
				case *ast.GoStmt:
					// what is started, without the name of the variable it is called on: `t.run` and `tok.run` are the same fact
					callee := oneLine(exprText(fset, x.Call.Fun))
					if sel, ok := x.Call.Fun.(*ast.SelectorExpr); ok {
						if _, plain := sel.X.(*ast.Ident); plain {
							callee = "." + sel.Sel.Name
						}
					}
					goSites = append(goSites, fmt.Sprintf("%s|%s|%s", rel, fname, callee))
				case *ast.CallExpr:
					if sel, ok := x.Fun.(*ast.SelectorExpr); ok && sel.Sel.Name == "Start" && strings.Contains(exprText(fset, sel.X), "NewTokenizer(") {
						startSites = append(startSites, rel+"|"+fname)
					}
					if id, ok := x.Fun.(*ast.Ident); ok && id.Name == "close" && len(x.Args) == 1 {
						arg := exprText(fset, x.Args[0])
						if sel, ok := x.Args[0].(*ast.SelectorExpr); ok { // the channel FIELD, not the name of the variable
							arg = "." + sel.Sel.Name
						} else if _, ok := x.Args[0].(*ast.Ident); ok {
							arg = "<chan>"
						}
						closeSites = append(closeSites, fmt.Sprintf("%s|%s|%s", rel, fname, arg))
					}
				}
				return true
			})
			if rel == "value/multiUse.go" && fname == "List.MultiUse" {
				// once a consumer is started the source has to be run: no return between the first `go` and the call of run
				var goPos, runPos token.Pos
				ast.Inspect(fd.Body, func(n ast.Node) bool {
					switch x := n.(type) {
					case *ast.GoStmt:
						if goPos == 0 {
							goPos = x.Pos()
						}
					case *ast.CallExpr:
						if id, ok := x.Fun.(*ast.Ident); ok && id.Name == "run" && runPos == 0 {
							runPos = x.Pos()
							if len(x.Args) == 1 {
								// the shape of the argument: which wrapper around which method of which kind of value, not the variable names
								multiUseRunArg = oneLine(exprText(fset, x.Args[0]))
								if call, ok := x.Args[0].(*ast.CallExpr); ok && len(call.Args) == 1 {
									inner := "?"
									if ic, ok := call.Args[0].(*ast.CallExpr); ok {
										if sel, ok := ic.Fun.(*ast.SelectorExpr); ok {
											inner = "<list>." + sel.Sel.Name + "(…)"
										}
									}
									multiUseRunArg = oneLine(exprText(fset, call.Fun)) + "(" + inner + ")"
								}
							}
						}
					}
					return true
				})
				multiUseReturnsBetween = 0
				ast.Inspect(fd.Body, func(n ast.Node) bool {
					if r, ok := n.(*ast.ReturnStmt); ok && goPos != 0 && runPos != 0 && r.Pos() > goPos && r.Pos() < runPos {
						multiUseReturnsBetween++
					}
					return true
				})
				if goPos == 0 || runPos == 0 || runPos < goPos {
					multiUseReturnsBetween = -1
				}
			}
			if rel == "parser2.go" && fname == "Parser.Parse" {
				// the statement that starts the tokenizer, and what follows it
				for i, s := range fd.Body.List {
					t := oneLine(nodeText(fset, s))
					if strings.HasPrefix(t, "tokenizer := NewTokenizer(") && strings.HasSuffix(t, "Start()") {
						if i+1 < len(fd.Body.List) && oneLine(nodeText(fset, fd.Body.List[i+1])) == "defer tokenizer.Drain()" {
							drainRightAfterStart = true
						}
						// return statements before the tokenizer is started cannot strand it; count those between start and defer
						returnsBeforeDrain = 0
					}
				}
			}
		}
	}
	strs := func(l []string) string {
		var q []string
		for _, s := range l {
			q = append(q, leanStr(s))
		}
		return "[" + strings.Join(q, ",\n  ") + "]"
	}
	var b strings.Builder
	b.WriteString("/-! GENERATED by `tie extract` (go/ast over every package of the repository, tests and verif hooks excluded): the `go`\nstatements, the sites that start a tokenizer, the `close` calls, and whether `Parser.Parse` defers `Drain()` directly behind\nthe statement that starts its tokenizer. Entries are `file|function|expression`. Do not edit. -/\nnamespace P2.Generated\n\n")
	fmt.Fprintf(&b, "def goStatements : List String := %s\n\n", strs(goSites))
	fmt.Fprintf(&b, "def tokenizerStartSites : List String := %s\n\n", strs(startSites))
	fmt.Fprintf(&b, "def channelCloseSites : List String := %s\n\n", strs(closeSites))
	fmt.Fprintf(&b, "def parseDefersDrainBehindStart : Bool := %v\n\n", drainRightAfterStart && returnsBeforeDrain == 0)
	fmt.Fprintf(&b, "/-- return statements of `List.MultiUse` between the first `go` statement and the call of `run` (-1: shape not found) -/\ndef multiUseReturnsBetweenGoAndRun : Int := %d\n\n/-- what `List.MultiUse` hands to `run` -/\ndef multiUseRunArg : String := %s\n\n", multiUseReturnsBetween, leanStr(multiUseRunArg))
	b.WriteString("end P2.Generated\n")
	writeIfChanged(genPath("GoSites.lean"), []byte(b.String()))
}
