package main

// Tie 1 (C05, panic containment): where user code runs on a goroutine other than the caller's, and which deferred recover
// stands at the root of it. go/ast over every package of the repository (tests and verif hooks excluded) and over the source
// of the external iterator library in the module cache:
//
//   - every deferred function that calls recover(): is recover() called DIRECTLY in the deferred function (Go's rule: only
//     then it stops the panic; called in a helper it returns nil), what is done with the recovered value, and which calls the
//     enclosing function makes in front of the defer statement;
//   - every `go` statement and the deferred recover at the root of the function it starts;
//   - the library's goroutine-running entry points: for every function of the library the parameters whose code ends up
//     running on a goroutine the library starts ("yield" = the consumer of the producer it returns), computed as a fixed
//     point over its `go` statements and its internal calls;
//   - every argument the repository hands to such a parameter, and the deferred recover that protects it (the worker closure a
//     mapper factory returns; the wrapper chain around a producer, e.g. stoppable(recoverProducer(…)));
//   - autoParallelStage: the consumer wrapper handed to the stage, the variable it stores the panic in, and whether that
//     variable is raised again behind the call of the stage; the source wrapped in recoverProducer;
//   - the recover of the generated function (generateIntern), of the try frame (GenerateCustom) and of ToHtml.
//
// Identification is structural (names of declared functions, parameters by position and role), not textual: local variable
// names, formatting and comments do not matter.

import (
	"fmt"
	"go/ast"
	"go/parser"
	"go/token"
	"os"
	"os/exec"
	"path/filepath"
	"sort"
	"strings"
)

func init() { extractors = append(extractors, extractRecoverSites) }

type rcFunc struct { // a function (declaration or literal) with what is needed to classify a deferred recover in it
	typ  *ast.FuncType
	body *ast.BlockStmt
}

type rcDefer struct {
	key         string
	form        string // direct | indirect
	conv        string // errResult | errItem | storeReraise | rethrow | swallow
	callsBefore []string
	owner       *ast.BlockStmt // body of the function whose defer it is
	stored      string         // storeReraise: the variable
}

// calls made in a node, nested function literals excluded; names are `f` for identifiers and `.m` for selectors
func rcCalls(n ast.Node, into *[]string) {
	ast.Inspect(n, func(x ast.Node) bool {
		switch c := x.(type) {
		case *ast.FuncLit:
			return false
		case *ast.CallExpr:
			*into = append(*into, rcCallName(c.Fun))
		}
		return true
	})
}

func rcCallName(fun ast.Expr) string {
	switch f := fun.(type) {
	case *ast.Ident:
		return f.Name
	case *ast.SelectorExpr:
		return "." + f.Sel.Name
	case *ast.IndexExpr:
		return rcCallName(f.X)
	case *ast.IndexListExpr:
		return rcCallName(f.X)
	case *ast.ParenExpr:
		return rcCallName(f.X)
	case *ast.FuncLit:
		return "<literal>"
	}
	return "<expr>"
}

// does the node call recover() outside nested function literals
func rcCallsRecover(n ast.Node) bool {
	found := false
	ast.Inspect(n, func(x ast.Node) bool {
		switch c := x.(type) {
		case *ast.FuncLit:
			return false
		case *ast.CallExpr:
			if id, ok := c.Fun.(*ast.Ident); ok && id.Name == "recover" && len(c.Args) == 0 {
				found = true
			}
		}
		return true
	})
	return found
}

func rcMentions(n ast.Node, name string) bool {
	if name == "" || n == nil {
		return false
	}
	found := false
	ast.Inspect(n, func(x ast.Node) bool {
		if id, ok := x.(*ast.Ident); ok && id.Name == name {
			found = true
		}
		return true
	})
	return found
}

func rcFieldNames(fl *ast.FieldList) map[string]ast.Expr {
	m := map[string]ast.Expr{}
	if fl == nil {
		return m
	}
	for _, f := range fl.List {
		for _, n := range f.Names {
			m[n.Name] = f.Type
		}
	}
	return m
}

// rcClassify: what the body of a deferred function does with the recovered value. owner = the function whose defer it is,
// outer = the functions around it (their parameters are callbacks like yield/done too).
func rcClassify(body *ast.BlockStmt, owner rcFunc, outer []rcFunc) (conv, stored string) {
	recName := ""
	ast.Inspect(body, func(x ast.Node) bool {
		if _, ok := x.(*ast.FuncLit); ok {
			return false
		}
		if as, ok := x.(*ast.AssignStmt); ok && len(as.Lhs) == 1 && len(as.Rhs) == 1 {
			if c, ok := as.Rhs[0].(*ast.CallExpr); ok {
				if id, ok := c.Fun.(*ast.Ident); ok && id.Name == "recover" {
					if l, ok := as.Lhs[0].(*ast.Ident); ok {
						recName = l.Name
					}
				}
			}
		}
		return true
	})
	results := rcFieldNames(owner.typ.Results)
	params := rcFieldNames(owner.typ.Params)
	for _, o := range outer {
		for k, v := range rcFieldNames(o.typ.Params) {
			if _, ok := params[k]; !ok {
				params[k] = v
			}
		}
	}
	rethrow, store, errRes, errItem := false, false, false, false
	ast.Inspect(body, func(x ast.Node) bool {
		switch s := x.(type) {
		case *ast.FuncLit:
			return false
		case *ast.CallExpr:
			if id, ok := s.Fun.(*ast.Ident); ok {
				if id.Name == "panic" {
					rethrow = true
				} else if _, isParam := params[id.Name]; isParam {
					for _, a := range s.Args {
						if rcMentions(a, recName) {
							errItem = true
						}
					}
				}
			}
		case *ast.AssignStmt:
			if s.Tok == token.DEFINE {
				return true
			}
			for i, l := range s.Lhs {
				var rhs ast.Expr
				if len(s.Rhs) == len(s.Lhs) {
					rhs = s.Rhs[i]
				} else if len(s.Rhs) == 1 {
					rhs = s.Rhs[0]
				}
				if !rcMentions(rhs, recName) {
					continue
				}
				switch lv := l.(type) {
				case *ast.Ident:
					if t, ok := results[lv.Name]; ok {
						if id, ok := t.(*ast.Ident); ok && id.Name == "error" {
							errRes = true
						} else {
							errItem = true
						}
					} else {
						store = true
						stored = lv.Name
					}
				case *ast.StarExpr: // *e = …: an error handed back through a pointer parameter
					if id, ok := lv.X.(*ast.Ident); ok {
						if _, isParam := params[id.Name]; isParam {
							errRes = true
						}
					}
				}
			}
		}
		return true
	})
	switch {
	case rethrow:
		return "rethrow", ""
	case store:
		return "storeReraise", stored
	case errRes:
		return "errResult", ""
	case errItem:
		return "errItem", ""
	}
	return "swallow", ""
}

type rcRepo struct {
	fset   *token.FileSet
	decls  map[string][]*ast.FuncDecl // by plain name
	defers []*rcDefer
	byBody map[*ast.BlockStmt][]*rcDefer // deferred recovers by the body of the function that owns them
}

func rcDeclName(fset *token.FileSet, fd *ast.FuncDecl) string {
	name := fd.Name.Name
	if fd.Recv != nil && len(fd.Recv.List) == 1 {
		t := strings.TrimPrefix(exprText(fset, fd.Recv.List[0].Type), "*")
		if i := strings.Index(t, "["); i >= 0 {
			t = t[:i]
		}
		name = t + "." + name
	}
	return name
}

// the recover-defer that guards a function body: a deferred recover that is a top-level statement of the body
func (r *rcRepo) guard(body *ast.BlockStmt) *rcDefer {
	if body == nil {
		return nil
	}
	if l := r.byBody[body]; len(l) > 0 {
		return l[0]
	}
	return nil
}

func (r *rcRepo) uniqueDecl(name string) *ast.FuncDecl {
	if l := r.decls[name]; len(l) == 1 {
		return l[0]
	}
	return nil
}

// the function literal a function returns (top-level return statement of its body)
func rcReturnedLit(body *ast.BlockStmt) *ast.FuncLit {
	if body == nil {
		return nil
	}
	for _, s := range body.List {
		if rs, ok := s.(*ast.ReturnStmt); ok && len(rs.Results) >= 1 {
			if fl, ok := rs.Results[0].(*ast.FuncLit); ok {
				return fl
			}
		}
	}
	return nil
}

// ---- the iterator library: which parameters run on a goroutine the library starts ----

func rcLibraryRemote(dir string) (map[string][]string, map[string][]string) {
	fset := token.NewFileSet()
	pkgFiles, _ := filepath.Glob(filepath.Join(dir, "*.go"))
	sort.Strings(pkgFiles)
	decls := map[string]*ast.FuncDecl{}
	funcTypes := map[string]bool{}
	for _, p := range pkgFiles {
		if strings.HasSuffix(p, "_test.go") {
			continue
		}
		f, err := parser.ParseFile(fset, p, nil, 0)
		if err != nil {
			fatal("extract recover sites: library: %v", err)
		}
		for _, d := range f.Decls {
			switch x := d.(type) {
			case *ast.FuncDecl:
				if x.Recv == nil && x.Body != nil {
					decls[x.Name.Name] = x
				}
			case *ast.GenDecl:
				for _, sp := range x.Specs {
					if ts, ok := sp.(*ast.TypeSpec); ok {
						if _, ok := ts.Type.(*ast.FuncType); ok {
							funcTypes[ts.Name.Name] = true
						}
					}
				}
			}
		}
	}
	if len(decls) == 0 {
		fatal("extract recover sites: no source of the iterator library in %s", dir)
	}
	isCallable := func(t ast.Expr) bool {
		for {
			switch x := t.(type) {
			case *ast.FuncType:
				return true
			case *ast.Ident:
				return funcTypes[x.Name]
			case *ast.IndexExpr:
				t = x.X
				continue
			case *ast.IndexListExpr:
				t = x.X
				continue
			}
			return false
		}
	}
	params := map[string][]string{} // declaration order, callable ones only; positions kept in pos
	pos := map[string]map[string]int{}
	tracked := map[string]map[string]string{} // function -> identifier -> the tracked parameter it stands for
	for name, fd := range decls {
		pos[name] = map[string]int{}
		tracked[name] = map[string]string{}
		i := 0
		for _, f := range fd.Type.Params.List {
			for _, n := range f.Names {
				if isCallable(f.Type) {
					params[name] = append(params[name], n.Name)
					tracked[name][n.Name] = n.Name
				}
				pos[name][n.Name] = i
				i++
			}
		}
		if fl := rcReturnedLit(fd.Body); fl != nil {
			for _, f := range fl.Type.Params.List {
				for _, n := range f.Names {
					if isCallable(f.Type) {
						tracked[name][n.Name] = "yield"
					}
				}
			}
		}
		// x := f() / x := f with f tracked: x stands for f
		ast.Inspect(fd.Body, func(x ast.Node) bool {
			if as, ok := x.(*ast.AssignStmt); ok && len(as.Lhs) == 1 && len(as.Rhs) == 1 {
				var src *ast.Ident
				switch r := as.Rhs[0].(type) {
				case *ast.Ident:
					src = r
				case *ast.CallExpr:
					src, _ = r.Fun.(*ast.Ident)
				}
				if l, ok := as.Lhs[0].(*ast.Ident); ok && src != nil {
					if t, ok := tracked[name][src.Name]; ok {
						tracked[name][l.Name] = t
					}
				}
			}
			return true
		})
	}
	remote := map[string]map[string]bool{}
	for name := range decls {
		remote[name] = map[string]bool{}
	}
	calleeName := func(c *ast.CallExpr) string {
		n := rcCallName(c.Fun)
		if _, ok := decls[n]; ok {
			return n
		}
		return ""
	}
	paramAt := func(fn string, i int) string {
		for n, p := range pos[fn] {
			if p == i {
				return n
			}
		}
		return ""
	}
	for changed := true; changed; {
		changed = false
		mark := func(fn string, n ast.Node) {
			ast.Inspect(n, func(x ast.Node) bool {
				if id, ok := x.(*ast.Ident); ok {
					if t, ok := tracked[fn][id.Name]; ok && !remote[fn][t] {
						remote[fn][t] = true
						changed = true
					}
				}
				return true
			})
		}
		for name, fd := range decls {
			// producers whose consumer runs on a library goroutine: x := G(…) with "yield" remote in G
			remoteProd := map[string]bool{}
			ast.Inspect(fd.Body, func(x ast.Node) bool {
				if as, ok := x.(*ast.AssignStmt); ok && len(as.Lhs) == 1 && len(as.Rhs) == 1 {
					if c, ok := as.Rhs[0].(*ast.CallExpr); ok {
						if g := calleeName(c); g != "" && remote[g]["yield"] {
							if l, ok := as.Lhs[0].(*ast.Ident); ok {
								remoteProd[l.Name] = true
							}
						}
					}
				}
				return true
			})
			ast.Inspect(fd.Body, func(x ast.Node) bool {
				switch s := x.(type) {
				case *ast.GoStmt:
					mark(name, s.Call)
				case *ast.RangeStmt:
					if id, ok := s.X.(*ast.Ident); ok && remoteProd[id.Name] {
						mark(name, s.Body)
					}
					if c, ok := s.X.(*ast.CallExpr); ok {
						if g := calleeName(c); g != "" && remote[g]["yield"] {
							mark(name, s.Body)
						}
					}
				case *ast.CallExpr:
					if id, ok := s.Fun.(*ast.Ident); ok && remoteProd[id.Name] {
						for _, a := range s.Args {
							mark(name, a)
						}
					}
					if g := calleeName(s); g != "" {
						for i, a := range s.Args {
							if p := paramAt(g, i); p != "" && remote[g][p] {
								mark(name, a)
							}
						}
					}
				}
				return true
			})
		}
	}
	res := map[string][]string{}
	for name := range decls {
		var l []string
		for _, p := range params[name] {
			if remote[name][p] {
				l = append(l, p)
			}
		}
		if remote[name]["yield"] {
			dup := false
			for _, p := range l {
				dup = dup || p == "yield"
			}
			if !dup {
				l = append(l, "yield")
			}
		}
		if len(l) > 0 {
			res[name] = l
		}
	}
	allParams := map[string][]string{}
	for name := range decls {
		byPos := make([]string, len(pos[name]))
		for n, p := range pos[name] {
			byPos[p] = n
		}
		allParams[name] = byPos
	}
	return res, allParams
}

func rcLibraryDir() (string, string) {
	cmd := exec.Command("go", "list", "-m", "-f", "{{.Dir}}|{{.Version}}", "github.com/hneemann/iterator")
	cmd.Dir = filepath.Join(verifRoot, "tie")
	cmd.Env = append(os.Environ(), "GOFLAGS=-mod=mod", "GOPROXY=off")
	out, err := cmd.Output()
	if err != nil {
		fatal("extract recover sites: cannot locate the iterator library: %v", err)
	}
	parts := strings.SplitN(strings.TrimSpace(string(out)), "|", 2)
	if len(parts) != 2 || parts[0] == "" {
		fatal("extract recover sites: cannot locate the iterator library: %q", out)
	}
	return parts[0], parts[1]
}

func extractRecoverSites() {
	fset := token.NewFileSet()
	repo := &rcRepo{fset: fset, decls: map[string][]*ast.FuncDecl{}, byBody: map[*ast.BlockStmt][]*rcDefer{}}
	var files []string
	filepath.Walk(repoRoot, func(path string, info os.FileInfo, err error) error {
		if err != nil {
			return nil
		}
		if info.IsDir() {
			if strings.HasPrefix(info.Name(), ".") && path != repoRoot {
				return filepath.SkipDir
			}
			return nil
		}
		if strings.HasSuffix(path, ".go") && !strings.HasSuffix(path, "_test.go") && !strings.HasSuffix(path, "_verif.go") {
			files = append(files, path)
		}
		return nil
	})
	sort.Strings(files)
	type parsed struct {
		rel  string
		file *ast.File
	}
	var asts []parsed
	for _, path := range files {
		f, err := parser.ParseFile(fset, path, nil, 0)
		if err != nil {
			fatal("extract recover sites: %v", err)
		}
		rel, _ := filepath.Rel(repoRoot, path)
		asts = append(asts, parsed{rel, f})
		for _, d := range f.Decls {
			if fd, ok := d.(*ast.FuncDecl); ok && fd.Body != nil {
				repo.decls[fd.Name.Name] = append(repo.decls[fd.Name.Name], fd)
			}
		}
	}
	// functions of the repository that call recover() directly in their own body (deferred directly they stop a panic,
	// called from a deferred function they do not)
	recoverHelpers := map[string]*ast.FuncDecl{}
	for name, l := range repo.decls {
		for _, fd := range l {
			if rcCallsRecover(fd.Body) {
				recoverHelpers[name] = fd
			}
		}
	}

	// ---- pass 1: every deferred recover ----
	for _, pf := range asts {
		for _, d := range pf.file.Decls {
			fd, ok := d.(*ast.FuncDecl)
			if !ok || fd.Body == nil {
				continue
			}
			declName := rcDeclName(fset, fd)
			n := 0
			var stack []rcFunc
			var visit func(fn rcFunc)
			visit = func(fn rcFunc) {
				stack = append(stack, fn)
				defer func() { stack = stack[:len(stack)-1] }()
				var walk func(node ast.Node, topIndex int)
				walk = func(node ast.Node, topIndex int) {
					ast.Inspect(node, func(x ast.Node) bool {
						switch s := x.(type) {
						case *ast.FuncLit:
							visit(rcFunc{s.Type, s.Body})
							return false
						case *ast.DeferStmt:
							var body *ast.BlockStmt
							var ownerOfBody rcFunc
							form := ""
							switch f := s.Call.Fun.(type) {
							case *ast.FuncLit:
								if rcCallsRecover(f.Body) {
									form, body, ownerOfBody = "direct", f.Body, fn
								} else {
									var calls []string
									rcCalls(f.Body, &calls)
									for _, c := range calls {
										if h, ok := recoverHelpers[strings.TrimPrefix(c, ".")]; ok {
											form, body, ownerOfBody = "indirect", h.Body, rcFunc{h.Type, h.Body}
										}
									}
								}
								if form == "" {
									// the literal is a function of its own: look for defers inside it
									visit(rcFunc{f.Type, f.Body})
								}
							default:
								if h, ok := recoverHelpers[strings.TrimPrefix(rcCallName(s.Call.Fun), ".")]; ok {
									form, body, ownerOfBody = "direct", h.Body, rcFunc{h.Type, h.Body}
								}
							}
							if form == "" {
								return false
							}
							conv, stored := rcClassify(body, ownerOfBody, stack[:len(stack)-1])
							if _, isLit := s.Call.Fun.(*ast.FuncLit); !isLit {
								// a named function deferred directly: its parameters are the callbacks
								conv, stored = rcClassify(body, ownerOfBody, nil)
							}
							rd := &rcDefer{key: fmt.Sprintf("%s|%s#%d", pf.rel, declName, n), form: form, conv: conv, owner: fn.body, stored: stored}
							n++
							if topIndex < 0 {
								rd.callsBefore = []string{"<the defer is not a top-level statement of its function>"}
							} else {
								for _, before := range fn.body.List[:topIndex] {
									rcCalls(before, &rd.callsBefore)
								}
								repo.byBody[fn.body] = append(repo.byBody[fn.body], rd)
							}
							repo.defers = append(repo.defers, rd)
							return false
						}
						return true
					})
				}
				for i, st := range fn.body.List {
					if _, ok := st.(*ast.DeferStmt); ok {
						walk(st, i)
					} else {
						walk(st, -1)
					}
				}
			}
			visit(rcFunc{fd.Type, fd.Body})
		}
	}

	// ---- the library ----
	libDir, libVersion := rcLibraryDir()
	libRemote, libParams := rcLibraryRemote(libDir)

	// ---- pass 2: go statements, library calls, the special sites ----
	type remoteArg struct {
		call, param string
		chain       []string
		key         string
	}
	var goRoots [][2]string
	var remoteArgs []remoteArg
	var remoteYield [][2]string
	var rpUses []string
	wrapperCalls := map[string][]string{}
	keyOf := func(d *rcDefer) string {
		if d == nil {
			return ""
		}
		return d.key
	}
	// the recover-defer of the literal a declared wrapper function returns (recoverProducer)
	wrapperGuard := func(name string) *rcDefer {
		fd := repo.uniqueDecl(name)
		if fd == nil {
			return nil
		}
		if fl := rcReturnedLit(fd.Body); fl != nil {
			return repo.guard(fl.Body)
		}
		return nil
	}
	for _, pf := range asts {
		iterAlias := ""
		for _, im := range pf.file.Imports {
			if strings.Trim(im.Path.Value, "\"") == "github.com/hneemann/iterator" {
				iterAlias = "iterator"
				if im.Name != nil {
					iterAlias = im.Name.Name
				}
			}
		}
		for _, d := range pf.file.Decls {
			fd, ok := d.(*ast.FuncDecl)
			if !ok || fd.Body == nil {
				continue
			}
			declName := rcDeclName(fset, fd)
			var nodes []ast.Node
			ast.Inspect(fd.Body, func(x ast.Node) bool {
				if x == nil {
					nodes = nodes[:len(nodes)-1]
					return true
				}
				nodes = append(nodes, x)
				switch s := x.(type) {
				case *ast.GoStmt:
					var g *rcDefer
					started := oneLine(exprText(fset, s.Call.Fun))
					switch f := s.Call.Fun.(type) {
					case *ast.FuncLit:
						g = repo.guard(f.Body)
						started = "<literal>"
						// go func() { f(…) }(): nothing but the call of a declared function runs in the literal
						if g == nil && len(f.Body.List) == 1 {
							if es, ok := f.Body.List[0].(*ast.ExprStmt); ok {
								if c, ok := es.X.(*ast.CallExpr); ok {
									if t := repo.uniqueDecl(strings.TrimPrefix(rcCallName(c.Fun), ".")); t != nil {
										g = repo.guard(t.Body)
										started = rcDeclName(fset, t)
									}
								}
							}
						}
					default:
						if t := repo.uniqueDecl(strings.TrimPrefix(rcCallName(f), ".")); t != nil {
							g = repo.guard(t.Body)
							started = rcDeclName(fset, t) // the declared function, not the expression (no local names)
						}
					}
					goRoots = append(goRoots, [2]string{fmt.Sprintf("%s|%s|%s", pf.rel, declName, started), keyOf(g)})
				case *ast.CallExpr:
					if id, ok := s.Fun.(*ast.Ident); ok && id.Name == "recoverProducer" {
						rpUses = append(rpUses, pf.rel+"|"+declName)
					}
					fun := s.Fun
					for {
						if ix, ok := fun.(*ast.IndexExpr); ok {
							fun = ix.X
						} else if ix, ok := fun.(*ast.IndexListExpr); ok {
							fun = ix.X
						} else {
							break
						}
					}
					sel, ok := fun.(*ast.SelectorExpr)
					if !ok || iterAlias == "" {
						return true
					}
					if pk, ok := sel.X.(*ast.Ident); !ok || pk.Name != iterAlias {
						return true
					}
					rem, ok := libRemote[sel.Sel.Name]
					if !ok {
						return true
					}
					callKey := fmt.Sprintf("%s|%s|iterator.%s", pf.rel, declName, sel.Sel.Name)
					for _, p := range rem {
						if p == "yield" {
							inside := false
							for i := len(nodes) - 2; i >= 0; i-- {
								if c, ok := nodes[i].(*ast.CallExpr); ok {
									if id, ok := c.Fun.(*ast.Ident); ok && id.Name == "autoParallelStage" {
										inside = true
									}
								}
							}
							remoteYield = append(remoteYield, [2]string{callKey, fmt.Sprint(inside)})
							continue
						}
						idx := -1
						for i, n := range libParams[sel.Sel.Name] {
							if n == p {
								idx = i
							}
						}
						if idx < 0 || idx >= len(s.Args) {
							remoteArgs = append(remoteArgs, remoteArg{callKey, p, []string{"<argument not found>"}, ""})
							continue
						}
						ra := remoteArg{call: callKey, param: p}
						switch a := s.Args[idx].(type) {
						case *ast.FuncLit:
							// a factory: the function literal it returns is what runs on the goroutine
							ra.chain = []string{"factory"}
							if w := rcReturnedLit(a.Body); w != nil {
								ra.key = keyOf(repo.guard(w.Body))
							}
						default:
							// a producer: the chain of one-argument wrappers around it, outermost first
							e := s.Args[idx]
							for {
								c, ok := e.(*ast.CallExpr)
								if !ok || len(c.Args) != 1 {
									break
								}
								id, ok := c.Fun.(*ast.Ident)
								if !ok {
									break
								}
								if g := wrapperGuard(id.Name); g != nil {
									ra.chain = append(ra.chain, "<recover>")
									ra.key = g.key
									break
								}
								isLocal := false
								// a local wrapper: a function literal assigned to that name in the enclosing declaration
								ast.Inspect(fd.Body, func(y ast.Node) bool {
									if as, ok := y.(*ast.AssignStmt); ok && len(as.Lhs) == 1 && len(as.Rhs) == 1 {
										if l, ok := as.Lhs[0].(*ast.Ident); ok && l.Name == id.Name {
											if fl, ok := as.Rhs[0].(*ast.FuncLit); ok {
												var own []string
												ps := map[string]bool{}
												ast.Inspect(fl, func(z ast.Node) bool {
													if l2, ok := z.(*ast.FuncLit); ok {
														for k := range rcFieldNames(l2.Type.Params) {
															ps[k] = true
														}
													}
													return true
												})
												ast.Inspect(fl, func(z ast.Node) bool {
													if c2, ok := z.(*ast.CallExpr); ok {
														n := rcCallName(c2.Fun)
														if !ps[n] {
															own = append(own, n)
														}
													}
													return true
												})
												sort.Strings(own)
												wrapperCalls[pf.rel+"|"+declName+"|wrapper"] = own
												isLocal = true
											}
										}
									}
									return true
								})
								if isLocal {
									ra.chain = append(ra.chain, "<local wrapper>")
								} else {
									ra.chain = append(ra.chain, "<wrapper "+id.Name+">")
								}
								e = c.Args[0]
							}
							if ra.key == "" {
								ra.chain = append(ra.chain, "<no recover>")
							}
						}
						remoteArgs = append(remoteArgs, ra)
					}
				}
				return true
			})
		}
	}

	// ---- autoParallelStage ----
	stageConsumerKey, stageStored := "", ""
	stageReraised, stageSourceWrapped := false, false
	if fd := repo.uniqueDecl("autoParallelStage"); fd != nil {
		declParams := rcFieldNames(fd.Type.Params)
		firstParam := ""
		if len(fd.Type.Params.List) > 0 && len(fd.Type.Params.List[0].Names) > 0 {
			firstParam = fd.Type.Params.List[0].Names[0].Name
		}
		built := map[string]bool{} // variables assigned from a call of a function-typed parameter (stage := build(…))
		ast.Inspect(fd.Body, func(x ast.Node) bool {
			if as, ok := x.(*ast.AssignStmt); ok && len(as.Lhs) == 1 && len(as.Rhs) == 1 {
				if c, ok := as.Rhs[0].(*ast.CallExpr); ok {
					if id, ok := c.Fun.(*ast.Ident); ok {
						if _, isParam := declParams[id.Name]; isParam {
							if l, ok := as.Lhs[0].(*ast.Ident); ok {
								built[l.Name] = true
							}
						}
					}
				}
			}
			if c, ok := x.(*ast.CallExpr); ok {
				if id, ok := c.Fun.(*ast.Ident); ok && len(c.Args) == 1 {
					if a, ok := c.Args[0].(*ast.Ident); ok && a.Name == firstParam && wrapperGuard(id.Name) != nil {
						stageSourceWrapped = true
					}
				}
			}
			return true
		})
		ast.Inspect(fd.Body, func(x ast.Node) bool {
			blk, ok := x.(*ast.BlockStmt)
			if !ok {
				return true
			}
			for i, st := range blk.List {
				es, ok := st.(*ast.ExprStmt)
				if !ok {
					continue
				}
				c, ok := es.X.(*ast.CallExpr)
				if !ok || len(c.Args) != 1 {
					continue
				}
				id, ok := c.Fun.(*ast.Ident)
				if !ok || !built[id.Name] {
					continue
				}
				lit, ok := c.Args[0].(*ast.FuncLit)
				if !ok {
					continue
				}
				if g := repo.guard(lit.Body); g != nil {
					stageConsumerKey, stageStored = g.key, g.stored
				}
				// behind the call of the stage: if <stored> != nil { panic(<stored>) }
				for _, later := range blk.List[i+1:] {
					ifs, ok := later.(*ast.IfStmt)
					if !ok || stageStored == "" {
						continue
					}
					be, ok := ifs.Cond.(*ast.BinaryExpr)
					if !ok || be.Op != token.NEQ || !rcMentions(be.X, stageStored) || exprText(fset, be.Y) != "nil" {
						continue
					}
					for _, bs := range ifs.Body.List {
						if e, ok := bs.(*ast.ExprStmt); ok {
							if pc, ok := e.X.(*ast.CallExpr); ok {
								if pid, ok := pc.Fun.(*ast.Ident); ok && pid.Name == "panic" && len(pc.Args) == 1 && rcMentions(pc.Args[0], stageStored) {
									stageReraised = true
								}
							}
						}
					}
				}
			}
			return true
		})
	}

	// ---- the generated function, the try frame, ToHtml ----
	topLevelKey, tryKey, htmlKey := "", "", ""
	if fd := repo.uniqueDecl("generateIntern"); fd != nil {
		if fl := rcReturnedLit(fd.Body); fl != nil {
			topLevelKey = keyOf(repo.guard(fl.Body))
		} else {
			// return func(…) {…}, pure, nil  is the last statement; rcReturnedLit looks at top-level returns only
			ast.Inspect(fd.Body, func(x ast.Node) bool {
				if rs, ok := x.(*ast.ReturnStmt); ok && len(rs.Results) >= 1 {
					if fl, ok := rs.Results[0].(*ast.FuncLit); ok {
						topLevelKey = keyOf(repo.guard(fl.Body))
					}
				}
				return true
			})
		}
	}
	for _, fd := range repo.decls["GenerateCustom"] {
		// the branch for *parser2.TryCatch: the first immediately invoked literal with a guarding recover
		ast.Inspect(fd.Body, func(x ast.Node) bool {
			ifs, ok := x.(*ast.IfStmt)
			if !ok || ifs.Init == nil || !strings.Contains(nodeText(fset, ifs.Init), "TryCatch") {
				return true
			}
			ast.Inspect(ifs.Body, func(y ast.Node) bool {
				if c, ok := y.(*ast.CallExpr); ok {
					if fl, ok := c.Fun.(*ast.FuncLit); ok && tryKey == "" {
						tryKey = keyOf(repo.guard(fl.Body))
					}
				}
				return true
			})
			return false
		})
	}
	if fd := repo.uniqueDecl("ToHtml"); fd != nil {
		htmlKey = keyOf(repo.guard(fd.Body))
	}

	// ---- write ----
	strs := func(l []string) string {
		q := make([]string, 0, len(l))
		for _, s := range l {
			q = append(q, leanStr(s))
		}
		return "[" + strings.Join(q, ", ") + "]"
	}
	var b strings.Builder
	b.WriteString("/-! GENERATED by `tie extract` (go/ast over every package of the repository, tests and verif hooks excluded, and over the\nsource of github.com/hneemann/iterator in the module cache): the deferred recovers, the goroutine roots and what protects\nthem. Keys are `file|function#n` (n-th deferred recover of that top-level function). Do not edit. -/\nnamespace P2.Generated.RecoverSites\n\n")
	b.WriteString("/-- (key, `direct`: recover() is called in the deferred function itself / `indirect`: in a helper it calls,\nwhat is done with the recovered value, calls the enclosing function makes in front of the defer statement) -/\ndef deferRecovers : List (String × String × String × List String) := [\n")
	for i, d := range repo.defers {
		sep := ","
		if i == len(repo.defers)-1 {
			sep = ""
		}
		fmt.Fprintf(&b, "  (%s, %s, %s, %s)%s\n", leanStr(d.key), leanStr(d.form), leanStr(d.conv), strs(d.callsBefore), sep)
	}
	b.WriteString("]\n\n/-- every `go` statement (`file|function|started function`) and the key of the deferred recover at the root of the\nfunction it starts (\"\": none) -/\ndef goRoots : List (String × String) := [\n")
	for i, g := range goRoots {
		sep := ","
		if i == len(goRoots)-1 {
			sep = ""
		}
		fmt.Fprintf(&b, "  (%s, %s)%s\n", leanStr(g[0]), leanStr(g[1]), sep)
	}
	fmt.Fprintf(&b, "]\n\n/-- the version of the iterator library the facts below were computed from -/\ndef libVersion : String := %s\n\n", leanStr(libVersion))
	b.WriteString("/-- functions of the iterator library and their function-typed parameters that end up running on a goroutine the library\nstarts (`yield`: the consumer of the producer the function returns) -/\ndef libRemote : List (String × List String) := [\n")
	var libNames []string
	for n := range libRemote {
		libNames = append(libNames, n)
	}
	sort.Strings(libNames)
	for i, n := range libNames {
		sep := ","
		if i == len(libNames)-1 {
			sep = ""
		}
		fmt.Fprintf(&b, "  (%s, %s)%s\n", leanStr(n), strs(libRemote[n]), sep)
	}
	b.WriteString("]\n\n/-- what the repository hands to such a parameter: (call site `file|function|iterator.F`, parameter, `factory` or the\nwrappers around the producer outermost first up to the one that recovers, key of the deferred recover that protects the\ncode on the other goroutine — \"\": none) -/\ndef remoteArgs : List (String × String × List String × String) := [\n")
	for i, r := range remoteArgs {
		sep := ","
		if i == len(remoteArgs)-1 {
			sep = ""
		}
		fmt.Fprintf(&b, "  (%s, %s, %s, %s)%s\n", leanStr(r.call), leanStr(r.param), strs(r.chain), leanStr(r.key), sep)
	}
	b.WriteString("]\n\n/-- calls of library functions whose CONSUMER runs on a library goroutine, and whether the call is made inside the\narguments of `autoParallelStage` -/\ndef remoteConsumers : List (String × Bool) := [\n")
	for i, r := range remoteYield {
		sep := ","
		if i == len(remoteYield)-1 {
			sep = ""
		}
		fmt.Fprintf(&b, "  (%s, %s)%s\n", leanStr(r[0]), r[1], sep)
	}
	b.WriteString("]\n\n/-- calls that wrappers around a remote producer make outside the recovering one, other than calls of their own\nparameters -/\ndef wrapperCalls : List (String × List String) := [\n")
	var wk []string
	for k := range wrapperCalls {
		wk = append(wk, k)
	}
	sort.Strings(wk)
	for i, k := range wk {
		sep := ","
		if i == len(wk)-1 {
			sep = ""
		}
		fmt.Fprintf(&b, "  (%s, %s)%s\n", leanStr(k), strs(wrapperCalls[k]), sep)
	}
	fmt.Fprintf(&b, "]\n\n/-- `autoParallelStage`: the deferred recover of the consumer wrapper handed to the stage -/\ndef stageConsumerRecover : String := %s\n\n", leanStr(stageConsumerKey))
	fmt.Fprintf(&b, "/-- … the variable it stores the recovered value in is raised again (`if v != nil { panic(v) }`) behind the call of the stage -/\ndef stageStoreReraised : Bool := %v\n\n", stageReraised && stageStored != "")
	fmt.Fprintf(&b, "/-- … and its source (first parameter) is wrapped in the recovering producer -/\ndef stageSourceWrapped : Bool := %v\n\n", stageSourceWrapped)
	sort.Strings(rpUses)
	fmt.Fprintf(&b, "/-- the calls of `recoverProducer` (`file|function`) -/\ndef recoverProducerUses : List String := %s\n\n", strs(rpUses))
	fmt.Fprintf(&b, "/-- the deferred recover of the literal `recoverProducer` returns -/\ndef recoverProducerRecover : String := %s\n\n", leanStr(keyOf(wrapperGuard("recoverProducer"))))
	fmt.Fprintf(&b, "def topLevelRecover : String := %s\n\ndef tryRecover : String := %s\n\ndef toHtmlRecover : String := %s\n\n", leanStr(topLevelKey), leanStr(tryKey), leanStr(htmlKey))
	b.WriteString("end P2.Generated.RecoverSites\n")
	writeIfChanged(genPath("RecoverSites.lean"), []byte(b.String()))
}
