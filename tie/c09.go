package main

// C09 — lists and maps are persistent values.
//
// Histories of operations over a pool of named handles are run on the real code (generated
// programs with the handles as arguments, plus direct API calls for the host idiom on ToSlice).
// After every operation EVERY handle is observed again (canonical deep walk = string form,
// string(); at "obs" steps also size() and = against a rebuilt copy of its first observation).
// Property predicate (on the implementation alone): no observation of an existing handle ever
// changes. Correspondence: the same history as a HIST request to the Lean model; the model's
// observation of every handle after every step must equal the implementation's.

import (
	"encoding/json"
	"fmt"
	"io"
	"log"
	"math/rand"
	"os"
	"sort"
	"strconv"
	"strings"
	"time"

	"github.com/hneemann/parser2/funcGen"
	"github.com/hneemann/parser2/listMap"
	"github.com/hneemann/parser2/value"
)

func init() { props["C09"] = runC09 }

type c09Func = funcGen.Func[value.Value]

var c09FG = value.New()
var c09Progs = map[string]c09Func{}

// flaky(x) = x, except that its c09FlakyArmed-th call from now on fails (once; 0 = never): a source that fails in
// the middle of the first materialisation of a list and works when the list is looked at again
var c09FlakyArmed int

func init() {
	c09FG.AddStaticFunction("flaky", funcGen.Function[value.Value]{
		Func: func(st funcGen.Stack[value.Value], cs []value.Value) (value.Value, error) {
			if c09FlakyArmed > 0 {
				c09FlakyArmed--
				if c09FlakyArmed == 0 {
					return nil, fmt.Errorf("flaky source")
				}
			}
			return st.Get(0), nil
		},
		Args: 1, IsPure: false}.SetDescription("x", "harness: identity that can be armed to fail once"))
}

// c09Prog returns the (cached) generated function for a program without list/map constants.
func c09Prog(src string, names ...string) c09Func {
	key := src + "|" + strings.Join(names, ",")
	if f, ok := c09Progs[key]; ok {
		return f
	}
	f, _, err := c09FG.Generate(src, names...)
	if err != nil {
		fatal("C09: program %q does not compile: %v", src, err)
	}
	c09Progs[key] = f
	return f
}

func c09ArgNames(n int) []string {
	r := make([]string, n)
	for i := range r {
		r[i] = "a" + strconv.Itoa(i)
	}
	return r
}

// ---- canonical deep observation (pure iteration, no Eval) ---------------------------------------

type c09Walk struct {
	toks    []string
	hasReal bool // a hash map is inside: raw string() order is not an observation
	depth   int
	cyclic  bool
}

func (w *c09Walk) walk(v value.Value, d int) {
	if d > w.depth {
		w.depth = d
	}
	if d > 40 || len(w.toks) > 200000 {
		// deeper than any value a persistent implementation can build in a history: a cycle
		w.toks = append(w.toks, "!C")
		w.cyclic = true
		return
	}
	switch x := v.(type) {
	case value.Int:
		w.toks = append(w.toks, strconv.Itoa(int(x)))
	case value.String:
		w.toks = append(w.toks, "\""+string(x)+"\"")
	case *value.List:
		mark := len(w.toks)
		w.toks = append(w.toks, "[")
		st := funcGen.NewEmptyStack[value.Value]()
		failed := ""
		func() {
			defer func() {
				if r := recover(); r != nil {
					failed = "!P"
				}
			}()
			for e, err := range x.Iterate(st) {
				if err != nil {
					failed = "!E"
					break
				}
				w.walk(e, d+1)
				if w.cyclic {
					break
				}
			}
		}()
		if failed != "" {
			w.toks = append(w.toks[:mark], failed)
			return
		}
		w.toks = append(w.toks, "]")
	case value.Map:
		if _, ok := x.Storage().(value.RealMap); ok {
			w.hasReal = true
		}
		type kv struct {
			k string
			v value.Value
		}
		var es []kv
		x.Iter(func(k string, v value.Value) bool { es = append(es, kv{k, v}); return true })
		sort.SliceStable(es, func(i, j int) bool { return es[i].k < es[j].k })
		w.toks = append(w.toks, "{"+strconv.Itoa(x.Size()))
		for _, e := range es {
			w.toks = append(w.toks, e.k+":")
			w.walk(e.v, d+1)
		}
		w.toks = append(w.toks, "}")
	default:
		w.toks = append(w.toks, "?T")
	}
}

func c09Canon(v value.Value) (text string, hasReal bool, depth int) {
	w := &c09Walk{}
	w.walk(v, 0)
	return strings.Join(w.toks, ","), w.hasReal, w.depth
}

func c09Eval(f c09Func, args ...value.Value) (v value.Value, err error) {
	defer func() {
		if r := recover(); r != nil {
			err = fmt.Errorf("panic: %v", r)
		}
	}()
	return f.Eval(args...)
}

// ---- constants: programs whose list/map literals are folded by the optimizer -------------------

type c09Const struct {
	src   string
	model []string // model ops; "$" is the handle created by the previous op of this list
	isMap bool
}

var c09Consts = []c09Const{
	{"[1,2,3]", []string{"lit i1,i2,i3"}, false},
	{"[]", []string{"lit -"}, false},
	{"[1,2].append(3)", []string{"lit i1,i2", "app $ i3"}, false},
	{"[1,2,3].map(e->e*2)", []string{"lit i1,i2,i3", "map mul:2 $"}, false},
	{"numbers(4)", []string{"num 4"}, false},
	{"[3,1,2].reverse()", []string{"lit i3,i1,i2", "rev $"}, false},
	{"[1,2,3,4,5].accept(e->e>=3)", []string{"lit i1,i2,i3,i4,i5", "acc ge:3 $"}, false},
	{"{a:1,b:2}", []string{"mlit a=i1,b=i2"}, true},
	{"[5,6].append(7).append(8)", []string{"lit i5,i6", "app $ i7", "app $ i8"}, false},
	{"numbers(3).map(e->e+1)", []string{"num 3", "map add:1 $"}, false},
	{"[4,5,6].top(2)", []string{"lit i4,i5,i6", "top 2 $"}, false},
}

// ---- one history on the implementation ------------------------------------------------------------

type c09Handle struct {
	v          value.Value
	isMap      bool
	midx       int // index in the model's pool
	firstCanon string
	firstStr   string
	firstStrOk bool
	hasReal    bool
	allInt     bool
	n          int // elements / entries at first observation
	depth      int
	eqFirst    string // outcome of "= first observation" at the first obs step
	prov       string
	store      bool // derived from a window-storing combineN
	constOf    int
	appended   int // number of appends with this handle as receiver
	firstOrder string // keys of a map in the order of its first iteration through the Go API ("" for hash maps: unspecified)
}

// c09IterOrder: the key order of a map as Map.Iter yields it (before any expression has touched the value)
func c09IterOrder(v value.Value) string {
	m, ok := v.(value.Map)
	if !ok {
		return ""
	}
	if _, real := m.Storage().(value.RealMap); real {
		return ""
	}
	var ks []string
	m.Iter(func(k string, _ value.Value) bool { ks = append(ks, k); return true })
	return strings.Join(ks, "\x00")
}

type c09Expect struct {
	check bool           // compare this model op with the implementation
	res   string         // H | V<tokens> | E
	obs   map[int]string // model pool index -> canonical observation (visible handles)
	caps  map[int]string // model pool index -> len/cap/present (implementation, coverage only)
}

type c09Run struct {
	c         *Ctx
	fmapFac   *value.MapFuncFactory[value.Int]
	ops       []string
	handles   []*c09Handle
	created   []int // per op: index of the handle it created, or -1
	modelOps  []string
	expect    []c09Expect
	modelPool int
	consts    map[int]struct {
		f c09Func
		h int
	}
	unmodelled bool
	viol       *violation
	violStep   int
	features   map[string]int
	branches   int
	mats       int
	cappedObjs map[*value.List]bool
}

func c09IsAllInt(canon string) bool {
	// "[,1,2,]" : no nested bracket, brace, string or marker
	if !strings.HasPrefix(canon, "[") {
		return false
	}
	inner := canon[1:]
	return !strings.ContainsAny(inner, "[{\"!?")
}

func c09Count(canon string, isMap bool) int {
	if isMap {
		s := strings.TrimPrefix(canon, "{")
		if i := strings.IndexAny(s, ",}"); i >= 0 {
			s = s[:i]
		}
		n, _ := strconv.Atoi(s)
		return n
	}
	// top-level elements of a list
	depth, n := 0, 0
	for _, t := range strings.Split(canon, ",") {
		switch {
		case t == "[" || strings.HasPrefix(t, "{"):
			if depth == 1 {
				n++
			}
			depth++
		case t == "]" || t == "}":
			depth--
		case strings.HasSuffix(t, ":") && !strings.HasPrefix(t, "\""):
		default:
			if depth == 1 {
				n++
			}
		}
	}
	return n
}

func (r *c09Run) feat(s string) { r.features[s]++ }

func (r *c09Run) violation(sig, what string, extra map[string]any) {
	if r.viol != nil {
		return
	}
	rep := map[string]any{"history": append([]string{}, r.ops...), "step": len(r.created)}
	for k, v := range extra {
		rep[k] = v
	}
	r.viol = &violation{signature: sig, what: what, replay: rep}
	r.violStep = len(r.created)
}

// newHandle registers a value returned by an operation as a handle and takes its first observation.
func (r *c09Run) newHandle(v value.Value, prov string, store bool) int {
	h := &c09Handle{v: v, prov: prov, store: store, constOf: -1, midx: r.modelPool}
	_, h.isMap = v.(value.Map)
	h.firstCanon, h.hasReal, h.depth = c09Canon(v)
	h.firstOrder = c09IterOrder(v)
	h.allInt = !h.isMap && c09IsAllInt(h.firstCanon)
	h.n = c09Count(h.firstCanon, h.isMap)
	if strings.Contains(h.firstCanon, "!C") {
		r.handles = append(r.handles, h)
		r.violation("cyclic-value:created-by-"+prov, "an operation returned a value that contains itself: "+prov, map[string]any{"handle": len(r.handles) - 1})
		return len(r.handles) - 1
	}
	if s, err := c09Eval(c09Prog("a0.string()", "a0"), v); err == nil {
		if sv, ok := s.(value.String); ok {
			h.firstStr, h.firstStrOk = string(sv), true
		}
	}
	r.handles = append(r.handles, h)
	return len(r.handles) - 1
}

func (r *c09Run) sigFor(h *c09Handle, op string) string {
	if h.store {
		return "combineN-window-aliases-ring-buffer"
	}
	kind := op
	if i := strings.IndexByte(op, ' '); i >= 0 {
		kind = op[:i]
	}
	return "handle-changed:after-" + kind + ":handle-from-" + h.prov
}

// observeAll: the property predicate — every live handle still shows its first observation.
func (r *c09Run) observeAll(op string, full bool) map[int]string {
	obs := map[int]string{}
	for i, h := range r.handles {
		canon, _, _ := c09Canon(h.v)
		obs[h.midx] = canon
		if canon != h.firstCanon {
			if len(canon) > 2000 {
				canon = canon[:2000] + "…"
			}
			r.violation(r.sigFor(h, op), fmt.Sprintf("handle h%d (created by %s) showed %s and shows %s after %q", i, h.prov, h.firstCanon, canon, op),
				map[string]any{"handle": i, "first": h.firstCanon, "now": canon, "after_op": op})
		}
		if r.viol == nil && h.firstOrder != "" && !h.hasReal {
			if now := c09IterOrder(h.v); now != h.firstOrder {
				r.violation(r.sigFor(h, op), fmt.Sprintf("the entries of map h%d (created by %s) were iterated in the order %q and are iterated in the order %q after %q", i, h.prov,
					strings.ReplaceAll(h.firstOrder, "\x00", ","), strings.ReplaceAll(now, "\x00", ","), op), map[string]any{"handle": i, "after_op": op})
			}
		}
		if r.viol != nil {
			return obs // a changed value may even be cyclic: no further calls into the library
		}
		if h.firstStrOk && !h.hasReal {
			s, err := c09Eval(c09Prog("a0.string()", "a0"), h.v)
			if sv, ok := s.(value.String); err != nil || !ok || string(sv) != h.firstStr {
				r.violation(r.sigFor(h, op), fmt.Sprintf("string() of handle h%d changed from %q to %q (err %v) after %q", i, h.firstStr, s, err, op),
					map[string]any{"handle": i, "first": h.firstStr, "after_op": op})
			}
		}
		if full && !h.isMap {
			// equality with an independent copy of the first observation, BEFORE anything materialises the list (a size hint
			// that is wrong makes a lazy list unequal to its own items until it is evaluated)
			pre, errPre := c09Eval(c09Prog("a0=a1", "a0", "a1"), h.v, c09FirstCopy(h))
			if b, ok := pre.(value.Bool); errPre == nil && ok && !bool(b) && !strings.Contains(h.firstCanon, "!") {
				r.violation(r.sigFor(h, op), fmt.Sprintf("handle h%d (created by %s) is not equal to the list of the items it shows (%s) before it is evaluated", i, h.prov, h.firstCanon),
					map[string]any{"handle": i, "after_op": op})
				return obs
			}
		}
		if full {
			sz, err := c09Eval(c09Prog("a0.size()", "a0"), h.v)
			if !strings.Contains(h.firstCanon, "!") {
				if iv, ok := sz.(value.Int); err != nil || !ok || int(iv) != h.n {
					r.violation(r.sigFor(h, op), fmt.Sprintf("size() of handle h%d is %v (err %v), its first observation has %d elements", i, sz, err, h.n),
						map[string]any{"handle": i, "after_op": op})
				}
			}
			// size() materialises: observe again
			canon2, _, _ := c09Canon(h.v)
			obs[h.midx] = canon2
			if canon2 != h.firstCanon {
				r.violation(r.sigFor(h, op), fmt.Sprintf("handle h%d showed %s and shows %s after size() (materialisation)", i, h.firstCanon, canon2),
					map[string]any{"handle": i, "first": h.firstCanon, "now": canon2, "after_op": op})
				return obs
			}
			// equality with an independent copy of the first observation
			first, err2 := c09Eval(c09Prog("a0=a1", "a0", "a1"), h.v, c09FirstCopy(h))
			eq2 := "err"
			if err2 == nil {
				eq2 = fmt.Sprint(first)
			}
			if h.eqFirst == "" {
				h.eqFirst = eq2
				if eq2 == "false" {
					r.violation(r.sigFor(h, op), fmt.Sprintf("handle h%d is not equal to a copy of itself", i), map[string]any{"handle": i, "after_op": op})
				}
			} else if eq2 != h.eqFirst {
				r.violation(r.sigFor(h, op), fmt.Sprintf("'=' of handle h%d against its first observation changed from %s to %s after %q", i, h.eqFirst, eq2, op),
					map[string]any{"handle": i, "after_op": op})
			}
		}
	}
	return obs
}

// c09FirstCopy rebuilds a value from the canonical text of the first observation.
func c09FirstCopy(h *c09Handle) value.Value {
	toks := strings.Split(h.firstCanon, ",")
	pos := 0
	var parse func() value.Value
	parse = func() value.Value {
		if pos >= len(toks) {
			return value.Int(0)
		}
		t := toks[pos]
		pos++
		switch {
		case t == "[":
			var items []value.Value
			for pos < len(toks) && toks[pos] != "]" {
				items = append(items, parse())
			}
			pos++
			return value.NewList(items...)
		case strings.HasPrefix(t, "{"):
			m := listMap.New[value.Value](4)
			for pos < len(toks) && toks[pos] != "}" {
				k := strings.TrimSuffix(toks[pos], ":")
				pos++
				m = m.Append(k, parse())
			}
			pos++
			return value.NewMap(m)
		case strings.HasPrefix(t, "\""):
			return value.String(strings.Trim(t, "\""))
		default:
			n, err := strconv.Atoi(t)
			if err != nil {
				return value.String(t) // markers: never equal to anything real
			}
			return value.Int(n)
		}
	}
	return parse()
}

func (r *c09Run) caps() map[int]string {
	m := map[int]string{}
	for _, h := range r.handles {
		if l, ok := h.v.(*value.List); ok {
			a, b, p := l.VerifState()
			pi := 0
			if p {
				pi = 1
			}
			m[h.midx] = fmt.Sprintf("%d/%d/%d", a, b, pi)
		}
	}
	return m
}

// ---- executing one operation -----------------------------------------------------------------------

var c09FnProg = map[string]string{"id": "a0.map(e->e)", "add:1": "a0.map(e->e+1)", "add:10": "a0.map(e->e+10)", "mul:2": "a0.map(e->e*2)"}
var c09PredProg = map[string]string{"all": "a0.accept(e->true)", "ge:2": "a0.accept(e->e>=2)", "ge:3": "a0.accept(e->e>=3)", "even": "a0.accept(e->e%2=0)"}
var c09MFnProg = map[string]string{"id": "a0.map((k,v)->v)", "add:1": "a0.map((k,v)->v+1)"}

type c09Arg struct {
	text   string // as in the harness op
	v      value.Value
	h      int // handle index or -1
	model  string
	badRef bool
}

func (r *c09Run) arg(t string) c09Arg {
	a := c09Arg{text: t, h: -1, model: t}
	switch {
	case strings.HasPrefix(t, "h"):
		k, err := strconv.Atoi(t[1:])
		if err != nil || k < 0 || k >= len(r.handles) {
			a.badRef = true
			return a
		}
		a.h = k
		a.v = r.handles[k].v
		a.model = "h" + strconv.Itoa(r.handles[k].midx)
	case strings.HasPrefix(t, "i"):
		n, err := strconv.Atoi(t[1:])
		if err != nil {
			a.badRef = true
		}
		a.v = value.Int(n)
	default:
		a.badRef = true
	}
	return a
}

func c09Int(t string) value.Value {
	n, _ := strconv.Atoi(t)
	return value.Int(n)
}

// exec runs one harness operation; returns false when the text is not executable (replay of a
// damaged file, or a shrink candidate whose references broke).
func (r *c09Run) exec(op string) bool {
	w := strings.Fields(op)
	if len(w) == 0 {
		return false
	}
	r.c.Crumb("history: " + strings.Join(r.ops, "; ") + "; next: " + op)
	kind := w[0]
	var res value.Value
	var err error
	var model []string // model ops of this harness op; the last one is compared
	store := false
	real := kind == "mev"
	recv := -1
	run := func(src string, args ...c09Arg) {
		vals := make([]value.Value, len(args))
		for i, a := range args {
			vals[i] = a.v
			if a.h >= 0 && r.handles[a.h].store && (kind == "idx" || kind == "first" || kind == "eval" || kind == "alias" ||
				kind == "map" || kind == "acc" || kind == "top" || kind == "skip" || kind == "cat") {
				store = true // the stored windows themselves and lazy lists that iterate them again
			}
			if a.h >= 0 && r.handles[a.h].hasReal {
				real = true
			}
		}
		res, err = c09Eval(c09Prog(src, c09ArgNames(len(args))...), vals...)
	}
	need := func(n int) bool { return len(w) == n+1 }
	bad := false
	A := func(i int) c09Arg {
		a := r.arg(w[i])
		if a.badRef {
			bad = true
		}
		return a
	}
	switch kind {
	case "const":
		if !need(1) {
			return false
		}
		id, e := strconv.Atoi(w[1])
		if e != nil || id < 0 || id >= len(c09Consts) {
			return false
		}
		cdef := c09Consts[id]
		if inst, ok := r.consts[id]; ok {
			res, err = c09Eval(inst.f)
			first := r.handles[inst.h]
			if err == nil {
				same := false
				if l, ok := res.(*value.List); ok {
					same = l == first.v.(*value.List)
				} else {
					_, same = res.(value.Map)
				}
				canon, _, _ := c09Canon(res)
				if !same || canon != first.firstCanon {
					r.violation("const-changed:"+cdef.src, fmt.Sprintf("constant %s evaluated again shows %s, first %s (same object: %v)", cdef.src, canon, first.firstCanon, same),
						map[string]any{"const": cdef.src})
				}
			}
			model = []string{"alias h" + strconv.Itoa(first.midx)}
			r.feat("const:reuse")
		} else {
			f, _, e := c09FG.Generate(cdef.src)
			if e != nil {
				fatal("C09: constant program %q: %v", cdef.src, e)
			}
			res, err = c09Eval(f)
			for i, m := range cdef.model {
				if i > 0 {
					m = strings.ReplaceAll(m, "$", "h"+strconv.Itoa(r.modelPool+i-1))
				}
				model = append(model, m)
			}
			r.consts[id] = struct {
				f c09Func
				h int
			}{f, len(r.handles)}
			r.feat("const:first")
		}
	case "lit":
		if !need(1) {
			return false
		}
		var args []c09Arg
		var ms []string
		if w[1] != "-" {
			for i, t := range strings.Split(w[1], ",") {
				_ = i
				a := r.arg(t)
				if a.badRef {
					return false
				}
				args = append(args, a)
				ms = append(ms, a.model)
			}
		}
		names := c09ArgNames(len(args))
		run("["+strings.Join(names, ",")+"]", args...)
		if len(ms) == 0 {
			model = []string{"lit -"}
		} else {
			model = []string{"lit " + strings.Join(ms, ",")}
		}
	case "num":
		if !need(1) {
			return false
		}
		res, err = c09Eval(c09Prog("numbers(a0)", "a0"), c09Int(w[1]))
		model = []string{op}
	case "map", "acc", "mmap":
		if !need(2) {
			return false
		}
		tab := c09FnProg
		if kind == "acc" {
			tab = c09PredProg
		} else if kind == "mmap" {
			tab = c09MFnProg
		}
		src, ok := tab[w[1]]
		if !ok {
			return false
		}
		a := A(2)
		recv = a.h
		run(src, a)
		model = []string{kind + " " + w[1] + " " + a.model}
	case "top", "skip":
		if !need(2) {
			return false
		}
		a := A(2)
		recv = a.h
		run("a0."+kind+"(a1)", a, c09Arg{v: c09Int(w[1]), h: -1})
		model = []string{kind + " " + w[1] + " " + a.model}
	case "cat", "mrg":
		if !need(2) {
			return false
		}
		a, b := A(1), A(2)
		recv = a.h
		run("a0+a1", a, b)
		model = []string{kind + " " + a.model + " " + b.model}
	case "cmbn":
		if !need(3) {
			return false
		}
		a := A(3)
		recv = a.h
		src := "a0.combineN(a1, w->w[0]*100+w[w.size()-1])"
		if w[2] == "size" {
			src = "a0.combineN(a1, w->w.size())"
		} else if w[2] != "fl" {
			return false
		}
		run(src, a, c09Arg{v: c09Int(w[1]), h: -1})
		model = []string{"cmbn " + w[1] + " " + w[2] + " " + a.model}
	case "cmbe", "cmbs":
		if !need(2) {
			return false
		}
		a := A(2)
		recv = a.h
		if kind == "cmbe" {
			run("a0.combineN(a1, w->w).eval()", a, c09Arg{v: c09Int(w[1]), h: -1})
			model = []string{"cmbe " + w[1] + " " + a.model}
		} else {
			run("a0.combineN(a1, w->w)", a, c09Arg{v: c09Int(w[1]), h: -1})
			if err == nil {
				r.unmodelled = true // a lazily stored window has no counterpart in the model
			} else {
				model = []string{"cmbn " + w[1] + " size " + a.model} // same error class
			}
		}
		store = true
	case "app", "tsa":
		if !need(2) {
			return false
		}
		a, b := A(1), A(2)
		recv = a.h
		if bad {
			return false
		}
		if l, ok := a.v.(*value.List); ok {
			ln, cp, present := l.VerifState()
			cls := "lazy"
			if present && ln == cp {
				cls = "full"
			} else if present {
				cls = "spare"
			}
			r.feat(kind + ":parent-" + cls)
			if r.cappedObjs[l] {
				r.feat(kind + ":parent-after-cap-trick")
			}
			if a.h >= 0 {
				h := r.handles[a.h]
				if h.constOf >= 0 {
					r.feat(kind + ":parent-constant")
				}
				if strings.HasPrefix(h.prov, "map") || strings.HasPrefix(h.prov, "acc") || strings.HasPrefix(h.prov, "num") || strings.HasPrefix(h.prov, "top") || strings.HasPrefix(h.prov, "skip") || strings.HasPrefix(h.prov, "cat") || strings.HasPrefix(h.prov, "cmbn") {
					r.feat(kind + ":parent-lazily-produced")
				}
				if h.appended > 0 {
					r.feat(kind + ":branch-from-" + cls)
				}
				h.appended++
			}
			if kind == "app" && (cls == "spare" || cls == "lazy") {
				r.cappedObjs[l] = true
			}
		}
		if kind == "app" {
			run("a0.append(a1)", a, b)
		} else {
			// host idiom on the exported API: NewList(append(l.ToSlice(st), v)...)
			if l, ok := a.v.(*value.List); ok {
				sl, e := l.ToSlice(funcGen.NewEmptyStack[value.Value]())
				if e != nil {
					err = e
				} else {
					res = value.NewList(append(sl, b.v)...)
				}
			} else {
				err = fmt.Errorf("not a list")
			}
			if b.h >= 0 && r.handles[b.h].hasReal || a.h >= 0 && r.handles[a.h].hasReal {
				real = true
			}
		}
		model = []string{kind + " " + a.model + " " + b.model}
	case "set":
		if !need(3) {
			return false
		}
		a, b := A(1), A(3)
		recv = a.h
		run("a0.set(a1,a2)", a, c09Arg{v: c09Int(w[2]), h: -1}, b)
		model = []string{"set " + a.model + " " + w[2] + " " + b.model}
	case "rev", "ord", "ordr", "ordl", "eval", "first", "size", "mw", "alias", "mev":
		if !need(1) {
			return false
		}
		a := A(1)
		recv = a.h
		src := map[string]string{"rev": "a0.reverse()", "ord": "a0.order(e->e)", "ordr": "a0.orderRev(e->e)", "ordl": "a0.orderLess((x,y)->x<y)",
			"eval": "a0.eval()", "first": "a0.first()", "size": "a0.size()", "mw": "a0.movingWindow(e->e)", "alias": "a0", "mev": "a0.eval()"}[kind]
		run(src, a)
		model = []string{kind + " " + a.model}
	case "idx":
		if !need(2) {
			return false
		}
		a := A(1)
		recv = a.h
		run("a0[a1]", a, c09Arg{v: c09Int(w[2]), h: -1})
		model = []string{"idx " + a.model + " " + w[2]}
	case "til":
		// a ~ b on two lists ("all items of a are in b"): an observer of both; no counterpart in the model (the
		// predicate on the implementation decides: no handle may change)
		if !need(2) {
			return false
		}
		a, b := A(1), A(2)
		recv = a.h
		run("a0 ~ a1", a, b)
		model = nil
	case "mwr":
		if !need(2) {
			return false
		}
		a := A(2)
		recv = a.h
		if w[1] != "1" && w[1] != "2" && w[1] != "3" {
			return false
		}
		run("a0.movingWindowRemove(w->w.size()>"+w[1]+")", a)
		model = []string{"mwr " + w[1] + " " + a.model}
	case "grp":
		if !need(3) {
			return false
		}
		a := A(3)
		recv = a.h
		if w[2] != "2" && w[2] != "3" {
			return false
		}
		src := map[string]string{"0": "a0.groupByInt(e->e%K).order(g->g.key)", "1": "a0.groupByString(e->\"k\"+e%K).order(g->g.key)", "2": "a0.groupByEqual(e->e%K)"}[w[1]]
		if src == "" {
			return false
		}
		run(strings.ReplaceAll(src, "K", w[2]), a)
		model = []string{"grp " + w[1] + " " + w[2] + " " + a.model}
	case "obs":
		model = []string{"obs"}
	case "mlit":
		if !need(1) {
			return false
		}
		var args []c09Arg
		var parts, ms []string
		if w[1] != "-" {
			for i, e := range strings.Split(w[1], ",") {
				kv := strings.SplitN(e, "=", 2)
				if len(kv) != 2 {
					return false
				}
				a := r.arg(kv[1])
				if a.badRef {
					return false
				}
				args = append(args, a)
				parts = append(parts, kv[0]+":a"+strconv.Itoa(i))
				ms = append(ms, kv[0]+"="+a.model)
			}
		}
		run("{"+strings.Join(parts, ",")+"}", args...)
		if len(ms) == 0 {
			model = []string{"mlit -"}
		} else {
			model = []string{"mlit " + strings.Join(ms, ",")}
		}
	case "put":
		if !need(3) {
			return false
		}
		a, b := A(1), A(3)
		recv = a.h
		run("a0.put(a1,a2)", a, c09Arg{v: value.String(w[2]), h: -1}, b)
		model = []string{"put " + a.model + " " + w[2] + " " + b.model}
	case "rpl":
		if !need(2) {
			return false
		}
		a, b := A(1), A(2)
		recv = a.h
		run("a0.replace(x->a1)", a, b)
		model = []string{"rpl " + a.model + " " + b.model}
	case "macc":
		if !need(2) {
			return false
		}
		a := A(2)
		recv = a.h
		run("a0.accept((k,v)->k!=\""+w[1]+"\")", a)
		model = []string{"macc " + w[1] + " " + a.model}
	case "mcmb":
		if !need(2) {
			return false
		}
		a, b := A(1), A(2)
		recv = a.h
		run("a0.combine(a1,(x,y)->x+y)", a, b)
		model = []string{"mcmb " + a.model + " " + b.model}
	case "mget":
		if !need(2) {
			return false
		}
		a := A(1)
		recv = a.h
		run("a0.get(a1)", a, c09Arg{v: value.String(w[2]), h: -1})
		model = []string{"mget " + a.model + " " + w[2]}
	case "flk":
		// a lazy list over a source that can be armed to fail (identity otherwise); the model sees map id
		if !need(2) {
			return false
		}
		a := A(2)
		recv = a.h
		if w[1] == "number" {
			run("a0.number((n,e)->flaky(e))", a)
		} else {
			run("a0.map(e->flaky(e))", a)
		}
		model = []string{"map id " + a.model}
	case "flkeval":
		// the first materialisation fails in the middle (third element), the failure is caught; nothing may be left behind
		if !need(1) {
			return false
		}
		a := A(1)
		recv = a.h
		c09FlakyArmed = 3
		run("try a0.eval().size() catch 0 - 1", a)
		c09FlakyArmed = 0
		model = nil
	case "fmap":
		// a function-backed map of the run's factory (Go API NewFuncMapFactory; the declared keys are not in alphabetical
		// order and are shared by all maps of the factory): no counterpart in the model, the predicate decides from here on
		if !need(1) {
			return false
		}
		if r.fmapFac == nil {
			fac := value.NewFuncMapFactory[value.Int](func(k value.Int, key string) (value.Value, bool) {
				switch key {
				case "zeta":
					return k, true
				case "alpha":
					return k * 10, true
				case "mid":
					return value.String("m"), true
				}
				return nil, false
			}, "zeta", "alpha", "mid")
			r.fmapFac = &fac
		}
		k, e2 := strconv.Atoi(w[1])
		if e2 != nil {
			return false
		}
		res, err = r.fmapFac.Create(value.Int(k)), nil
		r.unmodelled = true
	case "mmiss":
		// a failed key lookup (the error message lists the available keys) and a method call (which first looks for a
		// closure field of that name): observers
		if !need(1) {
			return false
		}
		a := A(1)
		recv = a.h
		run("[try a0.nosuchkey catch 0, try a0.size() catch 0 - 1].size()", a)
		model = nil
	default:
		return false
	}
	if bad {
		return false
	}
	r.ops = append(r.ops, op)
	if recv >= 0 {
		h := r.handles[recv]
		if kind != "app" && kind != "tsa" {
			h.appended += 0
		}
	}
	// result
	resText := "E"
	created := -1
	if kind == "obs" {
		resText = "V0"
	} else if err == nil && res != nil {
		switch res.(type) {
		case *value.List, value.Map:
			resText = "H"
		default:
			canon, _, _ := c09Canon(res)
			resText = "V" + canon
		}
	}
	r.feat("op:" + kind)
	if resText == "E" {
		r.feat("error:" + kind)
	}
	// model ops
	if !r.unmodelled || kind != "cmbs" {
		if !r.unmodelled {
			for i, m := range model {
				last := i == len(model)-1
				r.modelOps = append(r.modelOps, m)
				if last {
					r.expect = append(r.expect, c09Expect{check: true, res: resText})
				} else {
					r.expect = append(r.expect, c09Expect{check: false})
					r.modelPool++ // hidden intermediate handle of a constant expression
				}
			}
		}
	}
	if resText == "H" {
		created = r.newHandle(res, kind, store)
		if real {
			r.handles[created].hasReal = true // a hash map may be underneath: its raw string() order varies
		}
		if kind == "const" {
			id, _ := strconv.Atoi(w[1])
			r.handles[created].constOf = id
		}
		if !r.unmodelled {
			r.modelPool++
		} else {
			r.handles[created].midx = -1
		}
	}
	r.created = append(r.created, created)
	obs := r.observeAll(op, kind == "obs")
	if !r.unmodelled && len(model) > 0 {
		e := &r.expect[len(r.expect)-1]
		e.obs = obs
		e.caps = r.caps()
	}
	return true
}

// ---- generating the next operation from the current pool ---------------------------------------------

func c09NewRun(c *Ctx) *c09Run {
	return &c09Run{c: c, consts: map[int]struct {
		f c09Func
		h int
	}{}, features: map[string]int{}, cappedObjs: map[*value.List]bool{}}
}

func (r *c09Run) pick(rng *rand.Rand, ok func(h *c09Handle) bool) int {
	var c []int
	for i, h := range r.handles {
		if ok(h) {
			c = append(c, i)
		}
	}
	if len(c) == 0 {
		return -1
	}
	// prefer recent handles, but keep old ones in play (branching from old parents)
	if rng.Intn(3) == 0 {
		return c[len(c)-1-rng.Intn(min(3, len(c)))]
	}
	return c[rng.Intn(len(c))]
}

func c09SmallInt(rng *rand.Rand) string { return "i" + strconv.Itoa(rng.Intn(12)-2) }

var c09Keys = []string{"a", "b", "c", "d", "k", "l", "x"}

// next proposes an operation for the current state (mostly valid; a few that fail on purpose).
func (r *c09Run) next(rng *rand.Rand) string {
	isList := func(h *c09Handle) bool { return !h.isMap && !strings.Contains(h.firstCanon, "!") }
	intList := func(h *c09Handle) bool { return isList(h) && h.allInt && h.n <= 14 }
	smallList := func(h *c09Handle) bool { return isList(h) && h.n <= 14 && h.depth <= 5 && len(h.firstCanon) <= 1500 }
	isMap := func(h *c09Handle) bool { return h.isMap }
	intMap := func(h *c09Handle) bool {
		return h.isMap && !strings.ContainsAny(h.firstCanon, "[\"") && strings.Count(h.firstCanon, "{") == 1
	}
	// values that are stored in other values stay small: the cost of observing every handle after
	// every step grows with the product of the nesting
	any := func(h *c09Handle) bool {
		return h.depth <= 4 && len(h.firstCanon) <= 200 && !strings.Contains(h.firstCanon, "!")
	}
	val := func() string { // an element to store: mostly ints, sometimes an existing handle
		if rng.Intn(5) == 0 {
			if k := r.pick(rng, any); k >= 0 {
				return "h" + strconv.Itoa(k)
			}
		}
		return c09SmallInt(rng)
	}
	H := func(k int) string { return "h" + strconv.Itoa(k) }
	for try := 0; try < 30; try++ {
		p := rng.Intn(1000)
		switch {
		case p < 60 || len(r.handles) == 0:
			switch rng.Intn(4) {
			case 0:
				return "const " + strconv.Itoa(rng.Intn(len(c09Consts)))
			case 1:
				return "num " + strconv.Itoa(rng.Intn(7))
			default:
				n := rng.Intn(6)
				if n == 0 {
					return "lit -"
				}
				var vs []string
				for i := 0; i < n; i++ {
					vs = append(vs, val())
				}
				return "lit " + strings.Join(vs, ",")
			}
		case p < 110:
			if len(r.consts) > 0 && rng.Intn(2) == 0 { // evaluate a constant again
				for id := range c09Consts {
					if _, ok := r.consts[id]; ok && rng.Intn(2) == 0 {
						return "const " + strconv.Itoa(id)
					}
				}
			}
			return "const " + strconv.Itoa(rng.Intn(len(c09Consts)))
		case p < 360: // append: the heart of the property; often on a parent that was appended to before
			k := r.pick(rng, func(h *c09Handle) bool { return smallList(h) && h.appended > 0 })
			if k < 0 || rng.Intn(2) == 0 {
				k = r.pick(rng, smallList)
			}
			if k >= 0 {
				return "app " + H(k) + " " + val()
			}
		case p < 390:
			if k := r.pick(rng, smallList); k >= 0 {
				return "tsa " + H(k) + " " + val()
			}
		case p < 470: // lazy derivations
			k := r.pick(rng, intList)
			if k < 0 {
				continue
			}
			switch rng.Intn(4) {
			case 0:
				return "map " + []string{"id", "add:1", "add:10", "mul:2"}[rng.Intn(4)] + " " + H(k)
			case 1:
				return "acc " + []string{"all", "ge:2", "ge:3", "even"}[rng.Intn(4)] + " " + H(k)
			case 2:
				return "cmbn " + strconv.Itoa(1+rng.Intn(3)) + " " + []string{"fl", "size"}[rng.Intn(2)] + " " + H(k)
			default:
				return "map id " + H(k)
			}
		case p < 530:
			if k := r.pick(rng, smallList); k >= 0 {
				switch rng.Intn(4) {
				case 0:
					return "top " + strconv.Itoa(rng.Intn(6)-1) + " " + H(k)
				case 1:
					return "skip " + strconv.Itoa(rng.Intn(5)-1) + " " + H(k)
				case 2:
					return "map id " + H(k)
				default:
					if k2 := r.pick(rng, smallList); k2 >= 0 && r.handles[k].n+r.handles[k2].n <= 14 {
						return "cat " + H(k) + " " + H(k2)
					}
				}
			}
		case p < 640: // eager list operations on copies
			k := r.pick(rng, smallList)
			if k < 0 {
				continue
			}
			h := r.handles[k]
			switch rng.Intn(6) {
			case 0:
				return "rev " + H(k)
			case 1:
				idx := rng.Intn(h.n + 1)
				if rng.Intn(10) == 0 {
					idx = h.n + rng.Intn(2)
				}
				return "set " + H(k) + " " + strconv.Itoa(idx) + " " + val()
			case 2, 3:
				if h.allInt {
					return []string{"ord", "ordr", "ordl"}[rng.Intn(3)] + " " + H(k)
				}
				if rng.Intn(8) == 0 {
					// OrderLess drops the errors of its comparison function (value receiver): only
					// order/orderRev are used on lists that cannot be compared
					return []string{"ord", "ordr"}[rng.Intn(2)] + " " + H(k)
				}
			case 4:
				return "eval " + H(k)
			default:
				return "alias " + H(k)
			}
		case p < 700: // partial consumption, indexing, size
			k := r.pick(rng, smallList)
			if k < 0 {
				continue
			}
			h := r.handles[k]
			switch rng.Intn(4) {
			case 0:
				return "first " + H(k)
			case 1:
				return "idx " + H(k) + " " + strconv.Itoa(rng.Intn(h.n+2)-1)
			case 2:
				if k2 := r.pick(rng, smallList); k2 >= 0 {
					return "til " + H(k) + " " + H(k2)
				}
				return "size " + H(k)
			default:
				return "size " + H(k)
			}
		case p < 760: // windows and groups
			k := r.pick(rng, intList)
			if k < 0 {
				continue
			}
			switch rng.Intn(5) {
			case 0:
				return "mw " + H(k)
			case 1:
				return "mwr " + strconv.Itoa(1+rng.Intn(3)) + " " + H(k)
			case 2:
				return "cmbe " + strconv.Itoa(1+rng.Intn(3)) + " " + H(k)
			case 3:
				if rng.Intn(3) == 0 {
					return "cmbs " + strconv.Itoa(2+rng.Intn(2)) + " " + H(k)
				}
				return "cmbe " + strconv.Itoa(rng.Intn(4)) + " " + H(k)
			default:
				return "grp " + strconv.Itoa(rng.Intn(3)) + " " + strconv.Itoa(2+rng.Intn(2)) + " " + H(k)
			}
		case p < 790:
			if k := r.pick(rng, func(h *c09Handle) bool { return isList(h) && !h.allInt && h.n <= 14 && h.n > 0 }); k >= 0 {
				// windows of lists of lists / removal windows need no ints
				if rng.Intn(2) == 0 {
					return "mwr " + strconv.Itoa(1+rng.Intn(3)) + " " + H(k)
				}
				return "idx " + H(k) + " " + strconv.Itoa(rng.Intn(r.handles[k].n))
			}
		case p < 850:
			return "obs"
		case p < 890: // maps
			n := rng.Intn(4)
			if n == 0 {
				return "mlit -"
			}
			perm := rng.Perm(len(c09Keys))
			var es []string
			for i := 0; i < n; i++ {
				es = append(es, c09Keys[perm[i]]+"="+val())
			}
			return "mlit " + strings.Join(es, ",")
		case p < 1000:
			k := r.pick(rng, isMap)
			if k < 0 {
				continue
			}
			switch rng.Intn(9) {
			case 0, 1:
				return "put " + H(k) + " " + c09Keys[rng.Intn(len(c09Keys))] + " " + val()
			case 2:
				if k2 := r.pick(rng, isMap); k2 >= 0 {
					return "mrg " + H(k) + " " + H(k2)
				}
			case 3:
				if k2 := r.pick(rng, isMap); k2 >= 0 {
					return "rpl " + H(k) + " " + H(k2)
				}
			case 4:
				return "mev " + H(k)
			case 5:
				if intMap(r.handles[k]) {
					return "mmap add:1 " + H(k)
				}
				return "mmap id " + H(k)
			case 6:
				return "macc " + c09Keys[rng.Intn(len(c09Keys))] + " " + H(k)
			case 7:
				if k2 := r.pick(rng, intMap); k2 >= 0 && intMap(r.handles[k]) {
					return "mcmb " + H(k) + " " + H(k2)
				}
			default:
				return "mget " + H(k) + " " + c09Keys[rng.Intn(len(c09Keys))]
			}
		}
	}
	return "lit " + c09SmallInt(rng)
}

// ---- correspondence with the model -------------------------------------------------------------------

func c09ApplyDelta(state map[int]string, delta string) {
	if delta == "-" || delta == "" {
		return
	}
	for _, e := range strings.Split(delta, ";") {
		kv := strings.SplitN(e, "=", 2)
		if len(kv) != 2 {
			continue
		}
		k, err := strconv.Atoi(kv[0])
		if err == nil {
			state[k] = kv[1]
		}
	}
}

func (r *c09Run) request(grow string) string {
	return "HIST\t" + grow + "\t" + strings.Join(r.modelOps, "\t")
}

// compare returns "" or a description of the first difference between model and implementation.
func (r *c09Run) compare(resp string) (diff string, capAgree, capDiffer int) {
	fields := strings.Split(resp, "\t")
	if len(fields) != len(r.modelOps) {
		return fmt.Sprintf("model answered %d steps for %d operations: %s", len(fields), len(r.modelOps), resp), 0, 0
	}
	obs := map[int]string{}
	caps := map[int]string{}
	for i, f := range fields {
		parts := strings.Split(f, " ")
		if len(parts) != 3 {
			return "model rejected operation " + r.modelOps[i] + ": " + f, capAgree, capDiffer
		}
		c09ApplyDelta(obs, parts[1])
		c09ApplyDelta(caps, parts[2])
		e := r.expect[i]
		if !e.check {
			continue
		}
		if parts[0] != e.res {
			return fmt.Sprintf("step %d %q: result model %s, implementation %s", i, r.modelOps[i], parts[0], e.res), capAgree, capDiffer
		}
		for k, canon := range e.obs {
			if k < 0 {
				continue
			}
			if obs[k] != canon {
				return fmt.Sprintf("step %d %q: handle (model pool %d) model %s, implementation %s", i, r.modelOps[i], k, obs[k], canon), capAgree, capDiffer
			}
		}
		for k, cp := range e.caps {
			if caps[k] == cp {
				capAgree++
			} else {
				capDiffer++
			}
		}
	}
	return "", capAgree, capDiffer
}

// ---- shrinking ------------------------------------------------------------------------------------

var c09HRef = func() func(op string, f func(k int) (int, bool)) (string, bool) {
	return func(op string, f func(k int) (int, bool)) (string, bool) {
		w := strings.Fields(op)
		ok := true
		ren := func(t string) string {
			if strings.HasPrefix(t, "h") {
				if k, err := strconv.Atoi(t[1:]); err == nil {
					nk, good := f(k)
					if !good {
						ok = false
					}
					return "h" + strconv.Itoa(nk)
				}
			}
			return t
		}
		for i := 1; i < len(w); i++ {
			if strings.Contains(w[i], ",") || strings.Contains(w[i], "=") {
				es := strings.Split(w[i], ",")
				for j, e := range es {
					if kv := strings.SplitN(e, "=", 2); len(kv) == 2 {
						es[j] = kv[0] + "=" + ren(kv[1])
					} else {
						es[j] = ren(e)
					}
				}
				w[i] = strings.Join(es, ",")
			} else {
				w[i] = ren(w[i]) // keys are single letters other than "h": never renamed
			}
		}
		return strings.Join(w, " "), ok
	}
}()

// c09Replay runs the operations on a fresh state.
func c09Replay(c *Ctx, ops []string) *c09Run {
	r := c09NewRun(c)
	for _, op := range ops {
		if !r.exec(op) {
			return nil
		}
		if r.viol != nil {
			break
		}
	}
	return r
}

// c09Shrink drops operations while the same signature is still violated.
func c09Shrink(c *Ctx, ops []string, sig string) []string {
	cur := ops
	for pass := 0; pass < 4; pass++ {
		changed := false
		for i := len(cur) - 1; i >= 0; i-- {
			// which handle does op i create?
			r0 := c09NewRun(c)
			okRun := true
			for _, op := range cur[:i+1] {
				if !r0.exec(op) {
					okRun = false
					break
				}
			}
			if !okRun {
				continue
			}
			created := r0.created[len(r0.created)-1]
			var cand []string
			good := true
			cand = append(cand, cur[:i]...)
			for _, op := range cur[i+1:] {
				n, ok := c09HRef(op, func(k int) (int, bool) {
					if created < 0 {
						return k, true
					}
					if k == created {
						return k, false
					}
					if k > created {
						return k - 1, true
					}
					return k, true
				})
				if !ok {
					good = false
					break
				}
				cand = append(cand, n)
			}
			if !good {
				continue
			}
			if rr := c09Replay(c, cand); rr != nil && rr.viol != nil && rr.viol.signature == sig {
				cur = append([]string{}, rr.ops...)
				changed = true
			}
		}
		if !changed {
			break
		}
	}
	return cur
}

// ---- corpus: histories written by hand (past failures and the capacity states of the property) -------

var c09Corpus = [][]string{
	// B7: windows handed out by combineN, stored by the closure, observed before and after Eval
	{"num 5", "cmbs 3 h0", "obs"},
	{"num 5", "cmbe 3 h0", "idx h1 0", "app h2 i9", "obs"},
	{"num 6", "cmbn 3 fl h0", "obs"},
	// branching appends in every capacity state: len = cap (literal)
	{"lit i1,i2,i3", "app h0 i4", "app h0 i5", "app h1 i6", "app h1 i7", "obs"},
	// spare capacity from Eval of a lazy list, then the cap trick, then len = cap
	{"num 3", "map mul:2 h0", "app h1 i7", "app h1 i9", "app h2 i1", "app h2 i2", "app h3 i3", "obs"},
	{"num 5", "eval h0", "app h0 i1", "app h0 i2", "app h2 i3", "app h2 i4", "app h1 i5"},
	// constant-folded lists: literal, folded append with spare capacity, folded lazy list
	{"const 0", "app h0 i4", "const 0", "app h2 i5", "app h0 i6", "obs"},
	{"const 2", "app h0 i4", "app h0 i5", "const 2", "app h3 i6", "obs"},
	{"const 3", "app h0 i7", "const 3", "app h2 i9", "app h1 i1", "obs"},
	{"const 8", "app h0 i1", "app h0 i2", "const 8", "obs"},
	{"const 9", "first h0", "app h0 i1", "app h0 i2", "const 9", "size h3"},
	// set / reverse / order on copies
	{"lit i3,i1,i2", "rev h0", "ord h0", "ordr h0", "ordl h0", "set h0 0 i9", "set h1 2 h0", "obs"},
	// windows are sub-slices of the parent: append to a window must not reach the parent
	{"lit i1,i2,i3,i5,i6", "mw h0", "idx h1 1", "app h2 i9", "idx h1 0", "app h4 i8", "obs"},
	{"lit i1,i2,i3,i4", "mwr 2 h0", "idx h1 2", "app h2 i9", "app h2 i8", "obs"},
	// groups: lists with spare capacity inside maps
	{"lit i1,i2,i3,i4,i5,i6,i7", "grp 0 3 h0", "idx h1 1", "mget h2 values", "app h3 i9", "app h3 i8", "obs"},
	// host idiom on ToSlice
	{"num 3", "eval h0", "tsa h0 i7", "tsa h0 i8", "app h0 i9", "obs"},
	// lazily derived lists read the parent object when iterated
	{"num 4", "map add:1 h0", "acc even h1", "top 1 h2", "first h3", "app h1 i9", "eval h2", "cat h1 h2", "obs"},
	// lists stored in other values
	{"lit i1,i2", "lit h0,h0,i3", "app h0 i3", "mlit l=h0,n=i1", "put h3 k h1", "app h0 i4", "mget h4 l", "app h6 i5", "obs"},
	// maps
	{"mlit a=i1,b=i2", "put h0 c i3", "put h0 c i4", "mlit d=i4", "mrg h1 h3", "mrg h2 h3", "mlit a=i5,x=i9", "rpl h0 h6", "mev h4", "mmap add:1 h0", "macc a h4", "mcmb h0 h0", "obs"},
	{"const 7", "put h0 c i3", "const 7", "put h2 c i4", "mev h0", "obs"},
	// ~ with a list on the left removes the items it has found from a work copy, never from the operand
	{"lit i1,i2,i3", "lit i1,i2,i3,i4", "til h0 h1", "til h0 h1", "lit i3,i1", "til h2 h0", "app h2 i9", "til h0 h3", "obs"},
	{"num 4", "eval h0", "num 6", "til h1 h2", "til h0 h2", "app h1 i7", "til h3 h2", "obs"},
	// a first materialisation that fails in the middle leaves nothing behind: the list is complete when it is looked at again
	{"lit i5,i6,i7,i8,i9", "flk map h0", "flkeval h1", "size h1", "app h1 i1", "obs"},
	{"num 6", "flk number h0", "flkeval h1", "idx h1 4", "rev h1", "app h1 i2", "obs"},
	{"lit i1,i2,i3,i4", "flk map h0", "flk number h1", "flkeval h2", "flkeval h1", "eval h2", "obs"},
	// reading an entry does not move it: maps with more entries than any lookup heuristic would leave alone
	{"mlit a=i1,b=i2,c=i3,d=i4,e=i5,f=i6", "mget h0 f", "mget h0 e", "put h0 g i7", "mget h1 f", "mget h1 d", "obs"},
	{"mlit k0=i0,k1=i1,k2=i2,k3=i3,k4=i4,k5=i5,k6=i6,k7=i7,k8=i8,k9=i9,k10=i10", "mget h0 k10", "mget h0 k9", "mget h0 k4", "mlit z=i1", "mrg h0 h1", "mget h2 k8", "obs"},
	// a stage that cuts a list of unknown size: top with more than there is
	{"lit i0,i1", "acc all h0", "top 5 h1", "obs", "top 5 h1", "size h2", "obs"},
	{"num 10", "acc ge:3 h0", "top 9 h1", "skip 0 h2", "obs"},
	// maps of one function-map factory: a failed lookup on one of them changes neither it nor its siblings
	{"fmap 1", "fmap 2", "mmiss h0", "mmiss h1", "obs", "mlit q=i1", "mrg h0 h2", "mmiss h3", "obs"},
	// a replaced map knows only the keys of the original (the model once looked into the replacement first)
	{"mlit -", "mlit a=i1", "rpl h0 h1", "mrg h2 h1", "put h2 a i5", "mlit a=i2,b=i3", "mlit b=i4,c=i5", "rpl h5 h6", "mlit c=i6", "mrg h7 h8", "obs"},
	// a ListMap with spare capacity (accept): two derivations from it must not share the spare cell
	{"mlit a=i1,b=i2,c=i3", "macc a h0", "mlit d=i4", "mlit x=i5", "mrg h1 h2", "mrg h1 h3", "put h1 k i6", "put h1 l i7", "mmap add:1 h1", "obs"},
}

// c09ForkSweep: every capacity state of a parent (len = cap, spare capacity not yet used, spare capacity already
// used, lazily produced, constant) x every way to derive a value from it x appends to the derived value(s) and
// to the parent in both orders. Each operation creates the handle with its own index.
func c09ForkSweep() [][]string {
	bases := [][]string{
		{"lit i1,i2,i3"},
		{"lit i1,i2", "app h0 i3"},
		{"lit i1,i2", "app h0 i3", "app h1 i4"},
		{"lit i1,i2", "app h0 i3", "app h0 i4"},
		{"num 4", "eval h0"},
		{"num 3", "map mul:2 h0"},
		{"num 5", "acc ge:2 h0"},
		{"num 5", "eval h0", "top 3 h1"},
		{"const 0"}, {"const 2"}, {"const 3"},
	}
	derive := []string{"top 2 @", "top 1 @", "top 9 @", "skip 1 @", "skip 0 @", "skip 2 @", "map id @", "eval @", "alias @", "rev @", "ord @", "cat @ @", "acc all @", "set @ 0 i7", "app @ i6"}
	var res [][]string
	for _, b := range bases {
		B := "h" + strconv.Itoa(len(b)-1)
		for _, d1 := range derive {
			for _, d2 := range derive {
				if d2 != d1 && d2 != "app @ i6" && d2 != "skip 1 @" && d2 != "top 2 @" {
					continue
				}
				ops := append([]string(nil), b...)
				ops = append(ops, strings.ReplaceAll(d1, "@", B))
				D1 := "h" + strconv.Itoa(len(ops)-1)
				ops = append(ops, strings.ReplaceAll(d2, "@", B))
				D2 := "h" + strconv.Itoa(len(ops)-1)
				for _, order := range [][]string{{D1, D2, B}, {B, D1, D2}, {D2, B, D1}, {D1, B, D1}} {
					h := append([]string(nil), ops...)
					for i, t := range order {
						h = append(h, "app "+t+" i"+strconv.Itoa(20+i))
					}
					h = append(h, "obs")
					res = append(res, h)
				}
			}
		}
	}
	return res
}

func c09Nontrivial(r *c09Run) bool {
	branch := false
	for _, h := range r.handles {
		if h.appended >= 2 {
			branch = true
		}
	}
	if !branch {
		// two derivations of any kind from the same handle
		seen := map[string]int{}
		for _, op := range r.ops {
			for _, t := range strings.Fields(op)[1:] {
				if strings.HasPrefix(t, "h") {
					seen[t]++
					break
				}
			}
		}
		for _, n := range seen {
			if n >= 2 {
				branch = true
			}
		}
	}
	mat := false
	for _, op := range r.ops {
		switch strings.Fields(op)[0] {
		case "app", "set", "rev", "ord", "ordr", "ordl", "eval", "idx", "size", "mw", "mwr", "tsa", "obs", "cmbe", "mev", "til", "mmiss", "flkeval":
			mat = true
		}
	}
	return branch && mat
}

func runC09(c *Ctx) {
	log.SetOutput(io.Discard) // recovered panics of generated functions are logged by the library
	c.rule = "histories of list/map operations (34 kinds incl. append, set, reverse, order*, +, map, accept, top, skip, eval, first, l[i], size, list ~ list, movingWindow*, combineN lazy/stored, groupBy*, host append on ToSlice, constants evaluated repeatedly; put, +, replace, eval, map, accept, combine, get on maps) over a pool of handles, plus a fork sweep (11 parent capacity states x 15 derivations x 2..4 sibling derivations x 4 append orders), every handle observed after every step (deep canonical walk, string(); at obs steps size() and = against a copy of its first observation) on the real code, and compared with the Lean model's abs of every handle after every step; non-trivial = distinct history with at least one branch (two derivations from the same handle) and one materialising operation"
	c.assume = append(c.assume,
		"closures in generated programs come from a fixed pool of pure functions; ints stay far below 2^63",
		"VerifState (hook) is used only for the capacity-state histogram, never for a verdict",
		"a lazily stored combineN window (cmbs) has no counterpart in the model: such histories are checked by the predicate on the implementation only from that step on (counted as unmodelled)")

	maxLen := c.Pick(12, 30)
	n := c.Pick(15000, 150000)
	var cases []*c09Run
	flushCases := func() {}

	finish := func(r *c09Run, kind string) {
		canon := strings.Join(r.ops, ";")
		c.Case(canon, c09Nontrivial(r))
		c.Count("history:" + kind)
		c.Count(fmt.Sprintf("length=%02d", len(r.ops)/3*3))
		c.Count(fmt.Sprintf("handles=%02d", len(r.handles)/4*4))
		for k, v := range r.features {
			c.hist[k] += v
		}
		if r.unmodelled {
			c.Count("unmodelled_hit")
		}
		if r.viol != nil {
			ops := c09Shrink(c, r.viol.replay["history"].([]string), r.viol.signature)
			rr := c09Replay(c, ops)
			if rr != nil && rr.viol != nil {
				rr.viol.replay["shrunk_from"] = len(r.ops)
				c.Violation(rr.viol.signature, rr.viol.what, rr.viol.replay)
			} else {
				c.Violation(r.viol.signature, r.viol.what, r.viol.replay)
			}
			return
		}
		if len(c.samples) < 3 && c09Nontrivial(r) && len(r.ops) >= 6 {
			c.Sample(map[string]any{"history": r.ops, "first_observations": func() []string {
				var o []string
				for _, h := range r.handles {
					o = append(o, h.firstCanon)
				}
				return o
			}()})
		}
		cases = append(cases, r)
		if len(cases) >= 2000 {
			flushCases()
		}
	}

	// correspondence, in batches
	batchNo := 0
	flush := func() {
		batchNo++
		{
			start, end := 0, len(cases)
			var reqs []string
			var idx []int
			for i := start; i < end; i++ {
				if len(cases[i].modelOps) == 0 {
					continue
				}
				reqs = append(reqs, cases[i].request("go"))
				idx = append(idx, i)
				if (i+batchNo)%10 == 0 {
					// the observations must not depend on the growth policy
					reqs = append(reqs, cases[i].request("min"))
					idx = append(idx, -i-1)
				}
			}
			resp := c.Model(reqs)
			for j, rsp := range resp {
				i := idx[j]
				alt := i < 0
				if alt {
					i = -i - 1
				}
				r := cases[i]
				diff, agree, differ := r.compare(rsp)
				if !alt {
					c.hist["capstate:model=impl"] += agree
					c.hist["capstate:model≠impl(informational)"] += differ
				}
				if diff != "" {
					c.disagree++
					name := "corr:HIST"
					if alt {
						name = "corr:HIST(grow=min)"
					}
					if len(c.violations) < 50 {
						c.Broken(name, "model and implementation differ: "+diff, map[string]any{"history": r.ops, "request": reqs[j], "response": rsp})
					}
				} else {
					c.Count("corr:agree")
				}
			}
		}
		cases = cases[:0]
	}
	flushCases = flush

	// replay of a recorded case
	if p := os.Getenv("VERIF_REPLAY"); p != "" {
		data, err := os.ReadFile(p)
		if err != nil {
			fatal("replay: %v", err)
		}
		var rep struct {
			History []string `json:"history"`
		}
		if err := json.Unmarshal(data, &rep); err != nil || len(rep.History) == 0 {
			fatal("replay: no history in %s", p)
		}
		r := c09NewRun(c)
		for _, op := range rep.History {
			if !r.exec(op) {
				fatal("replay: operation %q is not executable", op)
			}
			if r.viol != nil {
				break
			}
		}
		finish(r, "replay")
		n = 0
	} else {
		for _, ops := range c09Corpus {
			r := c09NewRun(c)
			for _, op := range ops {
				if !r.exec(op) {
					fatal("C09 corpus: operation %q is not executable in %v", op, ops)
				}
				if r.viol != nil {
					break
				}
			}
			finish(r, "corpus")
		}
		for _, ops := range c09ForkSweep() {
			r := c09NewRun(c)
			for _, op := range ops {
				if !r.exec(op) {
					fatal("C09 fork sweep: operation %q is not executable in %v", op, ops)
				}
				if r.viol != nil {
					break
				}
			}
			finish(r, "fork-sweep")
		}
	}

	// targeted search when a fact obligation is broken: ×10 budget on the operations the facts govern
	broken := c.BrokenObligs()
	targeted := false
	for _, o := range broken {
		if strings.Contains(o.Name, "heapFacts") || strings.Contains(o.Name, "current") || strings.Contains(o.Name, "listMapSites") || strings.Contains(o.Name, "mapStorages") {
			targeted = true
		}
	}
	if targeted && os.Getenv("VERIF_REPLAY") == "" {
		n *= 3
		c.Count("targeted-search")
	}

	deadline := time.Duration(c.Pick(45, 480)) * time.Second
	for i := 0; i < n; i++ {
		if i%500 == 0 && time.Since(c.start) > deadline {
			// safety net for an overloaded machine: the tier's wall-clock budget is respected
			c.extra["budget_cut_after_histories"] = i
			break
		}
		r := c09NewRun(c)
		L := 3 + c.rng.Intn(maxLen-2)
		if targeted && i%2 == 0 {
			// start from the scenarios the facts are about and continue at random
			seedOps := c09Corpus[c.rng.Intn(len(c09Corpus))]
			for _, op := range seedOps {
				if r.viol == nil {
					r.exec(op)
				}
			}
			L += len(seedOps)
		}
		for len(r.ops) < L && r.viol == nil {
			op := r.next(c.rng)
			if !r.exec(op) {
				c.Count("generator:rejected-op")
			}
			if len(r.handles) > 40 {
				break
			}
			total := 0
			for _, h := range r.handles {
				total += len(h.firstCanon)
			}
			if total > 30000 {
				c.Count("generator:history-cut(observation-size)")
				break
			}
		}
		finish(r, "generated")
	}

	flush()
}
