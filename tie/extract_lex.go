package main

// Tie 1 for the scanner (C15, reused by C04/C12): the `switch` tables of token.go
// (run, peek, readStr), the exclusion strings of simpleNumber/simpleIdentifier (parser2.go) and the
// order of the TokenType constants, read with go/ast from the current source and written to
// lean/P2/Generated/LexTables.lean. Anything of unexpected shape is reported in `lexExtractError`
// (obligation P2.Oblig.lexExtract_ok), never silently skipped.

import (
	"fmt"
	"go/ast"
	"go/parser"
	"go/token"
	"path/filepath"
	"strconv"
	"strings"
)

func init() { extractors = append(extractors, extractLexTables) }

var lexKindNames = map[string]string{
	"tIdent": ".ident", "tKeyWord": ".keyword", "tOpen": ".open_", "tClose": ".close", "tOpenBracket": ".openBracket",
	"tCloseBracket": ".closeBracket", "tOpenCurly": ".openCurly", "tCloseCurly": ".closeCurly", "tDot": ".dot",
	"tComma": ".comma", "tColon": ".colon", "tSemicolon": ".semicolon", "tNumber": ".number", "tString": ".string",
	"tOperate": ".operate", "tEof": ".eof", "tInvalid": ".invalid",
}

type lexEmit struct {
	r       rune
	toks    [][2]string // lean kind, image
	comfort string      // lean kind
}

type lexExtract struct {
	emit      []lexEmit
	special   []rune
	aliases   [][2]rune
	escapes   [][2]rune
	strEnd    []rune
	eolImage  string
	numExcl   string
	identExcl string
	kinds     []string
	errs      []string
}

func (x *lexExtract) errf(f string, a ...any) { x.errs = append(x.errs, fmt.Sprintf(f, a...)) }

// lexRuneOf evaluates a case expression: a rune literal, the literal 0 or the constant EOF.
func lexRuneOf(e ast.Expr) (rune, bool) {
	switch v := e.(type) {
	case *ast.BasicLit:
		if v.Kind == token.CHAR {
			s, err := strconv.Unquote(v.Value)
			if err != nil {
				return 0, false
			}
			rs := []rune(s)
			if len(rs) != 1 {
				return 0, false
			}
			return rs[0], true
		}
		if v.Kind == token.INT {
			n, err := strconv.ParseInt(v.Value, 0, 32)
			return rune(n), err == nil
		}
	case *ast.Ident:
		if v.Name == "EOF" {
			return 0, true
		}
	}
	return 0, false
}

func lexSelIs(e ast.Expr, recv, name string) bool {
	s, ok := e.(*ast.SelectorExpr)
	if !ok {
		return false
	}
	id, ok := s.X.(*ast.Ident)
	return ok && id.Name == recv && s.Sel.Name == name
}

// lexTokenLit recognises Token{tKind, "image", t.getLine()}.
func lexTokenLit(e ast.Expr) (kind, image string, ok bool) {
	cl, ok := e.(*ast.CompositeLit)
	if !ok || len(cl.Elts) != 3 {
		return "", "", false
	}
	if id, ok := cl.Type.(*ast.Ident); !ok || id.Name != "Token" {
		return "", "", false
	}
	k, ok := cl.Elts[0].(*ast.Ident)
	if !ok {
		return "", "", false
	}
	lk, ok := lexKindNames[k.Name]
	if !ok {
		return "", "", false
	}
	lit, ok := cl.Elts[1].(*ast.BasicLit)
	if !ok || lit.Kind != token.STRING {
		return "", "", false
	}
	img, err := strconv.Unquote(lit.Value)
	if err != nil {
		return "", "", false
	}
	call, ok := cl.Elts[2].(*ast.CallExpr)
	if !ok || !lexSelIs(call.Fun, "t", "getLine") {
		return "", "", false
	}
	return lk, img, true
}

// lexEmitBody recognises a case body that only sends constant tokens and optionally ends with
// `if t.comfortEnabled { thisTokenType = tKind }`.
func lexEmitBody(body []ast.Stmt) (toks [][2]string, comfort string, ok bool) {
	comfort = ".invalid"
	for i, st := range body {
		switch s := st.(type) {
		case *ast.SendStmt:
			if id, ok := s.Chan.(*ast.Ident); !ok || id.Name != "tokens" {
				return nil, "", false
			}
			k, img, ok := lexTokenLit(s.Value)
			if !ok {
				return nil, "", false
			}
			toks = append(toks, [2]string{k, img})
		case *ast.IfStmt:
			if i != len(body)-1 || s.Init != nil || s.Else != nil || !lexSelIs(s.Cond, "t", "comfortEnabled") || len(s.Body.List) != 1 {
				return nil, "", false
			}
			as, ok := s.Body.List[0].(*ast.AssignStmt)
			if !ok || as.Tok != token.ASSIGN || len(as.Lhs) != 1 || len(as.Rhs) != 1 {
				return nil, "", false
			}
			l, ok1 := as.Lhs[0].(*ast.Ident)
			r, ok2 := as.Rhs[0].(*ast.Ident)
			if !ok1 || !ok2 || l.Name != "thisTokenType" {
				return nil, "", false
			}
			lk, ok := lexKindNames[r.Name]
			if !ok {
				return nil, "", false
			}
			comfort = lk
		default:
			return nil, "", false
		}
	}
	return toks, comfort, len(toks) > 0
}

func lexFindFunc(f *ast.File, recv, name string) *ast.FuncDecl {
	for _, d := range f.Decls {
		fd, ok := d.(*ast.FuncDecl)
		if !ok || fd.Name.Name != name {
			continue
		}
		if recv == "" && fd.Recv == nil {
			return fd
		}
		if recv != "" && fd.Recv != nil && len(fd.Recv.List) == 1 {
			if st, ok := fd.Recv.List[0].Type.(*ast.StarExpr); ok {
				if id, ok := st.X.(*ast.Ident); ok && id.Name == recv {
					return fd
				}
			}
		}
	}
	return nil
}

// lexSwitchesOn returns the switch statements of fn whose tag is the identifier / selector given.
func lexSwitchesOn(fn *ast.FuncDecl, match func(s *ast.SwitchStmt) bool) []*ast.SwitchStmt {
	var res []*ast.SwitchStmt
	ast.Inspect(fn, func(n ast.Node) bool {
		if s, ok := n.(*ast.SwitchStmt); ok && match(s) {
			res = append(res, s)
		}
		return true
	})
	return res
}

func lexWriteRuneArg(st ast.Stmt) (ast.Expr, bool) {
	es, ok := st.(*ast.ExprStmt)
	if !ok {
		return nil, false
	}
	call, ok := es.X.(*ast.CallExpr)
	if !ok || !lexSelIs(call.Fun, "str", "WriteRune") || len(call.Args) != 1 {
		return nil, false
	}
	return call.Args[0], true
}

func lexContainsRuneLiteral(fn *ast.FuncDecl) (string, int) {
	var lits []string
	ast.Inspect(fn, func(n ast.Node) bool {
		call, ok := n.(*ast.CallExpr)
		if !ok || !lexSelIs(call.Fun, "strings", "ContainsRune") || len(call.Args) != 2 {
			return true
		}
		if lit, ok := call.Args[0].(*ast.BasicLit); ok && lit.Kind == token.STRING {
			if s, err := strconv.Unquote(lit.Value); err == nil {
				lits = append(lits, s)
			}
		}
		return true
	})
	if len(lits) == 0 {
		return "", 0
	}
	for _, l := range lits {
		if l != lits[0] {
			return lits[0], -1
		}
	}
	return lits[0], len(lits)
}

func lexExtractFromSource() *lexExtract {
	x := &lexExtract{}
	fset := token.NewFileSet()
	tf, err := parser.ParseFile(fset, filepath.Join(repoRoot, "token.go"), nil, 0)
	if err != nil {
		x.errf("token.go does not parse: %v", err)
		return x
	}
	pf, err := parser.ParseFile(fset, filepath.Join(repoRoot, "parser2.go"), nil, 0)
	if err != nil {
		x.errf("parser2.go does not parse: %v", err)
		return x
	}

	// TokenType constants in iota order
	for _, d := range tf.Decls {
		gd, ok := d.(*ast.GenDecl)
		if !ok || gd.Tok != token.CONST || len(gd.Specs) == 0 {
			continue
		}
		vs := gd.Specs[0].(*ast.ValueSpec)
		if id, ok := vs.Type.(*ast.Ident); !ok || id.Name != "TokenType" {
			continue
		}
		for _, sp := range gd.Specs {
			for _, n := range sp.(*ast.ValueSpec).Names {
				lk, ok := lexKindNames[n.Name]
				if !ok {
					x.errf("unknown TokenType constant %s", n.Name)
					continue
				}
				x.kinds = append(x.kinds, lk)
			}
		}
	}

	// run: switch n := t.next(...); n { ... }
	if fn := lexFindFunc(tf, "Tokenizer", "run"); fn == nil {
		x.errf("Tokenizer.run not found")
	} else {
		sw := lexSwitchesOn(fn, func(s *ast.SwitchStmt) bool {
			id, ok := s.Tag.(*ast.Ident)
			return ok && id.Name == "n" && s.Init != nil
		})
		if len(sw) != 1 {
			x.errf("Tokenizer.run: expected one switch on n, found %d", len(sw))
		} else {
			hasDefault := false
			for _, c := range sw[0].Body.List {
				cc := c.(*ast.CaseClause)
				if cc.List == nil {
					hasDefault = true
					continue
				}
				toks, comfort, isEmit := lexEmitBody(cc.Body)
				for _, e := range cc.List {
					r, ok := lexRuneOf(e)
					if !ok {
						x.errf("Tokenizer.run: case expression is not a rune constant")
						continue
					}
					if isEmit {
						x.emit = append(x.emit, lexEmit{r: r, toks: toks, comfort: comfort})
					} else {
						x.special = append(x.special, r)
					}
				}
			}
			if !hasDefault {
				x.errf("Tokenizer.run: switch without default")
			}
		}
	}

	// peek: switch t.last { case 'x': t.last = 'y' }
	if fn := lexFindFunc(tf, "Tokenizer", "peek"); fn == nil {
		x.errf("Tokenizer.peek not found")
	} else {
		sw := lexSwitchesOn(fn, func(s *ast.SwitchStmt) bool { return lexSelIs(s.Tag, "t", "last") })
		if len(sw) != 1 {
			x.errf("Tokenizer.peek: expected one switch on t.last, found %d", len(sw))
		} else {
			for _, c := range sw[0].Body.List {
				cc := c.(*ast.CaseClause)
				if cc.List == nil {
					x.errf("Tokenizer.peek: alias switch has a default")
					continue
				}
				var to rune
				ok := false
				if len(cc.Body) == 1 {
					if as, isAs := cc.Body[0].(*ast.AssignStmt); isAs && as.Tok == token.ASSIGN && len(as.Lhs) == 1 && len(as.Rhs) == 1 && lexSelIs(as.Lhs[0], "t", "last") {
						to, ok = lexRuneOf(as.Rhs[0])
					}
				}
				if !ok {
					x.errf("Tokenizer.peek: alias case is not `t.last = rune`")
					continue
				}
				for _, e := range cc.List {
					r, ok := lexRuneOf(e)
					if !ok {
						x.errf("Tokenizer.peek: case expression is not a rune constant")
						continue
					}
					x.aliases = append(x.aliases, [2]rune{r, to})
				}
			}
		}
	}

	// readStr: switch c { case 0, '\n', '\r': return EOL; case '\\': switch i {...}; default: write c }
	if fn := lexFindFunc(tf, "Tokenizer", "readStr"); fn == nil {
		x.errf("Tokenizer.readStr not found")
	} else {
		outer := lexSwitchesOn(fn, func(s *ast.SwitchStmt) bool { id, ok := s.Tag.(*ast.Ident); return ok && id.Name == "c" })
		inner := lexSwitchesOn(fn, func(s *ast.SwitchStmt) bool { id, ok := s.Tag.(*ast.Ident); return ok && id.Name == "i" })
		if len(outer) != 1 || len(inner) != 1 {
			x.errf("Tokenizer.readStr: expected one switch on c and one on i")
		} else {
			sawEscape, sawDefault := false, false
			for _, c := range outer[0].Body.List {
				cc := c.(*ast.CaseClause)
				if cc.List == nil {
					arg, ok := (ast.Expr)(nil), false
					if len(cc.Body) == 1 {
						arg, ok = lexWriteRuneArg(cc.Body[0])
					}
					if id, isId := arg.(*ast.Ident); !ok || !isId || id.Name != "c" {
						x.errf("Tokenizer.readStr: default does not just write c")
					}
					sawDefault = true
					continue
				}
				if len(cc.Body) == 1 {
					if ret, ok := cc.Body[0].(*ast.ReturnStmt); ok && len(ret.Results) == 1 {
						k, img, ok := lexTokenLit(ret.Results[0])
						if !ok || k != ".invalid" {
							x.errf("Tokenizer.readStr: terminating case does not return an invalid token")
							continue
						}
						x.eolImage = img
						for _, e := range cc.List {
							r, ok := lexRuneOf(e)
							if !ok {
								x.errf("Tokenizer.readStr: case expression is not a rune constant")
								continue
							}
							x.strEnd = append(x.strEnd, r)
						}
						continue
					}
				}
				// the escape case
				if len(cc.List) == 1 {
					if r, ok := lexRuneOf(cc.List[0]); ok && r == '\\' {
						sawEscape = true
						continue
					}
				}
				x.errf("Tokenizer.readStr: unexpected case in the switch on c")
			}
			if !sawEscape || !sawDefault {
				x.errf("Tokenizer.readStr: escape case or default missing")
			}
			sawDefault = false
			for _, c := range inner[0].Body.List {
				cc := c.(*ast.CaseClause)
				if cc.List == nil {
					ok := len(cc.Body) == 2
					if ok {
						a0, ok0 := lexWriteRuneArg(cc.Body[0])
						a1, ok1 := lexWriteRuneArg(cc.Body[1])
						ok = ok0 && ok1
						if ok {
							r0, isR := lexRuneOf(a0)
							id, isId := a1.(*ast.Ident)
							ok = isR && r0 == '\\' && isId && id.Name == "i"
						}
					}
					if !ok {
						x.errf("Tokenizer.readStr: default of the escape switch does not write backslash and i")
					}
					sawDefault = true
					continue
				}
				var to rune
				ok := false
				if len(cc.Body) == 1 {
					if arg, isW := lexWriteRuneArg(cc.Body[0]); isW {
						to, ok = lexRuneOf(arg)
					}
				}
				if !ok {
					x.errf("Tokenizer.readStr: escape case does not write one rune constant")
					continue
				}
				for _, e := range cc.List {
					r, ok := lexRuneOf(e)
					if !ok {
						x.errf("Tokenizer.readStr: case expression is not a rune constant")
						continue
					}
					x.escapes = append(x.escapes, [2]rune{r, to})
				}
			}
			if !sawDefault {
				x.errf("Tokenizer.readStr: escape switch without default")
			}
		}
	}

	// simpleNumber / simpleIdentifier: strings.ContainsRune("…", r)
	for _, it := range []struct {
		name string
		dst  *string
	}{{"simpleNumber", &x.numExcl}, {"simpleIdentifier", &x.identExcl}} {
		fn := lexFindFunc(pf, "", it.name)
		if fn == nil {
			x.errf("%s not found", it.name)
			continue
		}
		s, n := lexContainsRuneLiteral(fn)
		if n != 1 {
			x.errf("%s: expected exactly one strings.ContainsRune with a literal, found %d", it.name, n)
		}
		*it.dst = s
	}
	return x
}

func lexLeanChar(r rune) string { return fmt.Sprintf("Char.ofNat %d", r) }

func lexLeanRunes(rs []rune) string {
	var parts []string
	for _, r := range rs {
		parts = append(parts, lexLeanChar(r))
	}
	return "[" + strings.Join(parts, ", ") + "]"
}

func lexLeanPairs(ps [][2]rune) string {
	var parts []string
	for _, p := range ps {
		parts = append(parts, "("+lexLeanChar(p[0])+", "+lexLeanChar(p[1])+")")
	}
	return "[" + strings.Join(parts, ", ") + "]"
}

func extractLexTables() {
	x := lexExtractFromSource()
	var b strings.Builder
	b.WriteString("import P2.Model.Lex\n/-! GENERATED by `tie extract` (go/ast) from token.go (switch tables of Tokenizer.run, peek, readStr;\nTokenType constants) and parser2.go (simpleNumber, simpleIdentifier). Do not edit. -/\nnamespace P2.Generated\nopen P2.Lex\n\n")
	b.WriteString("def lexTables : Tables := {\n  emit := [\n")
	for i, e := range x.emit {
		var toks []string
		for _, t := range e.toks {
			toks = append(toks, "("+t[0]+", "+leanCharList(t[1])+")")
		}
		sep := ","
		if i == len(x.emit)-1 {
			sep = ""
		}
		fmt.Fprintf(&b, "    (%s, [%s], %s)%s\n", lexLeanChar(e.r), strings.Join(toks, ", "), e.comfort, sep)
	}
	b.WriteString("  ],\n")
	fmt.Fprintf(&b, "  aliases := %s,\n", lexLeanPairs(x.aliases))
	fmt.Fprintf(&b, "  escapes := %s,\n", lexLeanPairs(x.escapes))
	fmt.Fprintf(&b, "  strEnd := %s,\n", lexLeanRunes(x.strEnd))
	fmt.Fprintf(&b, "  numExcl := %s,\n", leanCharList(x.numExcl))
	fmt.Fprintf(&b, "  identExcl := %s }\n\n", leanCharList(x.identExcl))
	fmt.Fprintf(&b, "/-- runes with a case in `run`'s switch that is more than sending constant tokens -/\ndef lexSpecial : List Char := %s\n\n", lexLeanRunes(x.special))
	fmt.Fprintf(&b, "/-- image of the invalid token `readStr` returns -/\ndef lexEolImage : List Char := %s\n\n", leanCharList(x.eolImage))
	fmt.Fprintf(&b, "/-- the TokenType constants in iota order -/\ndef lexKindOrder : List Kind := [%s]\n\n", strings.Join(x.kinds, ", "))
	fmt.Fprintf(&b, "/-- what the extractor could not read (empty when the source has the expected shape) -/\ndef lexExtractError : String := %s\n\nend P2.Generated\n", strconv.Quote(strings.Join(x.errs, "; ")))
	writeIfChanged(genPath("LexTables.lean"), []byte(b.String()))
}
