package main

// C16 — implicit-attribute mode equals explicit member access everywhere.
//
// One generation yields a program with marked attribute references (§x§); `exp` spells them `x`
// (GenerateWithMap(exp, "m")), `exp'` spells them `m.x` (Generate(exp', "m")). Predicates on the real
// code: (a) both generate or both fail, equal canonical outcomes on every argument map, optimizer off
// and on; (b) with the optimizer off the two parsers return identical trees (incl. OuterIdents,
// Recursive, ThisName). Correspondence: the raw tree of `exp` goes to the Lean resolver (`SCOPE`),
// which answers the tree of map mode, the rewritten raw tree (`expand`) and the tree of explicit mode.

import (
	"bufio"
	"encoding/json"
	"fmt"
	"github.com/hneemann/parser2/value/export"
	"io"
	"os"
	"os/exec"
	"regexp"
	"runtime/debug"
	"sort"
	"strconv"
	"strings"
	"time"

	"github.com/hneemann/parser2"
	"github.com/hneemann/parser2/funcGen"
	"github.com/hneemann/parser2/value"
)

func init() { props["C16"] = runC16 }

const c16Map = "m"

var c16MarkRe = regexp.MustCompile(attrMark + `([A-Za-z_][A-Za-z0-9_]*)` + attrMark)

var c16MarkCallRe = regexp.MustCompile(attrMark + `([A-Za-z_][A-Za-z0-9_]*)` + attrMark + `\(`)

// c16Texts spells the marked program: map mode (`x`), explicit (`m.x`; in call position `(m.x)(…)`,
// which is the tree map mode builds: a call of the member) and the literal substitution `m.x`
// everywhere (in call position `m.x(…)` is a METHOD call on m: a different tree, which calls the
// attribute if it holds a closure).
func c16Texts(marked string) (exp, expl, literal string) {
	exp = c16MarkRe.ReplaceAllString(marked, "$1")
	expl = c16MarkRe.ReplaceAllString(c16MarkCallRe.ReplaceAllString(marked, "("+c16Map+".$1)("), c16Map+".$1")
	literal = c16MarkRe.ReplaceAllString(marked, c16Map+".$1")
	return
}

// attributes of the argument map the generator may reference. Names from the generator's binder
// pool (x y k e n acc it f g) are shadowed by generated lets / parameters / funcs.
var c16Attrs = []pbind{
	{"a", pInt | pAttr}, {"b", pInt | pAttr}, {"x", pInt | pAttr},
	{"y", pInt | pAttr}, {"k", pInt | pAttr}, {"e", pInt | pAttr},
	{"n", pInt | pAttr}, {"acc", pInt | pAttr}, {"zz", pInt | pAttr},
	{"l", pList | pAttr}, {"it", pList | pAttr}, {"w", pList | pAttr},
	{"s", pStr | pAttr}, {"t", pBool | pAttr}, {"fl", pFloat | pAttr},
	{"mp", pMap | pAttr}, {"mf", pMapF | pAttr}, {"f", pFn | pAttr},
	{"g", pFn2 | pAttr},
}

// the map itself (it has int fields x, y) and the constant pi are ordinary names in both spellings
func c16Scope() []pbind {
	sc := append([]pbind{}, c16Attrs...)
	return append(sc, pbind{c16Map, pMap}, pbind{"pi", pFloat})
}

var c16AttrNames = func() map[string]bool {
	m := map[string]bool{}
	for _, a := range c16Attrs {
		m[a.name] = true
	}
	return m
}()

type c16Env struct {
	fgOff, fgOn *value.FunctionGenerator
	clo1, clo2  value.Value
}

func newC16Env() *c16Env {
	e := &c16Env{fgOff: newValueFG(false), fgOn: newValueFG(true)}
	mk := func(src string) value.Value {
		f, _, err := e.fgOff.Generate(src)
		if err != nil {
			fatal("c16: %v", err)
		}
		v, err := f.Eval()
		if err != nil {
			fatal("c16: %v", err)
		}
		return v
	}
	e.clo1 = mk("v -> v * 2 + 1")
	e.clo2 = mk("(u, v) -> u * 10 + v")
	return e
}

func intList(xs ...int64) []value.Value {
	r := make([]value.Value, len(xs))
	for i, x := range xs {
		r[i] = value.Int(x)
	}
	return r
}

// argMap builds the argument map: values vary with j, representation rep (vtree.go buildMap),
// variant 0 = all attributes, 1 and 2 = some attributes missing (run-time error in both spellings).
// Extra keys named like constants, static functions and the map itself are always present.
func (e *c16Env) argMap(j, rep, variant int) value.Map {
	a := []int64{3, 0, -2, 1, 7}[j%5]
	ls := [][]int64{{1, 2, 3}, {}, {5}, {4, 3, 2, 1, 0}, {2, 2}}[(j/2)%5]
	var l value.Value = value.NewList(intList(ls...)...)
	if j%3 == 1 {
		l = lazyList(intList(ls...), false)
	}
	inner := buildMap([]string{"x", "y"}, []value.Value{value.Int(a * 2), value.Int(-1)}, []int{0, 1, 2, 5}[j%4])
	mf := buildMap([]string{"x", "f"}, []value.Value{value.Int(2), e.clo1}, 0)
	keys := []string{"a", "b", "x", "y", "k", "e", "n", "acc", "zz", "l", "it", "w", "s", "t", "fl", "mp", "mf", "f", "g",
		"pi", "true", "abs", "max", c16Map, "extra"}
	vals := []value.Value{value.Int(a), value.Int(10), value.Int(a + 1), value.Int(10), value.Int(2), value.Int(-1), value.Int(4), value.Int(100), value.Int(8),
		l, value.NewList(intList(7, 8)...), lazyList(intList(1, 1, 2), true), value.String([]string{"hi", "", "é"}[j%3]), value.Bool(j%2 == 0), value.Float(1.5), inner, mf, e.clo1, e.clo2,
		value.Int(999), value.Int(0), value.Int(77), e.clo2, value.Int(5), value.String("unused")}
	if j%2 == 1 {
		// closures stored under the names of map methods: `get(1)` in map mode calls the closure, and so does the literal
		// spelling `m.get(1)` (a closure field wins over the method of that name)
		keys = append(keys, "get", "list", "put", "accept", "replace", "combine")
		vals = append(vals, e.clo1, e.clo2, e.clo1, e.clo1, e.clo2, e.clo1)
	}
	drop := map[string]bool{}
	switch variant {
	case 1:
		drop["a"], drop["zz"], drop["extra"] = true, true, true
	case 2:
		drop["zz"], drop["l"], drop["x"], drop["f"] = true, true, true, true
	}
	var ks []string
	var vs []value.Value
	for i, k := range keys {
		if !drop[k] {
			ks = append(ks, k)
			vs = append(vs, vals[i])
		}
	}
	return buildMap(ks, vs, rep)
}

func c16Eval(f funcGen.Func[value.Value], m value.Value) (out string) {
	defer func() {
		if r := recover(); r != nil {
			out = fmt.Sprintf("PANIC %v", r)
		}
	}()
	v, err := f.Eval(m)
	if err != nil {
		return "ERR"
	}
	s, err := canonValue(v)
	if err != nil {
		return "ERR"
	}
	return "OK " + s
}

func c16Generate(f func() (funcGen.Func[value.Value], bool, error)) (fn funcGen.Func[value.Value], ok bool, pan string) {
	defer func() {
		if r := recover(); r != nil {
			fn, ok, pan = nil, false, fmt.Sprint(r)
		}
	}()
	fn, _, err := f()
	return fn, err == nil, ""
}

// ---- trees ------------------------------------------------------------------------------------

func c16CreateAst(fg *value.FunctionGenerator, src string, idents parser2.Identifiers[value.Value]) (a parser2.AST, err error) {
	defer func() {
		if r := recover(); r != nil {
			err = fmt.Errorf("panic in parser: %v", r)
		}
	}()
	return fg.CreateAst(src, idents)
}

func c16MapIdents(fg *value.FunctionGenerator) parser2.Identifiers[value.Value] {
	return fg.Identifier().AddMap(c16Map).AddArgs([]string{c16Map}, nil)
}

func c16ExplIdents(fg *value.FunctionGenerator) parser2.Identifiers[value.Value] {
	return fg.Identifier().AddArgs([]string{c16Map}, nil)
}

func dumpOrNone(a parser2.AST, err error) (string, *astDump) {
	if err != nil {
		return "NONE", nil
	}
	var d astDump
	d.dump(a, 0)
	return d.b.String(), &d
}

// The raw tree of a program text: the real parser with a chain that resolves every name to a plain
// identifier. Only a `let` whose value is a literal would still be turned into a constant by
// parseLet; those literals are wrapped into a call of c16Wrap, which the dump removes again.
const c16Wrap = "zzLit"

var c16LetLitRe = regexp.MustCompile(`(\blet\s+[A-Za-z_][A-Za-z0-9_]*\s*=\s*)([0-9][0-9.]*|"[^"]*")(\s*;)`)

var c16Universal parser2.Identifiers[value.Value] = func(name string) (parser2.Identifier[value.Value], bool) {
	return parser2.Identifier[value.Value]{Name: name}, true
}

type rawDump struct {
	b          strings.Builder
	unmodelled string
	names      map[string]bool // identifiers occurring
	binders    map[string]bool
	lets       int
}

func (d *rawDump) tok(s ...string) {
	for _, x := range s {
		if d.b.Len() > 0 {
			d.b.WriteByte(' ')
		}
		d.b.WriteString(x)
	}
}

func scalarTokens(v value.Value) ([]string, bool) {
	switch x := v.(type) {
	case value.Int:
		return []string{"i", fmt.Sprint(int64(x))}, true
	case value.Float:
		var b strings.Builder
		argTokens(x, &b)
		return strings.Split(b.String(), " "), true
	case value.String:
		return []string{"s", cps(string(x))}, true
	case value.Bool:
		if x {
			return []string{"b", "1"}, true
		}
		return []string{"b", "0"}, true
	}
	return nil, false
}

func (d *rawDump) names_(ns []string) {
	d.tok(itoa(len(ns)))
	for _, x := range ns {
		d.binders[x] = true
		d.tok(cps(x))
	}
}

func (d *rawDump) dump(a parser2.AST) {
	switch n := a.(type) {
	case *parser2.Const[value.Value]:
		if toks, ok := scalarTokens(n.Value); ok {
			d.tok("c")
			d.tok(toks...)
		} else {
			d.unmodelled = fmt.Sprintf("const of type %T", n.Value)
			d.tok("c", "i", "0")
		}
	case *parser2.Ident:
		d.names[n.Name] = true
		d.tok("id", cps(n.Name))
	case *parser2.Let:
		d.lets++
		d.binders[n.Name] = true
		if clo, ok := n.Value.(*parser2.ClosureLiteral); ok && clo.ThisName != "" {
			d.tok("fn", cps(n.Name))
			d.names_(clo.Names)
			d.dump(clo.Func)
			d.dump(n.Inner)
			return
		}
		d.tok("let", cps(n.Name))
		d.dump(n.Value)
		d.dump(n.Inner)
	case *parser2.ClosureLiteral:
		d.tok("clo")
		d.names_(n.Names)
		d.dump(n.Func)
	case *parser2.If:
		d.tok("if")
		d.dump(n.Cond)
		d.dump(n.Then)
		d.dump(n.Else)
	case *parser2.Switch[value.Value]:
		d.tok("sw", itoa(len(n.Cases)))
		d.dump(n.SwitchValue)
		for _, c := range n.Cases {
			d.dump(c.CaseConst)
			d.dump(c.Value)
		}
		d.dump(n.Default)
	case *parser2.TryCatch:
		d.tok("try")
		d.dump(n.Try)
		d.dump(n.Catch)
	case *parser2.Unary:
		d.tok("un", cps(n.Operator))
		d.dump(n.Value)
	case *parser2.Operate:
		d.tok("op", cps(n.Operator))
		d.dump(n.A)
		d.dump(n.B)
	case *parser2.ListLiteral:
		d.tok("list", itoa(len(n.List)))
		for _, x := range n.List {
			d.dump(x)
		}
	case *parser2.ListAccess:
		d.tok("idx")
		d.dump(n.Index)
		d.dump(n.List)
	case *parser2.MapLiteral:
		d.tok("map", itoa(n.Map.Size()))
		n.Map.Iter(func(key string, v parser2.AST) bool {
			d.tok(cps(key))
			d.dump(v)
			return true
		})
	case *parser2.MapAccess:
		d.tok("mem", cps(n.Key))
		d.dump(n.MapValue)
	case *parser2.FunctionCall:
		if id, ok := n.Func.(*parser2.Ident); ok && id.Name == c16Wrap && len(n.Args) == 1 {
			if c, ok := n.Args[0].(*parser2.Const[value.Value]); ok {
				d.dump(c)
				return
			}
		}
		d.tok("call", itoa(len(n.Args)))
		d.dump(n.Func)
		for _, x := range n.Args {
			d.dump(x)
		}
	case *parser2.MethodCall:
		d.tok("meth", cps(n.Name), itoa(len(n.Args)))
		d.dump(n.Value)
		for _, x := range n.Args {
			d.dump(x)
		}
	default:
		if d.unmodelled == "" {
			d.unmodelled = fmt.Sprintf("node %T", a)
		}
		d.tok("c", "i", "0")
	}
}

var c16LetKwRe = regexp.MustCompile(`\b(let|func)\b`)

// rawTree returns the raw tree tokens of the text ("" if it does not parse).
func rawTree(fg *value.FunctionGenerator, src string) *rawDump {
	wrapped := c16LetLitRe.ReplaceAllString(src, "${1}"+c16Wrap+"(${2})${3}")
	a, err := c16CreateAst(fg, wrapped, c16Universal)
	if err != nil {
		return nil
	}
	d := &rawDump{names: map[string]bool{}, binders: map[string]bool{}}
	d.dump(a)
	if d.names[c16Wrap] {
		d.unmodelled = "literal wrapper left in the tree"
	}
	// every let/func keyword of the text must be a binding node of the raw tree (no let was
	// dissolved into a constant); string literals of the generators contain no keywords
	if kw := len(c16LetKwRe.FindAllString(src, -1)); kw != d.lets && d.unmodelled == "" {
		d.unmodelled = fmt.Sprintf("raw tree has %d binding nodes for %d let/func keywords", d.lets, kw)
	}
	return d
}

// baseTokens: the generator's chain restricted to the names of the program, probed on the live
// Identifiers value of the generator.
func baseTokens(fg *value.FunctionGenerator, names map[string]bool) (string, string) {
	var ns []string
	for n := range names {
		ns = append(ns, n)
	}
	sort.Strings(ns)
	var parts []string
	base := fg.Identifier()
	for _, n := range ns {
		if base == nil {
			break
		}
		id, ok := base(n)
		if !ok {
			continue
		}
		switch {
		case id.IsConst && id.IsFunc:
			parts = append(parts, "F "+cps(n))
		case id.IsConst:
			toks, ok := scalarTokens(id.Const)
			if !ok {
				return "", fmt.Sprintf("constant %s of type %T", n, id.Const)
			}
			parts = append(parts, "K "+cps(n)+" "+strings.Join(toks, " "))
		default:
			parts = append(parts, "P "+cps(n))
		}
	}
	return strings.Join(parts, " "), ""
}

// attribute uses in the tree map mode produced: member accesses on the identifier m
type attrStats struct {
	uses, maxDepth         int
	depth                  [4]int // uses at closure nesting 0,1,2,3+
	inFunc, inRecFunc      bool
	inArgBinding, inLetVal bool
	funcs, closures        int
}

func (s *attrStats) walk(a parser2.AST, depth int, inFunc, inRec, inArgBind, inLetVal bool) {
	w := func(x parser2.AST) { s.walk(x, depth, inFunc, inRec, inArgBind, inLetVal) }
	args := func(xs []parser2.AST) {
		for _, x := range xs {
			s.walk(x, depth, inFunc, inRec, inArgBind || isBinding(x), inLetVal)
		}
	}
	switch n := a.(type) {
	case *parser2.MapAccess:
		if id, ok := n.MapValue.(*parser2.Ident); ok && id.Name == c16Map {
			s.uses++
			s.depth[min(depth, 3)]++
			if depth > s.maxDepth {
				s.maxDepth = depth
			}
			s.inFunc = s.inFunc || inFunc
			s.inRecFunc = s.inRecFunc || inRec
			s.inArgBinding = s.inArgBinding || inArgBind
			s.inLetVal = s.inLetVal || inLetVal
			return
		}
		w(n.MapValue)
	case *parser2.Let:
		s.walk(n.Value, depth, inFunc, inRec, inArgBind, true)
		w(n.Inner)
	case *parser2.ClosureLiteral:
		s.closures++
		if n.ThisName != "" {
			s.funcs++
		}
		s.walk(n.Func, depth+1, inFunc || n.ThisName != "", inRec || n.Recursive, inArgBind, inLetVal)
	case *parser2.If:
		w(n.Cond)
		w(n.Then)
		w(n.Else)
	case *parser2.Switch[value.Value]:
		w(n.SwitchValue)
		for _, c := range n.Cases {
			w(c.CaseConst)
			w(c.Value)
		}
		w(n.Default)
	case *parser2.TryCatch:
		w(n.Try)
		w(n.Catch)
	case *parser2.Unary:
		w(n.Value)
	case *parser2.Operate:
		w(n.A)
		w(n.B)
	case *parser2.ListLiteral:
		args(n.List)
	case *parser2.ListAccess:
		w(n.Index)
		w(n.List)
	case *parser2.MapLiteral:
		n.Map.Iter(func(key string, v parser2.AST) bool {
			s.walk(v, depth, inFunc, inRec, inArgBind || isBinding(v), inLetVal)
			return true
		})
	case *parser2.FunctionCall:
		w(n.Func)
		args(n.Args)
	case *parser2.MethodCall:
		w(n.Value)
		args(n.Args)
	}
}

// ---- cases ------------------------------------------------------------------------------------

var c16MethodNamedRe = regexp.MustCompile(`§(get|list|put|accept|replace|combine)§`)

type c16Case struct {
	marked   string
	exp      string
	expl     string
	literal  string // differs from expl iff an attribute occurs in call position
	sideCond bool   // the program binds the name m itself: only the correspondence is checked
	origin   string // corpus | gen | nest | mutated
}

// corpus of past failures and hand-written shapes (marked form; run first)
var c16Corpus = []string{
	// B16: attribute inside a closure / func / nested closures
	"[1,2].map(e->e+§x§)",
	"[1, 2].map(e -> e + §x§).sum()",
	"func f(p) p + §a§; f(1)",
	"func f(p) if p <= 0 then §a§ else f(p - 1) + §b§; f(3)",
	"[1].map(p -> [2].map(q -> [3].map(r -> p + q + r + §a§ + §b§)))",
	"let c = (p -> (q -> q + p + §a§))(§b§); c(10) + c(§k§)",
	"§l§.map(v -> v + §a§).reduce((p, q) -> let u = p + q; u + §b§)",
	"§l§.accept(v -> v > §a§).map(v -> let d = v - §a§; d * d).sum()",
	// lets inside call / method arguments
	"max(§a§, §a§ + 1, let v = §a§ * 10; v)",
	"§l§.append(let v = §a§ * 2; v + §b§)",
	"min(§a§, (v -> let q = v * 3; q + §b§)(§a§), let w1 = §a§ + 5; w1 * w1)",
	// shadowing: let / parameter / func named like an attribute; constant let
	"let x = 5; x + §y§",
	"let x = §x§ + 1; x * 2",
	"let y = [§y§]; [1, 2].map(x -> x + y[0] + §a§)",
	"func k(k1) if k1 <= 0 then §a§ else k(k1 - 1) + §n§; k(2) + §e§", // k is the func inside its body and in the rest, not the attribute k
	"func f(f1) if f1 <= 0 then 0 else f(f1 - 1) + 1; f(3) + §a§",
	"[1, 2].map(x -> [3].map(y -> x + y + §a§))",
	"let a = 1; let b = a; a + b + §x§",
	"(x -> (let x = x + 1; x + §y§))(§x§)",
	// constants and static functions win over attributes of the same name, in both spellings
	"pi + §fl§",
	"if true then §a§ else §b§",
	"abs(0 - §a§) + max(§a§, §b§)",
	"abs + 1",
	"let q = pi; q + §fl§",
	"[1, 2].map(v -> abs(v - §a§) + pi)",
	// the map itself, explicit member access next to implicit
	"m.x + §x§ + m.y",
	"m.size() + §a§",
	"[1].map(v -> m.x + §y§ + v)",
	"§mp§.x + §mf§.f(§a§) + §f§(2) + §g§(1, 2)",
	"§mf§.f(let v = §a§; v + 1)",
	// control forms
	"try §l§[§a§ + 10] catch 0 - §b§",
	"try throw(\"x\") catch v -> §a§",
	"switch §a§ case 1 : \"one\" case 3 : let s2 = \"th\"; s2 + §s§ default §s§ + \"many\"",
	"(if §t§ then (v -> v + §a§) else (v -> v - §a§))(10)",
	"{x: §a§, y: [1].map(v -> v + §b§)}.y",
	// attributes named like map methods, holding closures, in call position
	"§get§(§a§)",
	"§list§(1, 2) + §put§(§a§)",
	"[1, 2].map(v -> §accept§(v) + §a§).sum()",
	"§replace§(§a§, §b§) + §combine§(3)",
	"func h1(p) if p <= 0 then §get§(§a§) else h1(p - 1) + §put§(p); h1(2)",
	// ... called with the argument count of the built-in METHOD of that name, which is not the closure's: the closure field is
	// the callee in both spellings, so both fail alike (round-5 seed C16-15: the explicit spelling fell through to the method)
	"try §put§(\"q\", 5).size() catch 0 - 1",
	"try §list§().size() catch 0 - 1",
	"try §replace§(v -> v).size() catch 0 - 1",
	"try §combine§({a: 1}, (p, q) -> p).size() catch 0 - 1",
	"try §get§(\"a\", 1) catch 0 - 1",
	"[try §put§(\"q\", §a§) catch 0 - 1, try §list§() catch 0 - 2, §a§].string()",
	"[1, 2].map(v -> try §put§(\"k\" + v, v).size() catch 0 - v).sum()",
	// unknown attribute
	"§nosuch§ + 1",
	"[1].map(v -> v + §nosuch§)",
}

// programs that bind the name of the map themselves (side condition of mapmode_eq_explicit)
var c16SideCorpus = []string{
	"m -> §x§",
	"[1].map(m -> §a§ + 1)",
	"let m = 5; §x§",
	"let m = [1]; [2].map(v -> v + §a§)",
	"func m(p) p + §a§; m(1)",
	"func f(m) §a§ + 1; f(2)",
}

func c16GenProgram(c *Ctx, maxDepth int) (string, string, map[string]int) {
	g := newProgGen(c.rng)
	g.attrMode = true
	g.reserved = map[string]bool{c16Map: true}
	g.enterBody(c16Map)
	sc := c16Scope()
	if c.rng.Intn(4) == 0 {
		// few attributes: more references to each of them
		var few []pbind
		for _, b := range sc {
			if !b.attr() || c.rng.Intn(3) == 0 {
				few = append(few, b)
			}
		}
		sc = few
	}
	t := []pty{pInt, pInt, pInt, pStr, pBool, pList, pMap, pFloat}[c.rng.Intn(8)]
	d := 2 + c.rng.Intn(maxDepth-1)
	if c.rng.Intn(3) != 0 {
		return g.stmt(t, d, sc), "gen", g.features
	}
	// forced nesting: 1..3 closures around the generated body, optionally inside a recursive func
	var nest func(level int, scope []pbind) string
	nest = func(level int, scope []pbind) string {
		if level == 0 {
			return g.stmt(pInt, d, scope)
		}
		p := g.paramName(scope)
		g.enterBody(p)
		body := nest(level-1, append(scope[:len(scope):len(scope)], pbind{p, pInt}))
		g.leaveBody()
		switch c.rng.Intn(3) {
		case 0:
			return fmt.Sprintf("[%d, %d].map(%s -> %s)", level, level+2, p, body)
		case 1:
			return fmt.Sprintf("(%s -> %s)(%s)", p, body, g.arg(pInt, 1, scope))
		default:
			return fmt.Sprintf("%s.map(%s -> %s)", g.expr(pList, 1, scope), p, body)
		}
	}
	if c.rng.Intn(3) != 0 {
		return nest(1+c.rng.Intn(3), sc), "nest", g.features
	}
	// … inside the body of a recursive func (there its name denotes the func, its parameter is bound)
	fn := g.freshFunc(sc)
	g.n++
	prm := fmt.Sprintf("r%d", g.n)
	g.enterBody(prm)
	body := append(sc[:len(sc):len(sc)], pbind{prm, pInt}, pbind{fn, pHidden})
	base := g.expr(pInt, 1, body)
	src := nest(1+c.rng.Intn(3), body)
	g.leaveBody()
	src = fmt.Sprintf("func %s(%s) if %s <= 0 then %s else [%s(%s - 1), %s]; %s(%d)", fn, prm, prm, base, fn, prm, src, fn, 1+c.rng.Intn(2))
	return src, "nest", g.features
}

func c16Mutate(c *Ctx, marked string) string {
	rs := []rune(marked)
	if len(rs) < 3 {
		return marked
	}
	for k := 1 + c.rng.Intn(2); k > 0; k-- {
		i := c.rng.Intn(len(rs))
		switch c.rng.Intn(3) {
		case 0: // delete a rune (never half of a marker)
			if string(rs[i]) != attrMark {
				rs = append(rs[:i:i], rs[i+1:]...)
			}
		case 1:
			ins := []string{"(", ")", ";", ",", "let ", "->", ".", "]", " m ", " x ", "func ", " = "}[c.rng.Intn(12)]
			rs = append(rs[:i:i], append([]rune(ins), rs[i:]...)...)
		default:
			j := c.rng.Intn(len(rs))
			if string(rs[i]) != attrMark && string(rs[j]) != attrMark {
				rs[i], rs[j] = rs[j], rs[i]
			}
		}
		if len(rs) == 0 {
			break
		}
	}
	return string(rs)
}

func runC16(c *Ctx) {
	c.rule = "type-directed random programs as in C01 whose free identifiers are attributes of the argument map m (19 attributes: ints, lists eager/lazy, string, bool, float, maps, closures), attribute references emitted through a marker so that exp (x) and exp' (m.x) come from one generation; a third of the programs wrapped into 1..3 nested closures (list map, immediately applied, attribute list map) and a recursive func; attribute names colliding with generated let/parameter/func names (shadowing), keys named pi/true/abs/max/m present in every map (constant, static function and the map win in both spellings); each program: GenerateWithMap(exp) vs Generate(exp') with optimizer off and on, evaluated on the argument map in 6 representations (list map, put chain, merge, hash map, evaluated literal, put on merge), on 2 maps with missing attributes and on the map inside the exporters' wrapper values (Format, Link: values that answer ToMap); trees of both parsers compared with each other and with the Lean resolver (map mode, expand, explicit mode); a mutated (malformed) stream and programs binding m themselves (correspondence only); generator histories (GenerateWithMap calls with two map names interleaved with AddConstant of names that were attributes before, optimizer off/on); non-trivial = distinct program with an attribute use inside at least one closure or func body"
	c.assume = append(c.assume,
		"the grammar (text -> tree shape) is shared: the raw tree sent to the model is produced by the real parser with a chain resolving every name to a plain identifier (literal let values wrapped so that no let is dissolved); C03/C04 cover the grammar",
		"the IsFunc mark of an identifier node is not part of the model's AST (P2.Lang.gen reconstructs it); error message texts are not compared",
		"on hash-map representations programs that iterate the argument map are order dependent: a disagreement is only reported if both functions are self-consistent over 6 evaluations")
	env := newC16Env()
	n := c.Pick(6000, 80000)
	c16Histories(c, c.Pick(400, 4000))
	c16LeanGenerators(c)
	maxDepth := c.Pick(6, 7)

	var cases []*c16Case
	add := func(marked, origin string, side bool) {
		marked = strings.NewReplacer("\n", " ", "\t", " ", "\r", " ").Replace(marked)
		exp, expl, lit := c16Texts(marked)
		cases = append(cases, &c16Case{marked: marked, exp: exp, expl: expl, literal: lit, origin: origin, sideCond: side})
	}
	if rp := os.Getenv("VERIF_REPLAY"); rp != "" {
		if src := replayProgram(rp); src != "" {
			add(src, "replay", false)
		}
	}
	for _, src := range c16Corpus {
		add(src, "corpus", false)
	}
	for _, src := range c16SideCorpus {
		add(src, "side", true)
	}
	for i := 0; i < n; i++ {
		src, origin, feats := c16GenProgram(c, maxDepth)
		for k, v := range feats {
			if v > 0 {
				c.Count("gen:" + k)
			}
		}
		add(src, origin, false)
		if i%10 == 0 {
			add(c16Mutate(c, src), "mutated", false)
		}
	}

	// phase 1: trees of the implementation, requests to the resolver
	type pending struct {
		cs            *c16Case
		idx           int
		goMap, goExpl string
		rawExpl       string
		nontriv       bool
		side          bool // the program binds m itself
		req           int  // index of the model request, -1 if none
		parses        bool
	}
	worker := &c16Worker{}
	defer worker.stop()
	for lo := 0; lo < len(cases); lo += 4000 {
		chunk := cases[lo:min(lo+4000, len(cases))]
		var reqs []string
		var pend []*pending
		for k, cs := range chunk {
			idx := lo + k
			p := &pending{cs: cs, idx: idx, req: -1, side: cs.sideCond}
			pend = append(pend, p)
			replay := map[string]any{"program": cs.marked, "exp": cs.exp, "exp_explicit": cs.expl, "map_name": c16Map}
			aMap, errMap := c16CreateAst(env.fgOff, cs.exp, c16MapIdents(env.fgOff))
			aExpl, errExpl := c16CreateAst(env.fgOff, cs.expl, c16ExplIdents(env.fgOff))
			var dMap *astDump
			p.goMap, dMap = dumpOrNone(aMap, errMap)
			p.goExpl, _ = dumpOrNone(aExpl, errExpl)
			p.parses = errMap == nil
			var st attrStats
			if errMap == nil {
				st.walk(aMap, 0, false, false, false, false)
			}
			p.nontriv = st.uses > 0 && (st.depth[1]+st.depth[2]+st.depth[3]) > 0
			c.Count("origin:" + cs.origin)
			if errMap != nil {
				c.Count("parse-error")
			} else {
				c.Count(fmt.Sprintf("attr-max-closure-depth=%d", min(st.maxDepth, 4)))
				for dpt, k := range st.depth {
					if k > 0 {
						c.Count(fmt.Sprintf("attr-use-at-depth-%d", dpt))
					}
				}
				if st.inFunc {
					c.Count("attr-in-func")
				}
				if st.inRecFunc {
					c.Count("attr-in-recursive-func")
				}
				if st.inArgBinding {
					c.Count("attr-in-binding-inside-argument")
				}
				if st.inLetVal {
					c.Count("attr-in-let-value")
				}
				c.Count(fmt.Sprintf("attr-uses=%d", min(st.uses/4*4, 20)))
			}

			raw := rawTree(env.fgOff, cs.exp)
			if raw == nil {
				// not even the shape parses: nothing for the resolver; map mode must have failed too (and
				// the explicit text as well, unless a mutation made the two texts unrelated)
				if errMap == nil || (errExpl == nil && cs.origin != "mutated") {
					replay["ast_map_mode"], replay["ast_explicit"] = p.goMap, p.goExpl
					c.Broken("corr:SCOPE", "the text parses in map/explicit mode but not with the universal chain", replay)
				}
				continue
			}
			if raw.unmodelled != "" || (dMap != nil && dMap.unmodelled != "") {
				c.Count("unmodelled-tree")
				if cs.origin == "mutated" {
					p.side = true // no verdict on what exp' should be
				}
				continue
			}
			if raw.binders[c16Map] {
				if cs.origin == "gen" || cs.origin == "nest" {
					c.Broken("corr:SCOPE", "generator emitted a binder named like the map", replay)
				}
				p.side = true
			}
			for b := range raw.binders {
				if c16AttrNames[b] {
					c.Count("binder-shadows-attribute-name")
					break
				}
			}
			raw.names[c16Map] = true
			base, unm := baseTokens(env.fgOff, raw.names)
			if unm != "" {
				c.Count("unmodelled-constant")
				continue
			}
			p.rawExpl = "NONE"
			if re := rawTree(env.fgOff, cs.expl); re != nil && re.unmodelled == "" {
				p.rawExpl = re.b.String()
			}
			p.req = len(reqs)
			reqs = append(reqs, fmt.Sprintf("SCOPE\tfixed\t%s\t%s\t%s", cps(c16Map), base, raw.b.String()))
		}

		resp := c.Model(reqs)

		// phase 2: correspondence, then the predicates of the property on the implementation
		for _, p := range pend {
			cs := p.cs
			replay := map[string]any{"program": cs.marked, "exp": cs.exp, "exp_explicit": cs.expl, "map_name": c16Map,
				"ast_map_mode": p.goMap, "ast_explicit": p.goExpl}
			pairOK := true // exp' is the expansion of exp
			if p.req >= 0 {
				r := resp[p.req]
				replay["request"], replay["response"], replay["raw_explicit"] = reqs[p.req], r, p.rawExpl
				f := strings.Split(r, "\t")
				if len(f) != 3 {
					c.Broken("corr:SCOPE", "model driver rejected the request: "+r, replay)
					c.Case(cs.marked, false)
					continue
				}
				if f[0] == "NONE" {
					c.Count("model-map-mode=NONE")
				}
				if f[1] != p.rawExpl {
					pairOK = false
				}
				switch {
				case f[0] != p.goMap:
					c.disagree++
					c.Broken("corr:SCOPE", "the model's tree of map mode differs from the parser's (OuterIdents / Recursive / resolution)", replay)
				case !pairOK && cs.origin != "mutated":
					c.disagree++
					c.Broken("corr:SCOPE", "the model's expand(exp) differs from the explicit text written by the generator", replay)
				case pairOK && f[2] != p.goExpl:
					c.disagree++
					c.Broken("corr:SCOPE", "the model's tree of explicit mode differs from the parser's", replay)
				}
				if !pairOK {
					c.Count("mutation-introduced-free-identifier")
				}
				if p.side && f[0] != f[2] {
					c.Count("side-condition-violated:trees-differ")
				}
				if len(c.samples) < 4 && p.nontriv && !p.side {
					c.Sample(map[string]any{"exp": cs.exp, "exp_explicit": cs.expl, "ast": p.goMap})
				}
			} else if cs.origin == "mutated" {
				pairOK = false // no verdict of the model on what exp' should be
			}
			c.Case(cs.marked, p.nontriv && !p.side && pairOK)
			if p.side || !pairOK {
				c.Count("predicates-skipped")
				continue
			}

			// (b) the two parsers, optimizer off
			if p.goMap != p.goExpl {
				sig := "ast-differs"
				if p.nontriv {
					sig = "mapmode-differs-from-explicit"
				}
				c.Violation(sig, "the parser of GenerateWithMap(exp) and the parser of Generate(exp') return different trees (optimizer off)", replay)
			}

			// (a) behaviour, optimizer off and on — in the child process (a generated program may
			// recurse without bound, which kills a Go process)
			v, ok := worker.eval(p.idx, cs)
			if !ok {
				c.Count("evaluation-crashed-or-timed-out(skipped)")
				continue
			}
			for _, k := range v.Counts {
				c.Count(k)
			}
			c.disagree += v.Disagree
			for _, vi := range v.Viol {
				rp := map[string]any{}
				for k, x := range replay {
					rp[k] = x
				}
				for k, x := range vi.Extra {
					rp[k] = x
				}
				c.Violation(vi.Sig, vi.What, rp)
			}
		}
	}
}

// ---- generator histories ---------------------------------------------------------------------------

// c16Histories: one generator used for a sequence of GenerateWithMap/Generate calls (two map names) between
// which constants are registered (AddConstant is legal at any time). After every step each program must behave
// in map mode like its explicit spelling under the constants registered at that moment: a name that has become
// a constant denotes the constant from then on, also inside closures and funcs, the others stay attributes.
func c16Histories(c *Ctx, n int) {
	names := []string{"k0", "k1", "k2", "k3", "k4", "x"}
	templates := []string{"@0 + @1", "@0 * 10 + @1 - @2", "[1,2,3].map(e->e*@0+@1).sum()", "let q=@0; (y->y+q+@1)(@2)", "func g(p) if p<=0 then @0 else g(p-1)+@1; g(2)",
		"{r:@0, s:[@1].map(e->e+@2)}.string()", "[@0,@1].map(e->[@2].map(i->i+e).sum()).string()", "if @0 > @1 then @2 else @0", "try @0/0 catch @1"}
	for h := 0; h < n; h++ {
		rng := c.rng
		for _, opt := range []bool{false, true} {
			fg := newValueFG(opt)
			isConst := map[string]bool{}
			var log []string
			mapName := "m"
			keys := append([]string{}, names...)
			vals := make([]value.Value, len(keys))
			for i := range keys {
				vals[i] = value.Int(int64(i + 1))
			}
			arg := buildMap(keys, vals, []int{0, 1, 2, 5}[h%4])
			steps := 4 + rng.Intn(6)
			for s := 0; s < steps; s++ {
				if rng.Intn(3) == 0 {
					k := names[rng.Intn(len(names))]
					if !isConst[k] {
						isConst[k] = true
						fg.AddConstant(k, value.Int(int64(100*(1+len(isConst)))))
						log = append(log, "AddConstant "+k)
					}
					continue
				}
				if rng.Intn(4) == 0 {
					mapName = []string{"m", "mm"}[rng.Intn(2)]
				}
				t := templates[rng.Intn(len(templates))]
				exp, expl := t, t
				for i := 0; i < 3; i++ {
					k := names[rng.Intn(len(names))]
					exp = strings.ReplaceAll(exp, "@"+itoa(i), k)
					if isConst[k] {
						expl = strings.ReplaceAll(expl, "@"+itoa(i), k)
					} else {
						expl = strings.ReplaceAll(expl, "@"+itoa(i), mapName+"."+k)
					}
				}
				log = append(log, "GenerateWithMap "+exp+" "+mapName)
				c.Case("hist|"+strings.Join(log, ";")+fmt.Sprint(opt, h%4), len(isConst) > 0)
				c.Count("history-step")
				outcome := func(gen func() (funcGen.Func[value.Value], bool, error)) (out string) {
					defer func() {
						if r := recover(); r != nil {
							out = fmt.Sprintf("PANIC %v", r)
						}
					}()
					f, _, err := gen()
					if err != nil {
						return "GENERR"
					}
					v, err := f.Eval(arg)
					if err != nil {
						return "ERR"
					}
					cv, err := canonValue(v)
					if err != nil {
						return "ERR"
					}
					return cv
				}
				got := outcome(func() (funcGen.Func[value.Value], bool, error) { return fg.GenerateWithMap(exp, mapName) })
				want := outcome(func() (funcGen.Func[value.Value], bool, error) { return fg.Generate(expl, mapName) })
				if got != want {
					c.Violation("mapmode-differs-from-explicit:after-add-constant", "after constants were registered on a generator that had generated before, GenerateWithMap(exp, m) and Generate(exp', m) give different outcomes",
						map[string]any{"history": append([]string{}, log...), "exp": exp, "exp_explicit": expl, "map_name": mapName, "optimizer": opt, "map_mode": got, "explicit": want})
					break
				}
			}
		}
	}
}

// c16LeanGenerators: GenerateWithMap on generators configured by hand from the handlers of the value package, with no
// constant and no static function at all, with constants only, with static functions only (the identifier chain the map
// lookup is put on top of may be empty): map mode behaves like the explicit spelling there too
func c16LeanGenerators(c *Ctx) {
	progs := [][2]string{{"x + y", "m.x + m.y"}, {"[1, 2].map(e -> e * x).sum()", "[1, 2].map(e -> e * m.x).sum()"}, {"let q = x; q + y", "let q = m.x; q + m.y"},
		{"func f(n) if n <= 0 then x else f(n - 1) + y; f(2)", "func f(n) if n <= 0 then m.x else f(n - 1) + m.y; f(2)"}, {"x", "m.x"}, {"nosuch + x", "m.nosuch + m.x"}, {"(p -> p + x)(y)", "(p -> p + m.x)(m.y)"}}
	for variant := 0; variant < 4; variant++ {
		h := value.New()
		g := funcGen.New[value.Value]().SetNumberParser(h).SetKeyWords("let", "func", "if", "then", "else", "switch", "case", "default", "try", "catch").
			SetListHandler(h).SetMapHandler(h).SetClosureHandler(h).SetMethodHandler(h).SetStringConverter(h).
			SetToBool(func(c value.Value) (bool, bool) { b, ok := c.(value.Bool); return bool(b), ok })
		for _, op := range []string{"<=", "+", "-", "*"} {
			g.AddOpImpl(op, false, h.GetOpImpl(op))
		}
		switch variant {
		case 1:
			g.AddConstant("k", value.Int(5))
		case 2:
			g.AddStaticFunction("two", funcGen.Function[value.Value]{Func: func(st funcGen.Stack[value.Value], cs []value.Value) (value.Value, error) { return value.Int(2), nil }, Args: 1, IsPure: true})
		case 3:
			g.SetOptimizer(nil)
		}
		arg := buildMap([]string{"x", "y"}, []value.Value{value.Int(3), value.Int(4)}, 0)
		for _, pr := range progs {
			outcome := func(gen func() (funcGen.Func[value.Value], bool, error)) (out string) {
				defer func() {
					if r := recover(); r != nil {
						out = fmt.Sprintf("PANIC %v", r)
					}
				}()
				f, _, err := gen()
				if err != nil {
					return "GENERR"
				}
				v, err := f.Eval(arg)
				if err != nil {
					return "ERR"
				}
				cv, err := canonValue(v)
				if err != nil {
					return "ERR"
				}
				return "OK " + cv
			}
			got := outcome(func() (funcGen.Func[value.Value], bool, error) { return g.GenerateWithMap(pr[0], "m") })
			want := outcome(func() (funcGen.Func[value.Value], bool, error) { return g.Generate(pr[1], "m") })
			c.Case(fmt.Sprintf("lean-generator|%d|%s", variant, pr[0]), true)
			c.Count("lean-generator")
			if got != want || strings.HasPrefix(got, "PANIC") {
				sig := "mapmode-differs-from-explicit:lean-generator"
				if strings.HasPrefix(got, "PANIC") || strings.HasPrefix(want, "PANIC") {
					sig = "panic-in-generate"
				}
				c.Violation(sig, "on a generator configured by hand (no / few identifiers) GenerateWithMap(exp, m) and Generate(exp', m) differ",
					map[string]any{"generator_variant": variant, "exp": pr[0], "exp_explicit": pr[1], "map_mode": got, "explicit": want})
			}
		}
	}
}

// ---- predicate (a) in a child process -----------------------------------------------------------

type c16Violation struct {
	Sig   string         `json:"sig"`
	What  string         `json:"what"`
	Extra map[string]any `json:"extra"`
}

type c16Verdict struct {
	Counts   []string       `json:"counts"`
	Viol     []c16Violation `json:"viol"`
	Disagree int            `json:"disagree"`
}

// c16Behaviour: GenerateWithMap(exp, m) against Generate(exp', m) (and against the literal spelling),
// optimizer off and on, on 8 argument maps.
func c16Behaviour(env *c16Env, idx int, cs *c16Case) (v c16Verdict) {
	viol := func(sig, what string, extra map[string]any) {
		v.Viol = append(v.Viol, c16Violation{sig, what, extra})
	}
	for _, fg := range []*value.FunctionGenerator{env.fgOff, env.fgOn} {
		mode := "off"
		if fg == env.fgOn {
			mode = "on"
		}
		fM, okM, panM := c16Generate(func() (funcGen.Func[value.Value], bool, error) { return fg.GenerateWithMap(cs.exp, c16Map) })
		fE, okE, panE := c16Generate(func() (funcGen.Func[value.Value], bool, error) { return fg.Generate(cs.expl, c16Map) })
		if panM != "" || panE != "" {
			viol("panic-in-generate", "a Go panic escaped Generate/GenerateWithMap", map[string]any{"optimizer": mode})
			continue
		}
		if okM != okE {
			viol("mapmode-differs-from-explicit", "exactly one of GenerateWithMap(exp, m) and Generate(exp', m) fails to generate",
				map[string]any{"optimizer": mode, "generate_with_map_ok": okM, "generate_explicit_ok": okE})
			continue
		}
		if !okM {
			v.Counts = append(v.Counts, "generr-both-"+mode)
			continue
		}
		var fL funcGen.Func[value.Value]
		if cs.literal != cs.expl {
			// the literal spelling m.x(…): a method call on m; same behaviour as long as the
			// attribute holds a closure or is missing (the attributes of this harness)
			var okL bool
			fL, okL, _ = c16Generate(func() (funcGen.Func[value.Value], bool, error) { return fg.Generate(cs.literal, c16Map) })
			if mode == "off" {
				v.Counts = append(v.Counts, "attribute-in-call-position")
			}
			if !okL {
				viol("literal-call-spelling-differs", "Generate of the literal spelling m.x(…) fails although GenerateWithMap(exp, m) succeeds",
					map[string]any{"optimizer": mode, "exp_literal": cs.literal})
				fL = nil
			}
		}
		for r := 0; r < 10; r++ {
			rep, variant := r, 0
			if r >= 6 {
				rep, variant = (idx+r)%6, r-5
			}
			var arg value.Value
			switch r {
			case 8: // the argument map inside a wrapper value that answers ToMap (the styling wrappers of the exporters)
				rep, variant = (idx+r)%3, 0
				arg = export.Format{Value: env.argMap(idx, rep, variant), Format: value.String("s")}
			case 9:
				rep, variant = (idx+r)%3, 0
				arg = export.Link{Value: env.argMap(idx, rep, variant), Link: "t"}
			default:
				arg = env.argMap(idx, rep, variant)
			}
			oM, oE := c16Eval(fM, arg), c16Eval(fE, arg)
			if mode == "off" {
				v.Counts = append(v.Counts, "outcome="+strings.SplitN(oM, " ", 2)[0])
			}
			extra := map[string]any{"optimizer": mode, "map_representation": rep, "map_variant": variant, "map_values_index": idx,
				"outcome_map_mode": oM, "outcome_explicit": oE}
			if strings.HasPrefix(oM, "PANIC") || strings.HasPrefix(oE, "PANIC") {
				viol("panic-escaped-eval", "a Go panic escaped Func.Eval", extra)
				break
			}
			// a method-named attribute that is ABSENT from this argument map (even idx, see argMap): the literal spelling is then
			// a working method call, the map-mode spelling a missing attribute; only the explicit member access is the reference
			methodNamedAbsent := idx%2 == 0 && c16MethodNamedRe.MatchString(cs.marked)
			if fL != nil && oM == oE && !methodNamedAbsent {
				if oL := c16Eval(fL, arg); oL != oM && !(rep == 3 || rep == 4) {
					extra["exp_literal"], extra["outcome_literal"] = cs.literal, oL
					viol("literal-call-spelling-differs", "the literal spelling m.x(…) (a method call on m) and GenerateWithMap(exp, m) give different outcomes", extra)
					break
				}
			}
			if oM == oE {
				continue
			}
			if rep == 3 || rep == 4 {
				// hash map: iteration order is random; compare the sets of outcomes
				sM, sE := map[string]bool{oM: true}, map[string]bool{oE: true}
				for k := 0; k < 6; k++ {
					sM[c16Eval(fM, arg)] = true
					sE[c16Eval(fE, arg)] = true
				}
				if len(sM) > 1 || len(sE) > 1 {
					v.Counts = append(v.Counts, "hash-order-dependent-program")
					continue
				}
			}
			v.Disagree++
			viol("mapmode-differs-from-explicit", "GenerateWithMap(exp, m) and Generate(exp', m) give different outcomes on the same argument map", extra)
			break
		}
	}
	return v
}

func init() { workers["c16eval"] = workerC16 }

// `tie worker c16eval`: one case per line (idx TAB marked program), one JSON verdict per line.
func workerC16(args []string) {
	debug.SetMaxStack(128 << 20) // an unbounded recursion of a generated program ends the child quickly
	env := newC16Env()
	in := bufio.NewScanner(os.Stdin)
	in.Buffer(make([]byte, 1<<20), 1<<26)
	out := bufio.NewWriter(os.Stdout)
	for in.Scan() {
		f := strings.SplitN(in.Text(), "\t", 2)
		if len(f) != 2 {
			continue
		}
		idx, _ := strconv.Atoi(f[0])
		exp, expl, lit := c16Texts(f[1])
		v := c16Behaviour(env, idx, &c16Case{marked: f[1], exp: exp, expl: expl, literal: lit})
		data, _ := json.Marshal(v)
		out.Write(data)
		out.WriteByte('\n')
		out.Flush()
	}
}

type c16Worker struct {
	cmd   *exec.Cmd
	in    io.WriteCloser
	lines chan string
}

func (w *c16Worker) start() bool {
	exe, err := os.Executable()
	if err != nil {
		return false
	}
	w.cmd = exec.Command(exe, "worker", "c16eval")
	w.cmd.Env = append(os.Environ(), "GOMAXPROCS=4")
	w.in, _ = w.cmd.StdinPipe()
	out, _ := w.cmd.StdoutPipe()
	if err := w.cmd.Start(); err != nil {
		w.cmd = nil
		return false
	}
	lines := make(chan string, 1)
	w.lines = lines
	go func() {
		sc := bufio.NewScanner(out)
		sc.Buffer(make([]byte, 1<<20), 1<<26)
		for sc.Scan() {
			lines <- sc.Text()
		}
		close(lines)
	}()
	return true
}

func (w *c16Worker) stop() {
	if w.cmd != nil {
		w.in.Close()
		w.cmd.Process.Kill()
		w.cmd.Wait()
		w.cmd = nil
	}
}

// eval returns the verdict of the child on the case; ok = false if the child died or hung on it
// (the child is restarted for the next case).
func (w *c16Worker) eval(idx int, cs *c16Case) (v c16Verdict, ok bool) {
	if w.cmd == nil && !w.start() {
		fatal("c16: cannot start the evaluation worker")
	}
	if _, err := fmt.Fprintf(w.in, "%d\t%s\n", idx, cs.marked); err != nil {
		w.stop()
		return v, false
	}
	select {
	case line, open := <-w.lines:
		if !open {
			w.stop()
			return v, false
		}
		if err := json.Unmarshal([]byte(line), &v); err != nil {
			w.stop()
			return v, false
		}
		return v, true
	case <-time.After(60 * time.Second):
		w.stop()
		return v, false
	}
}
