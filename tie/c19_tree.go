package main

// C19 — expression trees over an operator table, the two renderers (minimal parentheses under the
// declared priorities, fully parenthesised) plus the implicit-multiplication rendering of the comfort
// mode, bounded-exhaustive enumeration, and direct evaluation by the operators' own definitions.

import (
	"fmt"
	"math"
	"math/big"
	"strconv"
	"strings"
)

// gnode is an expression tree.
//
//	k: 'c' constant ('true'/'false' identifier for bool, number literal for float)
//	   'v' variable, 'u' prefix operator, 'b' binary operator, 'f' one-argument function call,
//	   'l' let (s = name; kids = value, body), 'i' if (kids = cond, then, else)
type gnode struct {
	k    byte
	s    string
	kids []*gnode
	n    int     // operator nodes (prefix, binary, call, let, if)
	tt   uint8   // bool families: truth table over the 8 assignments (bit i: a=i&1, b=i>>1&1, c=i>>2&1)
	fv   float64 // float constant
	vec  *gfvec  // float families: values over the assignment grid
}

// gtable describes the syntax side of a generator: priorities and prefix operators.
type gtable struct {
	ops      []string       // binary operators, ascending priority
	level    map[string]int // spelling -> index in ops
	unaryPos map[string]int // prefix operator -> index of the binary operator of the same spelling, -1 if none
}

func newGTable(ops []string, unary []string) *gtable {
	t := &gtable{ops: ops, level: map[string]int{}, unaryPos: map[string]int{}}
	for i, o := range ops {
		t.level[o] = i
	}
	for _, u := range unary {
		p := -1
		if i, ok := t.level[u]; ok {
			p = i
		}
		t.unaryPos[u] = p
	}
	return t
}

func gleaf(k byte, s string) *gnode { return &gnode{k: k, s: s} }

func gmk(k byte, s string, kids ...*gnode) *gnode {
	n := 1
	for _, c := range kids {
		n += c.n
	}
	return &gnode{k: k, s: s, kids: kids, n: n}
}

// ---- protocol form (prefix tokens, shared with the Lean driver) ------------------------------

func (e *gnode) tokens(b *strings.Builder, float bool) {
	switch e.k {
	case 'c':
		if float {
			b.WriteString("C " + c19RatText(e.fv))
		} else {
			b.WriteString("V " + e.s) // true / false are constant identifiers of the generator
		}
	case 'v':
		b.WriteString("V " + e.s)
	case 'u':
		b.WriteString("U " + e.s + " ")
		e.kids[0].tokens(b, float)
	case 'b':
		b.WriteString("B " + e.s + " ")
		e.kids[0].tokens(b, float)
		b.WriteByte(' ')
		e.kids[1].tokens(b, float)
	case 'f':
		b.WriteString("F " + e.s + " ")
		e.kids[0].tokens(b, float)
	case 'l':
		b.WriteString("L " + e.s + " ")
		e.kids[0].tokens(b, float)
		b.WriteByte(' ')
		e.kids[1].tokens(b, float)
	case 'i':
		b.WriteString("I ")
		e.kids[0].tokens(b, float)
		b.WriteByte(' ')
		e.kids[1].tokens(b, float)
		b.WriteByte(' ')
		e.kids[2].tokens(b, float)
	}
}

func c19TokensOf(e *gnode, float bool) string {
	var b strings.Builder
	e.tokens(&b, float)
	return b.String()
}

// c19RatText is the exact value of a finite float as "n/d" (big.Rat's canonical text).
func c19RatText(f float64) string {
	if math.IsNaN(f) {
		return "nan"
	}
	if math.IsInf(f, 0) {
		return "inf"
	}
	r := new(big.Rat)
	r.SetFloat64(f)
	return r.String()
}

func c19ParseRatText(s string) (float64, bool) {
	r := new(big.Rat)
	if _, ok := r.SetString(s); !ok {
		return 0, false
	}
	f, exact := r.Float64()
	return f, exact
}

// c19ParseTokens reads the prefix form back (worker side).
func c19ParseTokens(ws []string, float bool) (*gnode, []string, error) {
	if len(ws) == 0 {
		return nil, nil, fmt.Errorf("unexpected end of tokens")
	}
	switch ws[0] {
	case "C":
		if len(ws) < 2 {
			return nil, nil, fmt.Errorf("C without value")
		}
		f, ok := c19ParseRatText(ws[1])
		if !ok {
			return nil, nil, fmt.Errorf("bad constant %q", ws[1])
		}
		return &gnode{k: 'c', s: c19NumText(f), fv: f}, ws[2:], nil
	case "V":
		if len(ws) < 2 {
			return nil, nil, fmt.Errorf("V without name")
		}
		if !float && (ws[1] == "true" || ws[1] == "false") {
			return gleaf('c', ws[1]), ws[2:], nil
		}
		return gleaf('v', ws[1]), ws[2:], nil
	case "U", "F":
		if len(ws) < 2 {
			return nil, nil, fmt.Errorf("operator missing")
		}
		a, r, err := c19ParseTokens(ws[2:], float)
		if err != nil {
			return nil, nil, err
		}
		k := byte('u')
		if ws[0] == "F" {
			k = 'f'
		}
		return gmk(k, ws[1], a), r, nil
	case "B", "L":
		if len(ws) < 2 {
			return nil, nil, fmt.Errorf("operator missing")
		}
		a, r, err := c19ParseTokens(ws[2:], float)
		if err != nil {
			return nil, nil, err
		}
		b, r2, err := c19ParseTokens(r, float)
		if err != nil {
			return nil, nil, err
		}
		k := byte('b')
		if ws[0] == "L" {
			k = 'l'
		}
		return gmk(k, ws[1], a, b), r2, nil
	case "I":
		a, r, err := c19ParseTokens(ws[1:], float)
		if err != nil {
			return nil, nil, err
		}
		b, r2, err := c19ParseTokens(r, float)
		if err != nil {
			return nil, nil, err
		}
		c, r3, err := c19ParseTokens(r2, float)
		if err != nil {
			return nil, nil, err
		}
		return gmk('i', "", a, b, c), r3, nil
	}
	return nil, nil, fmt.Errorf("unknown token %q", ws[0])
}

// c19NumText renders a non-negative grid constant as a plain decimal literal (no exponent).
func c19NumText(f float64) string { return strconv.FormatFloat(f, 'f', -1, 64) }

// ---- renderers ----------------------------------------------------------------------------------

// isPrimary: what parseNonOperator/parseLiteral accept without parentheses and without swallowing
// anything that follows.
func (e *gnode) isPrimary() bool { return e.k == 'c' || e.k == 'v' || e.k == 'f' }

// render writes e with minimal parentheses. ctx is the lowest binary level allowed without
// parentheses at this position, follow the level of the binary operator that follows e in the same
// unparenthesised context (-1: none — end of input, ')', ';' or a keyword).
//
//   - a binary node of level L is parenthesised iff L < ctx; its left operand is rendered with
//     ctx L and follow L, its right operand with ctx L+1 (left associativity) and the inherited follow;
//   - a prefix operator that is also the binary operator at position p takes the maximal operand built
//     from levels > p (parseOp(p+1)): it is parenthesised iff the operator that follows has level > p;
//   - a pure prefix operator takes a primary: anything else is parenthesised;
//   - `if` swallows everything up to the end of its else branch: parenthesised iff something follows.
func (t *gtable) render(b *strings.Builder, e *gnode, ctx, follow int, imp bool) {
	switch e.k {
	case 'c', 'v':
		b.WriteString(e.s)
	case 'f':
		b.WriteString(e.s)
		b.WriteByte('(')
		t.render(b, e.kids[0], 0, -1, imp)
		b.WriteByte(')')
	case 'u':
		p := t.unaryPos[e.s]
		if p < 0 {
			b.WriteString(e.s)
			if e.kids[0].isPrimary() {
				t.render(b, e.kids[0], 0, -1, imp)
			} else {
				b.WriteByte('(')
				t.render(b, e.kids[0], 0, -1, imp)
				b.WriteByte(')')
			}
			return
		}
		if follow > p {
			b.WriteByte('(')
			b.WriteString(e.s)
			t.render(b, e.kids[0], p+1, -1, imp)
			b.WriteByte(')')
		} else {
			b.WriteString(e.s)
			t.render(b, e.kids[0], p+1, follow, imp)
		}
	case 'b':
		l := t.level[e.s]
		paren := l < ctx
		f := follow
		if paren {
			b.WriteByte('(')
			f = -1
		}
		if imp && e.s == "*" {
			var lb, rb strings.Builder
			t.render(&lb, e.kids[0], l, l, imp)
			t.render(&rb, e.kids[1], l+1, f, imp)
			b.WriteString(lb.String())
			b.WriteString(c19ImplicitTimes(lb.String(), rb.String()))
			b.WriteString(rb.String())
		} else {
			t.render(b, e.kids[0], l, l, imp)
			b.WriteString(e.s)
			t.render(b, e.kids[1], l+1, f, imp)
		}
		if paren {
			b.WriteByte(')')
		}
	case 'i':
		paren := follow >= 0
		if paren {
			b.WriteByte('(')
		}
		b.WriteString("if ")
		t.render(b, e.kids[0], 0, -1, imp)
		b.WriteString(" then ")
		t.renderLet(b, e.kids[1], imp)
		b.WriteString(" else ")
		t.renderLet(b, e.kids[2], imp)
		if paren {
			b.WriteByte(')')
		}
	case 'l':
		// a let outside a let position cannot be written; the generators never build one
		b.WriteString("<<let outside let position>>")
	}
}

// renderLet: positions parsed by parseLet (top level, then/else branches, let bodies).
func (t *gtable) renderLet(b *strings.Builder, e *gnode, imp bool) {
	if e.k == 'l' {
		b.WriteString("let ")
		b.WriteString(e.s)
		b.WriteString("=")
		t.render(b, e.kids[0], 0, -1, imp)
		b.WriteString(";")
		t.renderLet(b, e.kids[1], imp)
		return
	}
	t.render(b, e, 0, -1, imp)
}

// c19ImplicitTimes: the text to put between the operands of `*` so that the comfort-mode scanner
// inserts the operator itself; "*" when the scanner would not.
// c19Blank: the white space written where a juxtaposition needs one (a blank; line feed, tab, CR LF in the "impws" rendering)
var c19Blank = " "

func c19ImplicitTimes(left, right string) string {
	if left == "" || right == "" {
		return "*"
	}
	if strings.HasPrefix(right, "if ") || strings.HasPrefix(right, "let ") {
		return "*" // a keyword is not an operand start for the scanner
	}
	lc := left[len(left)-1]
	rc := right[0]
	isDigit := func(c byte) bool { return c >= '0' && c <= '9' }
	isLetter := func(c byte) bool { return c >= 'a' && c <= 'z' }
	lNum, lId, lClose := isDigit(lc), isLetter(lc), lc == ')'
	// a trailing digit may belong to an identifier such as x1: decide by scanning back
	if lNum {
		i := len(left) - 1
		for i >= 0 && (isDigit(left[i]) || left[i] == '.') {
			i--
		}
		if i >= 0 && isLetter(left[i]) {
			lNum, lId = false, true
		}
	}
	if !(lNum || lId || lClose) {
		return "*"
	}
	switch {
	case rc == '(':
		if lId {
			return c19Blank // ident + blank + '('
		}
		return ""
	case isDigit(rc):
		if lClose {
			return ""
		}
		return c19Blank
	case isLetter(rc):
		if lId {
			return c19Blank
		}
		if lNum && rc == 'e' {
			return "*" // 2e… would be scanned as a number
		}
		return ""
	}
	return "*"
}

// renderFull parenthesises every operator node.
func (t *gtable) renderFull(b *strings.Builder, e *gnode) {
	switch e.k {
	case 'c', 'v':
		b.WriteString(e.s)
	case 'f':
		b.WriteString(e.s)
		b.WriteByte('(')
		t.renderFull(b, e.kids[0])
		b.WriteByte(')')
	case 'u':
		b.WriteByte('(')
		b.WriteString(e.s)
		t.renderFull(b, e.kids[0])
		b.WriteByte(')')
	case 'b':
		b.WriteByte('(')
		t.renderFull(b, e.kids[0])
		b.WriteString(e.s)
		t.renderFull(b, e.kids[1])
		b.WriteByte(')')
	case 'i':
		b.WriteString("(if ")
		t.renderFull(b, e.kids[0])
		b.WriteString(" then ")
		t.renderFullLet(b, e.kids[1])
		b.WriteString(" else ")
		t.renderFullLet(b, e.kids[2])
		b.WriteByte(')')
	case 'l':
		b.WriteString("<<let outside let position>>")
	}
}

func (t *gtable) renderFullLet(b *strings.Builder, e *gnode) {
	if e.k == 'l' {
		b.WriteString("let ")
		b.WriteString(e.s)
		b.WriteString("=")
		t.renderFull(b, e.kids[0])
		b.WriteString(";")
		t.renderFullLet(b, e.kids[1])
		return
	}
	t.renderFull(b, e)
}

func (t *gtable) minimalText(e *gnode) string {
	var b strings.Builder
	t.renderLet(&b, e, false)
	return b.String()
}

func (t *gtable) fullText(e *gnode) string {
	var b strings.Builder
	t.renderFullLet(&b, e)
	return b.String()
}

func (t *gtable) implicitText(e *gnode) string {
	var b strings.Builder
	t.renderLet(&b, e, true)
	return b.String()
}

func (e *gnode) has(k byte, s string) bool {
	if e.k == k && (s == "" || e.s == s) {
		return true
	}
	for _, c := range e.kids {
		if c.has(k, s) {
			return true
		}
	}
	return false
}

// ---- enumeration --------------------------------------------------------------------------------

// galphabet of an exhaustive family
type galphabet struct {
	leaves []*gnode
	unary  []string
	funcs  []string
	binary []string
	hook   func(*gnode) // fills the semantic annotation (tt / vec) of a freshly built node
}

// gtreeEnum enumerates every tree with exactly n operator nodes; sizes up to `stored` are kept in
// memory, larger ones are streamed.
type gtreeEnum struct {
	al     galphabet
	stored int
	lists  [][]*gnode
}

func newGTreeEnum(al galphabet, stored int) *gtreeEnum {
	te := &gtreeEnum{al: al, stored: stored}
	for n := 0; n <= stored; n++ {
		var l []*gnode
		te.stream(n, func(e *gnode) { l = append(l, e) })
		te.lists = append(te.lists, l)
	}
	return te
}

func (te *gtreeEnum) node(k byte, s string, kids ...*gnode) *gnode {
	e := gmk(k, s, kids...)
	if te.al.hook != nil {
		te.al.hook(e)
	}
	return e
}

// each calls f for every tree with exactly n operator nodes.
func (te *gtreeEnum) each(n int, f func(*gnode)) {
	if n < len(te.lists) {
		for _, e := range te.lists[n] {
			f(e)
		}
		return
	}
	te.stream(n, f)
}

func (te *gtreeEnum) stream(n int, f func(*gnode)) {
	if n == 0 {
		for _, l := range te.al.leaves {
			f(l)
		}
		return
	}
	te.each(n-1, func(c *gnode) {
		for _, u := range te.al.unary {
			f(te.node('u', u, c))
		}
		for _, fn := range te.al.funcs {
			f(te.node('f', fn, c))
		}
	})
	for i := 0; i <= n-1; i++ {
		te.each(i, func(l *gnode) {
			te.each(n-1-i, func(r *gnode) {
				for _, o := range te.al.binary {
					f(te.node('b', o, l, r))
				}
			})
		})
	}
}

// eachSharded: like each, but only every nshards-th tree (position ≡ shard in the enumeration order)
// is built at the top level and visited; the operands come from the stored lists or are streamed.
func (te *gtreeEnum) eachSharded(n, shard, nshards int, f func(*gnode)) {
	cnt := 0
	mine := func() bool {
		m := cnt%nshards == shard
		cnt++
		return m
	}
	if n == 0 {
		for _, l := range te.al.leaves {
			if mine() {
				f(l)
			}
		}
		return
	}
	te.each(n-1, func(c *gnode) {
		for _, u := range te.al.unary {
			if mine() {
				f(te.node('u', u, c))
			}
		}
		for _, fn := range te.al.funcs {
			if mine() {
				f(te.node('f', fn, c))
			}
		}
	})
	for i := 0; i <= n-1; i++ {
		te.each(i, func(l *gnode) {
			te.each(n-1-i, func(r *gnode) {
				for _, o := range te.al.binary {
					if mine() {
						f(te.node('b', o, l, r))
					}
				}
			})
		})
	}
}

// c19CountTrees: closed-form count for the evidence file (leaves L, u prefix/function symbols, k binary).
func c19CountTrees(L, u, k, n int) []int64 {
	t := make([]int64, n+1)
	t[0] = int64(L)
	for m := 1; m <= n; m++ {
		s := int64(u) * t[m-1]
		for i := 0; i <= m-1; i++ {
			s += int64(k) * t[i] * t[m-1-i]
		}
		t[m] = s
	}
	return t
}

// ---- boolean semantics: the operators' own definitions -------------------------------------------

type c19BoolOpDef struct {
	Sym  string `json:"sym"`
	Comm bool   `json:"comm"`
	Fn   string `json:"fn"` // xor | eq | or | and | nand | imp
}

func c19BoolFn(name string) func(a, b bool) bool {
	switch name {
	case "xor":
		return func(a, b bool) bool { return a != b }
	case "eq":
		return func(a, b bool) bool { return a == b }
	case "or":
		return func(a, b bool) bool { return a || b }
	case "and":
		return func(a, b bool) bool { return a && b }
	case "nand":
		return func(a, b bool) bool { return !(a && b) }
	case "imp":
		return func(a, b bool) bool { return !a || b }
	}
	panic("unknown boolean function " + name)
}

// the definitions of example/bool.go as stated by the property
var c19ExampleBoolOps = map[string]string{"^": "xor", "=": "eq", "|": "or", "&": "and"}

const c19ttA, c19ttB, c19ttC = uint8(0xAA), uint8(0xCC), uint8(0xF0)

type gboolSem struct {
	bin map[string]func(a, b bool) bool
}

func c19TTOf(f func(a, b bool) bool, x, y uint8) uint8 {
	var r uint8
	for i := 0; i < 8; i++ {
		if f(x>>i&1 == 1, y>>i&1 == 1) {
			r |= 1 << i
		}
	}
	return r
}

// evalTT evaluates the tree for all 8 assignments at once (env: let-bound names).
func (bs *gboolSem) evalTT(e *gnode, env map[string]uint8) uint8 {
	switch e.k {
	case 'c':
		if e.s == "true" {
			return 0xFF
		}
		return 0
	case 'v':
		if v, ok := env[e.s]; ok {
			return v
		}
		switch e.s {
		case "a":
			return c19ttA
		case "b":
			return c19ttB
		case "c":
			return c19ttC
		}
		panic("unbound variable " + e.s)
	case 'u':
		return ^bs.evalTT(e.kids[0], env)
	case 'b':
		return c19TTOf(bs.bin[e.s], bs.evalTT(e.kids[0], env), bs.evalTT(e.kids[1], env))
	case 'l':
		v := bs.evalTT(e.kids[0], env)
		old, had := env[e.s]
		env[e.s] = v
		r := bs.evalTT(e.kids[1], env)
		if had {
			env[e.s] = old
		} else {
			delete(env, e.s)
		}
		return r
	case 'i':
		c := bs.evalTT(e.kids[0], env)
		return c&bs.evalTT(e.kids[1], env) | ^c&bs.evalTT(e.kids[2], env)
	}
	panic("bad node")
}

func (bs *gboolSem) hook(e *gnode) {
	switch e.k {
	case 'u':
		e.tt = ^e.kids[0].tt
	case 'b':
		e.tt = c19TTOf(bs.bin[e.s], e.kids[0].tt, e.kids[1].tt)
	}
}

func c19BoolLeaves() []*gnode {
	a, b, c := gleaf('v', "a"), gleaf('v', "b"), gleaf('v', "c")
	a.tt, b.tt, c.tt = c19ttA, c19ttB, c19ttC
	tr, fa := gleaf('c', "true"), gleaf('c', "false")
	tr.tt = 0xFF
	return []*gnode{a, b, c, tr, fa}
}

// extended boolean forms: let / if on top of the operators. let only at let positions, names by
// nesting depth (x, y, z), fresh with respect to a, b, c.
var c19LetNames = []string{"x", "y", "z"}

type c19ExtKey struct {
	n      int
	letPos bool
	depth  int
}

type c19ExtEnum struct {
	binary []string
	unary  []string
	memo   map[c19ExtKey][]*gnode
}

func (ee *c19ExtEnum) list(n int, letPos bool, depth int) []*gnode {
	key := c19ExtKey{n, letPos, depth}
	if l, ok := ee.memo[key]; ok {
		return l
	}
	var res []*gnode
	if n == 0 {
		res = append(res, c19BoolLeaves()...)
		for d := 0; d < depth; d++ {
			res = append(res, gleaf('v', c19LetNames[d]))
		}
		ee.memo[key] = res
		return res
	}
	for _, c := range ee.list(n-1, false, depth) {
		for _, u := range ee.unary {
			res = append(res, gmk('u', u, c))
		}
	}
	for i := 0; i <= n-1; i++ {
		for _, l := range ee.list(i, false, depth) {
			for _, r := range ee.list(n-1-i, false, depth) {
				for _, o := range ee.binary {
					res = append(res, gmk('b', o, l, r))
				}
			}
		}
	}
	// if: cond (expression), then / else (let positions)
	for i := 0; i <= n-1; i++ {
		for j := 0; i+j <= n-1; j++ {
			k := n - 1 - i - j
			for _, c := range ee.list(i, false, depth) {
				for _, th := range ee.list(j, true, depth) {
					for _, el := range ee.list(k, true, depth) {
						res = append(res, gmk('i', "", c, th, el))
					}
				}
			}
		}
	}
	if letPos && depth < len(c19LetNames) {
		for i := 0; i <= n-1; i++ {
			for _, v := range ee.list(i, false, depth) {
				for _, body := range ee.list(n-1-i, true, depth+1) {
					res = append(res, gmk('l', c19LetNames[depth], v, body))
				}
			}
		}
	}
	ee.memo[key] = res
	return res
}

// ---- float semantics ---------------------------------------------------------------------------

// gfvec: value of a subtree for every assignment of the grid, plus the bookkeeping that defines the
// exact domain: U bounds the magnitude (U >= 1), g the number of fractional bits; when
// log2(U)+g <= c19ExactBits at every node, every operation — and every regrouping of a + or * chain —
// is exact in float64 (all partial results are multiples of 2^-g below 2^(53-g)).
type gfvec struct {
	v  []float64
	ok []bool
	u  []float64
	g  []int
}

const c19ExactBits = 50

func c19FracBits(f float64) int {
	if f == 0 || math.IsInf(f, 0) || math.IsNaN(f) {
		return 0
	}
	fr, exp := math.Frexp(math.Abs(f)) // f = fr * 2^exp, fr in [0.5,1)
	m := uint64(fr * (1 << 53))        // 53-bit integer mantissa
	tz := 0
	for m&1 == 0 {
		m >>= 1
		tz++
	}
	// f = m * 2^(exp-53+tz)
	e := exp - 53 + tz
	if e >= 0 {
		return 0
	}
	return -e
}

func c19Pow2Exp(f float64) (int, bool) {
	if f == 0 || math.IsInf(f, 0) || math.IsNaN(f) {
		return 0, false
	}
	fr, exp := math.Frexp(math.Abs(f))
	if fr != 0.5 {
		return 0, false
	}
	return exp - 1, true
}

func c19FromBoolF(b bool) float64 {
	if b {
		return 1
	}
	return 0
}

// c19FloatBin: example/minimal.go, as stated by the property.
func c19FloatBin(op string, a, b float64) float64 {
	switch op {
	case "=":
		return c19FromBoolF(a == b)
	case "<":
		return c19FromBoolF(a < b)
	case ">":
		return c19FromBoolF(a > b)
	case "+":
		return a + b
	case "-":
		return a - b
	case "*":
		return a * b
	case "/":
		return a / b
	case "^":
		return math.Pow(a, b)
	}
	panic("unknown float operator " + op)
}

func c19FloatFunc(name string, x float64) float64 {
	switch name {
	case "sqr":
		return x * x
	case "sqrt":
		return math.Sqrt(x)
	case "sin":
		return math.Sin(x)
	case "cos":
		return math.Cos(x)
	}
	panic("unknown function " + name)
}

func c19SameFloat(a, b float64) bool {
	if math.IsNaN(a) && math.IsNaN(b) {
		return true
	}
	return math.Float64bits(a) == math.Float64bits(b)
}

func c19OkBound(u float64, g int) bool {
	if !(u >= 1) || math.IsInf(u, 0) {
		return false
	}
	return math.Log2(u)+float64(g) <= c19ExactBits
}

type gfloatSem struct {
	vars []string
	grid [][]float64 // assignments: grid[j][i] = value of vars[i]
}

func (fs *gfloatSem) leafVec(e *gnode) *gfvec {
	n := len(fs.grid)
	r := &gfvec{v: make([]float64, n), ok: make([]bool, n), u: make([]float64, n), g: make([]int, n)}
	for j := range fs.grid {
		var x float64
		if e.k == 'c' {
			x = e.fv
		} else {
			found := false
			for i, vn := range fs.vars {
				if vn == e.s {
					x = fs.grid[j][i]
					found = true
				}
			}
			if !found {
				panic("unbound float variable " + e.s)
			}
		}
		r.v[j] = x
		r.u[j] = math.Max(math.Abs(x), 1)
		r.g[j] = c19FracBits(x)
		r.ok[j] = c19OkBound(r.u[j], r.g[j])
	}
	return r
}

// combine computes the vector of an operator node from its children (strict in all children: the
// untaken branch of an `if` also has to stay inside the domain, so that constant subterms fold the
// same way in the exact model).
func (fs *gfloatSem) hook(e *gnode) {
	n := len(fs.grid)
	r := &gfvec{v: make([]float64, n), ok: make([]bool, n), u: make([]float64, n), g: make([]int, n)}
	switch e.k {
	case 'u':
		x := e.kids[0].vec
		for j := 0; j < n; j++ {
			r.v[j], r.ok[j], r.u[j], r.g[j] = -x.v[j], x.ok[j], x.u[j], x.g[j]
		}
	case 'f':
		x := e.kids[0].vec
		for j := 0; j < n; j++ {
			r.v[j] = c19FloatFunc(e.s, x.v[j])
			switch e.s {
			case "sqr":
				r.u[j], r.g[j] = x.u[j]*x.u[j], 2*x.g[j]
				r.ok[j] = x.ok[j] && c19OkBound(r.u[j], r.g[j])
			case "sqrt":
				rt := r.v[j]
				r.u[j], r.g[j] = math.Max(rt, 1), x.g[j]
				// exact root: the product rt*rt is x without rounding (FMA computes rt*rt-x exactly)
				r.ok[j] = x.ok[j] && x.v[j] >= 0 && math.FMA(rt, rt, -x.v[j]) == 0 && c19FracBits(rt)*2 <= c19ExactBits && c19OkBound(r.u[j], r.g[j])
			default:
				r.ok[j] = false
			}
		}
	case 'b':
		x, y := e.kids[0].vec, e.kids[1].vec
		for j := 0; j < n; j++ {
			r.v[j] = c19FloatBin(e.s, x.v[j], y.v[j])
			both := x.ok[j] && y.ok[j]
			switch e.s {
			case "=", "<", ">":
				r.u[j], r.g[j] = 1, 0
				r.ok[j] = both
			case "+", "-":
				r.u[j] = x.u[j] + y.u[j]
				r.g[j] = x.g[j]
				if y.g[j] > r.g[j] {
					r.g[j] = y.g[j]
				}
				r.ok[j] = both && c19OkBound(r.u[j], r.g[j])
			case "*":
				r.u[j], r.g[j] = x.u[j]*y.u[j], x.g[j]+y.g[j]
				r.ok[j] = both && c19OkBound(r.u[j], r.g[j])
			case "/":
				k, p2 := c19Pow2Exp(y.v[j])
				if !p2 {
					r.ok[j] = false
					break
				}
				if k >= 0 {
					r.u[j], r.g[j] = x.u[j], x.g[j]+k
				} else {
					r.u[j], r.g[j] = x.u[j]*math.Ldexp(1, -k), x.g[j]
				}
				r.ok[j] = both && c19OkBound(r.u[j], r.g[j])
			case "^":
				ex := y.v[j]
				if !(ex >= 0 && ex <= 8 && ex == math.Trunc(ex)) {
					r.ok[j] = false
					break
				}
				r.u[j], r.g[j] = math.Pow(x.u[j], ex), x.g[j]*int(ex)
				if r.u[j] < 1 {
					r.u[j] = 1
				}
				r.ok[j] = both && c19OkBound(r.u[j], r.g[j])
			}
		}
	default:
		panic("floatSem.hook: unexpected node")
	}
	e.vec = r
}

// evalFloat: direct evaluation for one assignment (used for let / if forms and sampled trees).
// Returns the value and whether every node stayed inside the exact domain.
type gfval struct {
	v  float64
	ok bool
	u  float64
	g  int
}

func (fs *gfloatSem) evalFloat(e *gnode, env map[string]gfval) gfval {
	switch e.k {
	case 'c':
		u := math.Max(math.Abs(e.fv), 1)
		g := c19FracBits(e.fv)
		return gfval{e.fv, c19OkBound(u, g), u, g}
	case 'v':
		if x, ok := env[e.s]; ok {
			return x
		}
		panic("unbound float variable " + e.s)
	case 'l':
		v := fs.evalFloat(e.kids[0], env)
		old, had := env[e.s]
		env[e.s] = v
		r := fs.evalFloat(e.kids[1], env)
		if had {
			env[e.s] = old
		} else {
			delete(env, e.s)
		}
		r.ok = r.ok && v.ok
		return r
	case 'i':
		c := fs.evalFloat(e.kids[0], env)
		th := fs.evalFloat(e.kids[1], env)
		el := fs.evalFloat(e.kids[2], env)
		r := el
		if c.v != 0 {
			r = th
		}
		r.ok = c.ok && th.ok && el.ok
		return r
	}
	// operator nodes: reuse the vector code on vectors of length one
	one := &gfloatSem{grid: [][]float64{{}}}
	tmp := &gnode{k: e.k, s: e.s}
	for _, c := range e.kids {
		x := fs.evalFloat(c, env)
		tmp.kids = append(tmp.kids, &gnode{vec: &gfvec{v: []float64{x.v}, ok: []bool{x.ok}, u: []float64{x.u}, g: []int{x.g}}})
	}
	one.hook(tmp)
	return gfval{tmp.vec.v[0], tmp.vec.ok[0], tmp.vec.u[0], tmp.vec.g[0]}
}

// c19ExactEval: the same tree over exact rationals (math/big); ok=false outside the exact model.
func c19ExactEval(e *gnode, env map[string]*big.Rat) (*big.Rat, bool) {
	switch e.k {
	case 'c':
		return new(big.Rat).SetFloat64(e.fv), true
	case 'v':
		x, ok := env[e.s]
		return x, ok
	case 'u':
		x, ok := c19ExactEval(e.kids[0], env)
		if !ok {
			return nil, false
		}
		return new(big.Rat).Neg(x), true
	case 'f':
		x, ok := c19ExactEval(e.kids[0], env)
		if !ok {
			return nil, false
		}
		switch e.s {
		case "sqr":
			return new(big.Rat).Mul(x, x), true
		case "sqrt":
			if x.Sign() < 0 {
				return nil, false
			}
			n, d := new(big.Int).Sqrt(x.Num()), new(big.Int).Sqrt(x.Denom())
			if new(big.Int).Mul(n, n).Cmp(x.Num()) != 0 || new(big.Int).Mul(d, d).Cmp(x.Denom()) != 0 {
				return nil, false
			}
			return new(big.Rat).SetFrac(n, d), true
		}
		return nil, false
	case 'b':
		x, ok1 := c19ExactEval(e.kids[0], env)
		y, ok2 := c19ExactEval(e.kids[1], env)
		if !ok1 || !ok2 {
			return nil, false
		}
		bi := func(b bool) *big.Rat {
			if b {
				return big.NewRat(1, 1)
			}
			return new(big.Rat)
		}
		switch e.s {
		case "=":
			return bi(x.Cmp(y) == 0), true
		case "<":
			return bi(x.Cmp(y) < 0), true
		case ">":
			return bi(x.Cmp(y) > 0), true
		case "+":
			return new(big.Rat).Add(x, y), true
		case "-":
			return new(big.Rat).Sub(x, y), true
		case "*":
			return new(big.Rat).Mul(x, y), true
		case "/":
			if y.Sign() == 0 {
				return nil, false
			}
			return new(big.Rat).Quo(x, y), true
		case "^":
			if !y.IsInt() || y.Sign() < 0 || y.Num().Cmp(big.NewInt(64)) > 0 {
				return nil, false
			}
			r := big.NewRat(1, 1)
			for i := int64(0); i < y.Num().Int64(); i++ {
				r.Mul(r, x)
			}
			return r, true
		}
	case 'l':
		v, ok := c19ExactEval(e.kids[0], env)
		if !ok {
			return nil, false
		}
		old, had := env[e.s]
		env[e.s] = v
		r, ok2 := c19ExactEval(e.kids[1], env)
		if had {
			env[e.s] = old
		} else {
			delete(env, e.s)
		}
		return r, ok2
	case 'i':
		c, ok := c19ExactEval(e.kids[0], env)
		if !ok {
			return nil, false
		}
		if c.Sign() != 0 {
			return c19ExactEval(e.kids[1], env)
		}
		return c19ExactEval(e.kids[2], env)
	}
	return nil, false
}
