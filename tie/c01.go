package main

// C01 — compiled evaluation equals the lexically scoped reference semantics.
// (a) real Generate+Eval with the optimizer off and on, (b) the Lean model's compiled semantics
// (gen + exec), (c) the Lean model's reference semantics (eval). Oracle of the property: (c).

import (
	"regexp"
	"fmt"
	"os"
	"strconv"
	"strings"

	"github.com/hneemann/parser2/value"
)

func init() { props["C01"] = runC01 }

type langCase struct {
	src   string
	names []string
	args  []value.Value
	// filled by run
	ast       string
	implOff   string
	implOn    string
	nontriv   bool
	unmodel   string
	bindInArg int
}

var c01Corpus = []string{
	// B1: non-constant let in a 2nd+ call argument / in a method argument
	"max(a, a+1, let x=a*10; x)",
	"l.append(let n=a*2; n)",
	"min(a, (e -> let q = e * 3; q)(a), let w = a + 5; w * w)",
	"l.map(e -> e + a).reduce((p, q) -> let s = p + q; s)",
	"l.mapReduce(let i0 = a; i0, (s, e) -> let t = s + e; t * 1)",
	"[1,2,3].top(let n = a - 1; n).size()",
	"m.put(\"z\", let v = a * a; v).z",
	"(e -> e + 1)(let v = a + 2; v)",
	"max(a, if a > 2 then let r = a * 2; r else 0, (k -> let j = k + a; j)(1))",
	// B24: a local binding named like a static function
	"let abs = x -> x + a; abs(0 - 3)",
	"func sqr(x) x + 1; sqr(a)",
	// a failing element inside an operand of `=` / `!=` / `~`, inside a value that is printed, a method on a type without methods
	"try ([1, 2, 3].map(e -> if e = a then throw(\"x\") else e) = [1, 2, 3]) catch 0 - 1", "try ([1, 2, 3] = [1, 2, 3].map(e -> if e = a then throw(\"x\") else e)) catch 0 - 1",
	"try ([1, 2].map(e -> throw(\"l\")) != [1, 2].map(e -> throw(\"r\"))) catch 0 - 1", "try (2 ~ [1, 2, 3].map(e -> if e = a then throw(\"x\") else e)) catch 0 - 1",
	"try {k: [1, 2].map(e -> if e = a then throw(\"x\") else e), j: 1}.string() catch \"caught\"", "try [[1, 2].map(e -> if e = a then throw(\"x\") else e)].string() catch \"caught\"",
	"try t.size() catch 0 - 1", "try (x -> x).size() catch 0 - 1", "try a.nosuch(1) catch 0 - 1", "try s.nosuch() catch 0 - 1", "try {k: 1}.nosuch() catch 0 - 1",
	// wrong argument counts at every kind of call site (closure value, func, map-field closure through method syntax, built-in method)
	"try (x -> x + a)(1, 2) catch 0 - 1", "try ((x, y) -> x + a)(1) catch 0 - 1", "func f(x) x + a; try f(1, 2) catch 0 - 1", "func f(x, y) x + a; try f(1) catch 0 - 1",
	"try {f: x -> x + a}.f(1, 2) catch 0 - 1", "try {f: (x, y) -> x + a}.f(1) catch 0 - 1", "let mm = {f: x -> x + a, g: 1}; [try mm.f() catch 0 - 1, try mm.f(1, 2, 3) catch 0 - 2, mm.f(4)]",
	"try l.size(1) catch 0 - 1", "try l.map() catch 0 - 1", "try l.map(e -> e, 2).size() catch 0 - 1", "try abs() catch 0 - 1", "try abs(a, 2) catch 0 - 1", "try l.map((x, y) -> x).size() catch 0 - 1",
	"(max -> max(2))(e -> e * a)",
	// closures three levels deep mixing captured arguments, lets and outer parameters
	"let k = a + 1; (x -> (y -> (z -> x + y + z + k + a)(3))(2))(1)",
	"func f(n) if n <= 0 then a else n + f(n - 1); f(4)",
	"let c = (k -> (e -> e + k))(a); c(10) + c(20)",
	"let mm = {x: a, f: (e -> e * a)}; mm.f(let u = mm.x; u + 1)",
	"l.accept(e -> e > a).map(e -> let d = e - a; d * d).sum()",
	"try l[a + 10] catch 0 - 1",
	"try throw(\"x\") catch e -> a",
	"switch a case 1 : \"one\" case 3 : let s2 = \"th\"; s2 + \"ree\" default \"many\"",
	"(if t then (x -> x + a) else (x -> x - a))(10)",
}

// c01Sweep enumerates every container construct x every position x every binding construct placed
// there (deterministic, always run): the slot a binding is compiled for must be the slot it is
// pushed to, whatever the surrounding construct has pushed before.
func c01Sweep() []string {
	bindings := []string{
		"let q1 = a + %d; q1 * 2",
		"if a > %d then let q2 = a * 3; q2 else let q3 = a + 7; q3 - 1",
		"switch a case %d : let q4 = a; q4 + 100 default let q5 = a * 5; q5",
		"try let q6 = l[a + %d]; q6 catch let q7 = a + 11; q7",
		"(w -> let q8 = w + a; q8 * %d)(a + 1)",
		"l.mapReduce(%d, (s1, e1) -> let q9 = s1 + e1; q9)",
	}
	// containers with 4 positions @0..@3; unused positions hold plain expressions
	containers := []string{
		"max(@0, @1, @2, @3)",
		"(p0, p1, p2, p3) -> p0 * 1000 + p1 * 100 + p2 * 10 + p3)(@0, @1, @2, @3)",
		"[@0, @1, @2, @3]",
		"{k0: @0, k1: @1, k2: @2, k3: @3}",
		"[@0, @1, @2, @3].map(e9 -> e9 + a).sum()",
		"l.mapReduce(@0, (s2, e2) -> s2 + e2) + @1 + max(@2, @3)",
		"{f: (p0, p1, p2, p3) -> p0 * 1000 + p1 * 100 + p2 * 10 + p3}.f(@0, @1, @2, @3)",
		"[10, 20, 30, 40].top(@0).skip(@1 - @1).append(@2).append(@3)",
		"[[@0, @1], [@2, @3]][a % 2]",
		"min(@0, max(@1, @2), @3)",
		"{x: @0}.put(\"y\", @1).put(\"z\", @2).put(\"w\", @3)",
		"m.get(if @0 > @1 then \"x\" else \"y\") + @2 + @3",
	}
	containers[1] = "(" + containers[1]
	var res []string
	n := 0
	for _, cont := range containers {
		for pos := 0; pos < 4; pos++ {
			for _, b := range bindings {
				n++
				src := cont
				for i := 0; i < 4; i++ {
					fill := fmt.Sprintf("(a + %d)", i+1)
					if i == pos {
						fill = fmt.Sprintf(b, n%5)
						// statement forms are allowed in argument, list and map element positions only
						if strings.Contains(cont, "@"+itoa(i)+" >") || strings.Contains(cont, "> @"+itoa(i)) || strings.Contains(cont, "- @"+itoa(i)) || strings.Contains(cont, "@"+itoa(i)+" -") || strings.Contains(cont, "+ @"+itoa(i)) || strings.Contains(cont, "@"+itoa(i)+" +") {
							fill = "(v0 -> " + fill + ")(0)"
						}
					}
					src = strings.ReplaceAll(src, "@"+itoa(i), fill)
				}
				res = append(res, src)
				// the same after a deeper call has left stale values in the slots above the frame
				res = append(res, "let stale = max(a, a + 1, a + 2, a + 3, a + 4, a + 5); ["+src+", stale][0]")
			}
		}
	}
	// unusual but legal names: a quoted identifier may contain anything but the quote. The compiler gives the anonymous slots
	// of pushed arguments and receivers internal names; a user name must never coincide with one (round-5 seed C01-15: the
	// internal names became "$<slot>", which `'$1'` spells). Every binding of the position sweep under such names, the slot
	// digit ranging over the slots the containers push.
	{
		qre := regexp.MustCompile(`\bq[1-9]\b`)
		prefixes := []string{"$", "#", "_", "@", ".", "", "%", "~", "arg", "slot", "<", " ", "\\", "?", "§", "$$", "'"}
		base := append([]string{}, res...)
		k := 0
		for bi, src := range base {
			if bi%2 == 1 || !qre.MatchString(src) {
				continue // the plain form; the stale-slot form differs only in its prefix
			}
			for d := 0; d < 4; d++ {
				k++
				pf := prefixes[k%len(prefixes)]
				if pf == "'" {
					continue
				}
				name := "'" + pf + itoa(d) + "'"
				res = append(res, qre.ReplaceAllLiteralString(src, name))
				if pf != "$" && d == 1 {
					res = append(res, qre.ReplaceAllLiteralString(src, "'$"+itoa((k/3)%4)+"'"))
				}
			}
		}
		res = append(res, "let '$1' = a * 100; let f = x -> max(x, '$1'); f(3)", "[a].append('$1' -> '$1' + 1).size()", "let '$0' = a; [1].append('$0')", "max(a, let '$1' = a * 10; '$1' + 1)",
			"let 'let' = a; 'let' + 1", "let 'a b' = a; max('a b', 'a b' + 1)", "('$1', '$2') -> '$1' - '$2')(a, 1)")
		res[len(res)-1] = "(" + res[len(res)-1]
	}
	// a name captured from the outer scope and bound again later in the same body (nearest binding wins)
	res = append(res,
		"let k = a * 2; (y -> let z = k + y; let k = z * 10; k + 1)(1)",
		"let k = a * 2; func f(y) let z = k + y; let k = z * 10; k + 1; f(1) + k",
		"let k = a * 2; (y -> (u -> let z = k + u; let k = z * 10; k + y)(2))(1)",
		"let k = a; l.map(e -> let z = k + e; let k = z * 2; k).sum() + k",
		"(k -> (y -> let z = k + y; let k = z + 1; k * 2)(k))(a)",
		"let k = a; let f = (y -> k + y); let g = (k -> f(k) * 2); g(5) + f(1)",
	)
	// deferred iteration: a lazy list is created, further locals are bound (the stack grows), the list is iterated
	// for the first time, then the locals are read: a stage must run its callbacks on the stack of the iteration
	for _, st := range []string{".map(e -> e + 1)", ".accept(e -> e % 2 = 0)", ".combine((x, y) -> x + y)", ".combine3((x, y, z) -> x + y - z)", ".combineN(2, w -> w.sum())",
		".number((i, e) -> i * e)", ".iir(e -> e, (e, p) -> e + p)", ".iirCombine(e -> e, (u, e, p) -> e - u + p)", ".compact((x, y) -> x = y)", ".merge([2, 4, 8], (x, y) -> x < y)",
		".cross([1, 2], (x, y) -> x * y)", ".movingWindow(e -> e).map(w -> w.size())", ".order(e -> 0 - e)", ".orderLess((x, y) -> x > y)", ".replaceList(q -> q.map(e -> e + 1))"} {
		for _, recv := range []string{"l", "[1, 1, 2, 3, 3, a]", "l.append(a)"} {
			for _, form := range []string{
				"let d0 = @L; let x0 = a + 1; let y0 = x0 * 2; let u0 = d0.string(); [u0, y0, x0].string()",
				"let d0 = @L; max(a + 1, a + 2, let u0 = d0.string().len(); u0, a + 3)",
				"(v0 -> let d0 = @L; let x0 = v0 + 1; let y0 = x0 * 2; [d0.string(), y0, x0].string())(a)",
				"let d0 = @L; let f0 = (p0, q0, r0) -> [d0.string(), p0, q0, r0].string(); f0(a + 1, a + 2, a + 3)",
			} {
				res = append(res, strings.ReplaceAll(form, "@L", recv+st))
			}
		}
	}
	// numbers by kind and value through the built-ins a program combines them with (ties between an int and a float of the
	// same value, results at the int/float border, documented special arguments)
	for _, src := range []string{"[2, 2.0].max()", "[2.0, 2].max()", "[2, 2.0].min()", "[2.0, 2, 1.0, 1].min()", "[a, a * 1.0, a + 0].max()", "[1, 2.0, 3].sum()", "[1, 2, 3].sum()", "[1.0, 2, 3].reduce((p, q) -> p + q)",
		"[3, 1.0, 2].order(e -> e).string()", "[2, 2.0, 1].minMax(e -> e).max", "max(a, a * 1.0)", "max(a * 1.0, a)", "min(2, 2.0, 1.0, 1)", "abs(0 - a) + abs(0.0 - a)", "[1, 2].map(e -> e / 1).string()", "(a + 1) / 2", "(a + 1.0) * 2",
		"7 / 2", "8 / 2", "2 ^ 3", "2 ^ 0.5 * 2 ^ 0.5", "int(2.0) + int(a)", "float(a) + 1", "[1, 2, 3].mean()", "[a, a].mean()", "\"key:value\".cut(4, 0 - 1)", "\"key:value\".cut(4, 0)", "\"key:value\".cut(0, 3)", "\"key:value\".cut(20, 1)",
		"\"abc\".cut(1, 100)", "[1, 2, 3].top(0 - 1).size()", "[1, 2, 3].skip(0 - 1).size()", "numbers(0).size() + numbers(0 - 3).size()", "[2.5, 1].sum() = 3.5", "[1, 1.0] = [1.0, 1]", "{k: 1} = {k: 1.0}", "1 = 1.0", "(1 + a) = (1.0 + a)",
		"[1, 2.0, \"3\"].map(e -> e.string()).string()", "1.0.string() + 2.string() + (0.1 + 0.2).string()"} {
		res = append(res, src)
	}
	// nested forcing: a lazy list is forced from inside a closure of another lazy list that is being forced, behind a
	// let of that closure (whatever the forcing operation needs, e.g. a scratch stack, must not be the one in use)
	inners := []string{".number((i, e) -> i + e)", ".combine((p, q) -> p + q)", ".iir(e -> e, (e, p) -> e + p)", ".map(e -> e + 1)", ".accept(e -> e > 0)", ".compact((p, q) -> p = q)", ".cross([1, 2], (p, q) -> p * q)"}
	outers2 := []string{".number((j, x) -> let t = x + a; @I + t)", ".combine((u, v) -> let t = u + a; @I + t + v)", ".iir(x -> let t = x + a; @I + t, (x, p) -> let t = x + p; @I + t)",
		".map(x -> let t = x + a; @I + t)", ".mapReduce(0, (s1, x) -> let t = x + s1; @I + t)"}
	forces := []string{"[0]", ".size()", ".first()", ".sum()", ".eval().size()", ".reverse().first()", ".top(2).sum()", ".last()"}
	for _, in := range inners {
		for _, out := range outers2 {
			for fi, f := range forces {
				f2 := forces[(fi+3)%len(forces)]
				if strings.Contains(out, "mapReduce") {
					f2 = " + 0"
				}
				res = append(res, "let inner = [1, 2, 3, a + 4]"+in+"; let outer = [1, 2, 3]"+strings.ReplaceAll(out, "@I", "inner"+f)+"; outer"+f2,
					"let inner = l.append(a)"+in+"; let outer = [1, 2, 3]"+strings.ReplaceAll(out, "@I", "inner[0]")+"; outer"+f)
			}
		}
	}
	// shadowing sweep: a name bound outside (let, closure parameter, func parameter, the argument itself), captured
	// by a closure/func that binds it again (let after a use, parameter, let defined from the outer value), and used
	// below that binding directly or from closures nested there (which capture the NEW binding)
	outers := []string{"let k = a + 1; @B", "(k -> @B)(a + 1)", "func o(k) @B; o(a + 1)", "@B"}
	middles := []string{
		"(y -> let z = k + y; let k = z * 10; @U)(1)",
		"(y -> (k -> @U)(k + y))(1)",
		"(y -> let k = k * 10 + y; @U)(2)",
		"func f(y) let k = k + y; @U; f(3)",
		"[1, 2].map(y -> let k = k + y; @U).sum()",
		"{g: y -> let k = k * 2 + y; @U}.g(4)",
	}
	useAt := []string{"k + 1", "(w -> k + w)(1)", "[1, 2].map(e -> k + e).sum()", "{f: w -> k + w}.f(1)", "let g = w -> k + w; g(1) + g(2)",
		"func h(w) if w = 0 then k else h(w - 1) + k; h(2)", "(w -> (v -> k + v + w)(1))(2)", "(try [1][k + 100] catch k + 1)", "(w -> k + w)"}
	for oi, o := range outers {
		for _, m := range middles {
			for _, u := range useAt {
				src := strings.ReplaceAll(strings.ReplaceAll(o, "@B", m), "@U", u)
				if u == "(w -> k + w)" { // the closure leaves the scope in which the name was bound again
					if strings.Contains(m, ".map(") {
						continue
					}
					src = strings.ReplaceAll(strings.ReplaceAll(o, "@B", "let r = "+strings.ReplaceAll(m, "@U", u)+"; r(5)"), "@U", u)
					if strings.HasPrefix(m, "func f") {
						src = strings.ReplaceAll(o, "@B", "func f(y) let k = k + y; (w -> k + w); f(3)(5)")
					}
				}
				if oi == 3 {
					src = strings.ReplaceAll(src, "k", "a")
					src = strings.ReplaceAll(src, "traa", "try") // keep keywords intact
				}
				res = append(res, src)
			}
		}
	}
	// long runs: a closure called 12000 times by ONE built-in. The Go loops of the list methods keep one value stack across
	// all callbacks of an operation; a slot that is not popped per callback (round-5 seed C01-13: CreateFrame without the pop)
	// only exhausts the 10000-slot stack on a long list, every short program behaves as before.
	res = append(res,
		"numbers(12000).reduce((x, y) -> x + y + a)", "numbers(12000).map(e -> e + a).sum()", "numbers(12000).mapReduce(0, (s1, e1) -> s1 + e1 * a)",
		"numbers(12000).iir(e -> e, (e, p) -> e + a).last()", "numbers(12000).combine((x, y) -> y - x + a).sum()", "numbers(12000).number((i, e) -> i - e + a).sum()",
		"numbers(12000).orderLess((x, y) -> x > y).first() + a", "numbers(12000).order(e -> 0 - e).first() + a", "numbers(12000).accept(e -> e % 2 = a % 2).size()",
		"numbers(12000).indexWhere(e -> e > 11990 + a % 2)", "let f = (x, y) -> x + y; numbers(12000).reduce(f) + a", "numbers(12000).visit(0, (v, e) -> v + 1 + a)",
		"numbers(12000).minMax(e -> e + a).max", "let g = q -> q.reduce((x, y) -> x + y); g(numbers(12000)) + g(numbers(3)) + a",
		"numbers(12000).combine3((x, y, z) -> z - x + a).sum()", "numbers(12000).compact((x, y) -> x = y + a).size()", "numbers(12000).present(e -> e > 11990 + a)")
	return res
}

func c01Args(c *Ctx, i int) ([]string, []value.Value) {
	names := []string{"a", "l", "m", "s", "t"}
	as := []int64{3, 0, -2, 1, 7}
	ls := [][]int64{{1, 2, 3}, {}, {5}, {4, 3, 2, 1, 0}, {2, 2}}
	a := as[i%len(as)]
	lv := ls[(i/2)%len(ls)]
	items := make([]value.Value, len(lv))
	for j, x := range lv {
		items[j] = value.Int(x)
	}
	var l value.Value = value.NewList(items...)
	if i%3 == 1 {
		l = lazyList(items, false)
	}
	m := buildMap([]string{"x", "y"}, []value.Value{value.Int(a + 1), value.Int(10)}, []int{0, 1, 2, 5}[i%4]) // no hash-map representation: its order is unspecified
	return names, []value.Value{value.Int(a), l, m, value.String([]string{"hi", "", "é"}[i%3]), value.Bool(i%2 == 0)}
}

func c01Scope() []pbind {
	return []pbind{{"a", pInt}, {"l", pList}, {"m", pMap}, {"s", pStr}, {"t", pBool}}
}

func classifyC01(cs *langCase) string {
	if strings.Contains(cs.ast, "NONE") {
		return "x"
	}
	return "compiled-differs-from-reference"
}

func evalRequest(variant string, fuel int, cs *langCase) string {
	var nb, ab strings.Builder
	for i, n := range cs.names {
		if i > 0 {
			nb.WriteByte(' ')
			ab.WriteByte(' ')
		}
		nb.WriteString(cps(n))
		argTokens(cs.args[i], &ab)
	}
	return fmt.Sprintf("EVAL\t%s\t%d\t%s\t%s\t%s", variant, fuel, nb.String(), ab.String(), cs.ast)
}

// runLangCases evaluates the cases on the implementation and on the model and applies verdict.
func runLangCases(c *Ctx, cases []*langCase, fuel int, verdict func(cs *langCase, modelCompiled, modelRef string)) {
	fgOff := newValueFG(false)
	fgOn := newValueFG(true)
	var reqs []string
	var kept []*langCase
	for _, cs := range cases {
		ast, err := parseUnoptimized(fgOff, cs.src, cs.names)
		if err != nil {
			// not a valid program: both real generators must reject it too
			c.Count("parse-error")
			if os.Getenv("VERIF_DEBUG") != "" {
				fmt.Fprintln(os.Stderr, "PARSE-ERROR:", cs.src, "::", err)
			}
			off := evalOutcome(fgOff, cs.src, cs.names, cs.args)
			if off != "GENERR" {
				c.Violation("parse-error-but-generated", "CreateAst failed but Generate succeeded", map[string]any{"program": cs.src})
			}
			c.Case(cs.src, false)
			continue
		}
		var d astDump
		d.dump(ast, 0)
		cs.ast = d.b.String()
		cs.unmodel = d.unmodelled
		cs.bindInArg = d.bindingInArg
		cs.nontriv = d.closures > 0 || strings.Contains(cs.ast, "let ") || strings.Contains(cs.ast, "if ") || strings.Contains(cs.ast, "sw ") || strings.Contains(cs.ast, "try ")
		cs.implOff = evalOutcome(fgOff, cs.src, cs.names, cs.args)
		cs.implOn = evalOutcome(fgOn, cs.src, cs.names, cs.args)
		c.Count(fmt.Sprintf("astDepth=%d", min(d.depth/4*4, 40)))
		c.Count(fmt.Sprintf("bindingInArg=%d", min(d.bindingInArg, 5)))
		c.Count("implOff=" + strings.SplitN(cs.implOff, " ", 2)[0])
		if cs.unmodel != "" {
			c.Count("unmodelled-ast")
			c.Case(cs.src, false)
			continue
		}
		reqs = append(reqs, evalRequest("fixed", fuel, cs))
		kept = append(kept, cs)
	}
	resp := c.Model(reqs)
	for i, r := range resp {
		cs := kept[i]
		f := strings.Split(r, "\t")
		if len(f) != 2 {
			c.Broken("corr:EVAL", "model driver rejected the request: "+r, map[string]any{"program": cs.src, "request": reqs[i]})
			continue
		}
		c.Case(cs.src+"|"+reqs[i], cs.nontriv)
		c.Count("modelRef=" + strings.SplitN(f[1], " ", 2)[0])
		verdict(cs, f[0], f[1])
	}
}

func runC01(c *Ctx) {
	c.rule = "type-directed random programs over the modelled fragment (operators, unary, let, func incl. recursion, closures with 1-2 parameters, currying, closures stored in maps and returned from closures, if/switch/try-catch, list/map literals, index, member access, static and dynamic calls, method calls incl. higher-order list/map methods, map-field closures) with a 35% knob placing statement forms inside call/method arguments, binder names that shadow outer binders and static functions; x argument tuples (ints, lists eager/lazy, maps in 6 representations, strings, bools); each program: real Generate+Eval with optimizer off and on vs. the Lean model's compiled semantics vs. the Lean reference semantics; non-trivial = distinct (program, arguments) whose AST contains a closure or a let/if/switch/try"
	c.assume = append(c.assume,
		"error message texts are not compared (catch handlers ignore their argument); float formatting, math.Pow and out-of-range float->int are outside the model (answer UNMODELLED, counted, not compared)",
		"built-in callbacks are modelled as running on a fresh stack (Go runs most of them above the caller's live frame of the same storage)")
	n := c.Pick(2500, 60000)
	maxDepth := c.Pick(6, 8)
	fuel := 4000

	var cases []*langCase
	add := func(src string, k int) {
		for j := 0; j < k; j++ {
			names, args := c01Args(c, len(cases)+j)
			cases = append(cases, &langCase{src: src, names: names, args: args})
		}
	}
	if rp := os.Getenv("VERIF_REPLAY"); rp != "" {
		if src := replayProgram(rp); src != "" {
			add(src, 5)
		}
	}
	for _, src := range c01Corpus {
		add(src, 3)
	}
	sweep := c01Sweep()
	for _, src := range sweep {
		add(src, 2)
	}
	c.extra["position_sweep_programs"] = len(sweep)
	for i := 0; i < n; i++ {
		g := newProgGen(c.rng)
		g.enterBody("a", "l", "m", "s", "t")
		t := []pty{pInt, pInt, pInt, pStr, pBool, pList, pMap, pFloat}[c.rng.Intn(8)]
		src := g.stmt(t, 2+c.rng.Intn(maxDepth-1), c01Scope())
		for k, v := range g.features {
			if v > 0 {
				c.Count("gen:" + k)
			}
		}
		add(src, 2)
	}

	// the text passed to throw reaches the catch handler (the one part of an error message the property compares): every
	// context a thrown error travels through, optimizer off and on (the optimizer rebuilds nodes on the way)
	{
		thrower := "(if a > 9999 then 1 else throw(\"MARK\" + a))"
		ctxs := []string{"@", "(@ * 2) * 3", "2 * @ * 3", "(2 * @) * 3", "@ + 1 + 2", "1 + @ + 2", "(1 + @) + 2", "[@][0]", "max(1, @)", "(y -> @ + y)(1)", "[1, 2].map(e -> @ + e).sum()", "{k: @}.k",
			"if @ > 0 then 1 else 2", "l.mapReduce(0, (s1, e1) -> s1 + @)", "let q = @; q + 1", "func g(n) @ + n; g(1)", "[1, 2].accept(e -> @ > e).size()", "[3, 1].order(e -> @ + e).first()",
			"m.put(\"z\", @).z", "0 - @", "(@ = 1) = true", "[1].reduce((p, q) -> p) + [@, 2].reduce((p, q) -> p + q)", "{f: w -> @ + w}.f(1)", "try @ catch e2 -> throw(e2)", "switch @ case 1 : 1 default 2"}
		fgs := map[string]*value.FunctionGenerator{"optimizer off": newValueFG(false), "optimizer on": newValueFG(true)}
		names, args := c01Args(c, 0)
		for _, cx := range ctxs {
			src := "try " + strings.ReplaceAll(cx, "@", thrower) + " catch e9 -> (\"MARK\" ~ e9)"
			for mode, fg := range fgs {
				out := evalOutcome(fg, src, names, args)
				c.Case("throw-text|"+mode+"|"+src, true)
				c.Count("throw-text:" + strings.SplitN(out, " ", 2)[0])
				if out != "OK b1" {
					c.Violation("thrown-text-lost", "the text passed to throw does not reach the catch handler ("+mode+")", map[string]any{"program": src, "outcome": out, "mode": mode})
				}
			}
		}
	}
	// number literals denote their decimal value: an int if it fits, a float otherwise (leading zeros do not change the base)
	{
		fgN := newValueFG(true)
		lits := []string{"0", "00", "7", "007", "010", "0100", "08", "09", "0123", "1", "10", "99", "123456789012345678", "9223372036854775807", "9223372036854775808", "18446744073709551616", "0.5", "00.5",
			"1.5", "010.5", "1.0", "2.50", "1e3", "1e-3", "1.5e+3", "1.5e3", "0e0", "1e0", "12e2", "0.001", "100.000", "3.14159", "1e10", "1e18", "1e19", "2e308"}
		for _, l := range lits {
			var want string
			allDigits := strings.Trim(l, "0123456789") == ""
			if i, err := strconv.ParseInt(l, 10, 64); allDigits && err == nil {
				want, _ = canonValue(value.Int(i))
			} else if f, err := strconv.ParseFloat(l, 64); err == nil || allDigits {
				want, _ = canonValue(value.Float(f))
			} else {
				want = "?"
			}
			for _, form := range []string{"%s", "a + %s - a", "[%s][0]"} {
				src := fmt.Sprintf(form, l)
				got := evalOutcome(fgN, src, []string{"a"}, []value.Value{value.Int(0)})
				c.Case("number-literal|"+src, true)
				c.Count("number-literal")
				// a literal the language does not accept at all (an exponent form it does not know, an overflowing float) is not a verdict
				if got == "GENERR" || got == "ERR" || want == "?" {
					c.Count("number-literal:not-accepted")
					continue
				}
				if form == "%s" && got != "OK "+want {
					c.Violation("number-literal-value", fmt.Sprintf("the literal %s denotes %s, its decimal value is %s", l, got, want), map[string]any{"program": src, "outcome": got, "decimal_value": want})
				}
			}
		}
	}
	var specFallback []*langCase
	defer func() {
		var reqs []string
		for _, cs := range specFallback {
			var nb, ab strings.Builder
			for i, n := range cs.names {
				if i > 0 {
					nb.WriteByte(' ')
					ab.WriteByte(' ')
				}
				nb.WriteString(cps(n))
				argTokens(cs.args[i], &ab)
			}
			reqs = append(reqs, fmt.Sprintf("SPEC\t%d\t%s\t%s\t%s", fuel, nb.String(), ab.String(), cs.ast))
		}
		for i, mo := range c.Model(reqs) {
			cs := specFallback[i]
			c.Count("spec-fallback:" + strings.SplitN(mo, " ", 2)[0])
			if mo == "BADREQ" || mo == "UNMODELLED" || mo == "FUEL" {
				continue
			}
			replay := map[string]any{"program": cs.src, "arg_names": cs.names, "request": reqs[i], "impl_optimizer_off": cs.implOff, "impl_optimizer_on": cs.implOn, "library_spec": mo}
			if cs.implOff != mo {
				c.disagree++
				c.Violation(c01Signature(cs), "Generate+Eval (optimizer off) differs from the reference semantics over the eager library specification", replay)
			} else if cs.implOn != mo {
				c.disagree++
				c.Violation("optimized-differs-from-reference", "Generate+Eval (optimizer on) differs from the reference semantics over the eager library specification", replay)
			}
		}
	}()
	runLangCases(c, cases, fuel, func(cs *langCase, mc, mr string) {
		if len(c.samples) < 5 && cs.bindInArg > 0 {
			c.Sample(map[string]any{"program": cs.src, "impl": cs.implOff, "model_compiled": mc, "model_reference": mr})
		}
		if strings.HasPrefix(cs.implOff, "PANIC") || strings.HasPrefix(cs.implOn, "PANIC") {
			c.Violation("panic-escaped-eval", "a Go panic escaped Func.Eval", map[string]any{"program": cs.src, "impl": cs.implOff})
			return
		}
		if mr == "UNMODELLED" {
			// a built-in outside the compiled model's library: the eager library specification (C07) with the
			// reference semantics for everything else decides
			specFallback = append(specFallback, cs)
			return
		}
		if mr == "FUEL" || mc == "FUEL" || mc == "UNMODELLED" {
			c.Count("skipped:" + mr + "/" + mc)
			return
		}
		replay := map[string]any{"program": cs.src, "arg_names": cs.names, "request": evalRequest("fixed", 4000, cs),
			"impl_optimizer_off": cs.implOff, "impl_optimizer_on": cs.implOn, "model_compiled": mc, "model_reference": mr}
		// the property: implementation outcome = reference semantics
		if cs.implOff != mr {
			c.disagree++
			c.Violation(c01Signature(cs), "Generate+Eval (optimizer off) differs from the lexically scoped reference semantics", replay)
			return
		}
		if cs.implOn != mr {
			c.disagree++
			c.Violation("optimized-differs-from-reference", "Generate+Eval (optimizer on) differs from the reference semantics", replay)
			return
		}
		// correspondence of the compiled model
		if mc != cs.implOff {
			c.disagree++
			c.Broken("corr:EVAL", "the model's compiled semantics differs from the implementation although the property holds on this case", replay)
		}
	})
}

// c01Signature classifies a failing program by shape (used to match known findings).
func c01Signature(cs *langCase) string {
	switch {
	case cs.bindInArg > 0:
		return "binding-construct-in-pushed-argument"
	default:
		return "compiled-differs-from-reference"
	}
}

func replayProgram(path string) string {
	data, err := os.ReadFile(path)
	if err != nil {
		return ""
	}
	// tolerate both a replay json and a plain program text
	s := string(data)
	if i := strings.Index(s, `"program": "`); i >= 0 {
		rest := s[i+len(`"program": "`):]
		var b strings.Builder
		for j := 0; j < len(rest); j++ {
			if rest[j] == '\\' && j+1 < len(rest) {
				j++
				switch rest[j] {
				case 'n':
					b.WriteByte('\n')
				case 't':
					b.WriteByte('\t')
				case 'u':
					if j+4 < len(rest) {
						var r rune
						fmt.Sscanf(rest[j+1:j+5], "%04x", &r)
						b.WriteRune(r)
						j += 4
					}
				default:
					b.WriteByte(rest[j])
				}
				continue
			}
			if rest[j] == '"' {
				break
			}
			b.WriteByte(rest[j])
		}
		return b.String()
	}
	return strings.TrimSpace(s)
}
