package main

// C03 — operator priority, associativity and grouping for any operator table.
// Part 1 of the harness: token / tree types, dump format (= showE of lean/P2/Driver/Parse.lean),
// operator tables, the Go port of the reference renderer (lean/P2/Spec/Render.lean), AST dump.

import (
	"bufio"
	"bytes"
	"context"
	"encoding/hex"
	"encoding/json"
	"fmt"
	"github.com/hneemann/parser2/funcGen"
	"math/rand"
	"os"
	"os/exec"
	"sort"
	"strconv"
	"strings"
	"time"

	"github.com/hneemann/parser2"
)

// ---- tokens ---------------------------------------------------------------------------------

// c3Tok mirrors P2.Parse.Tok. K: 'i' ident, 'k' keyword, 'n' number, 's' string, 'o' operator,
// 'x' invalid, or the punctuation character itself ( ) [ ] { } . , : ;
type c3Tok struct {
	K byte
	S string
}

func (t c3Tok) isPunct() bool { return strings.IndexByte("()[]{}.,:;", t.K) >= 0 }

func (t c3Tok) model() string {
	if t.isPunct() {
		return string(t.K)
	}
	return string(t.K) + ":" + cps(t.S)
}

func c3ToksModel(ts []c3Tok) string {
	parts := make([]string, len(ts))
	for i, t := range ts {
		parts[i] = t.model()
	}
	return strings.Join(parts, " ")
}

func c3ToksEq(a, b []c3Tok) bool {
	if len(a) != len(b) {
		return false
	}
	for i := range a {
		if a[i] != b[i] {
			return false
		}
	}
	return true
}

var c3KindOfName = map[string]byte{"ident": 'i', "keyword": 'k', "open": '(', "close": ')', "openBracket": '[',
	"closeBracket": ']', "openCurly": '{', "closeCurly": '}', "dot": '.', "comma": ',', "colon": ':',
	"semicolon": ';', "number": 'n', "string": 's', "operate": 'o', "invalid": 'x'}

// c3FromVerif maps the real token stream to c3Tok.
func c3FromVerif(vs []parser2.VerifToken) []c3Tok {
	res := make([]c3Tok, 0, len(vs))
	for _, v := range vs {
		name := "?"
		if v.Kind >= 0 && v.Kind < len(parser2.VerifTokenKinds) {
			name = parser2.VerifTokenKinds[v.Kind]
		}
		k, ok := c3KindOfName[name]
		if !ok {
			res = append(res, c3Tok{'x', "?kind:" + name})
			continue
		}
		if strings.IndexByte("()[]{}.,:;", k) >= 0 {
			res = append(res, c3Tok{K: k})
		} else {
			res = append(res, c3Tok{k, v.Image})
		}
	}
	return res
}

// ---- trees ----------------------------------------------------------------------------------

// c3E mirrors P2.Parse.E. Children are stored in the order of the decoration indices of the Lean
// renderer: bin [a b], un [a], call [f args…], idx [l i], mem [m] (S = key), meth [m args…] (S = name),
// let [v inner] (S = name), func [body inner] (S = name, Names = parameters), clo [body] (Names),
// list items, map values (Names = keys), if [c a b], try [a c], sw [v default c1 v1 c2 v2 …].
type c3E struct {
	K     string
	S     string
	Names []string
	Ch    []*c3E
}

func c3Id(s string) *c3E             { return &c3E{K: "id", S: s} }
func c3Num(s string) *c3E            { return &c3E{K: "num", S: s} }
func c3Str(s string) *c3E            { return &c3E{K: "str", S: s} }
func c3Cst(s string) *c3E            { return &c3E{K: "cst", S: s} }
func c3Bin(o string, a, b *c3E) *c3E { return &c3E{K: "bin", S: o, Ch: []*c3E{a, b}} }
func c3Un(o string, a *c3E) *c3E     { return &c3E{K: "un", S: o, Ch: []*c3E{a}} }
func c3Call(f *c3E, args ...*c3E) *c3E {
	return &c3E{K: "call", Ch: append([]*c3E{f}, args...)}
}
func c3Idx(l, i *c3E) *c3E          { return &c3E{K: "idx", Ch: []*c3E{l, i}} }
func c3Mem(m *c3E, key string) *c3E { return &c3E{K: "mem", S: key, Ch: []*c3E{m}} }
func c3Meth(m *c3E, name string, args ...*c3E) *c3E {
	return &c3E{K: "meth", S: name, Ch: append([]*c3E{m}, args...)}
}
func c3Let(name string, v, inner *c3E) *c3E { return &c3E{K: "let", S: name, Ch: []*c3E{v, inner}} }
func c3Func(name string, names []string, body, inner *c3E) *c3E {
	return &c3E{K: "func", S: name, Names: names, Ch: []*c3E{body, inner}}
}
func c3Clo(names []string, body *c3E) *c3E { return &c3E{K: "clo", Names: names, Ch: []*c3E{body}} }
func c3List(items ...*c3E) *c3E            { return &c3E{K: "list", Ch: items} }
func c3Map(keys []string, vals ...*c3E) *c3E {
	return &c3E{K: "map", Names: keys, Ch: vals}
}
func c3If(c, a, b *c3E) *c3E { return &c3E{K: "if", Ch: []*c3E{c, a, b}} }
func c3Try(a, c *c3E) *c3E   { return &c3E{K: "try", Ch: []*c3E{a, c}} }

// c3Sw: cases = c1 v1 c2 v2 …
func c3Sw(v *c3E, dflt *c3E, cases ...*c3E) *c3E {
	return &c3E{K: "sw", Ch: append([]*c3E{v, dflt}, cases...)}
}

func (e *c3E) isConst() bool { return e.K == "num" || e.K == "str" || e.K == "cst" }
func (e *c3E) isLet() bool   { return e.K == "let" || e.K == "func" }

func (e *c3E) depth() int {
	d := 0
	for _, c := range e.Ch {
		if x := c.depth(); x > d {
			d = x
		}
	}
	return d + 1
}

func (e *c3E) size() int {
	n := 1
	for _, c := range e.Ch {
		n += c.size()
	}
	return n
}

// dumpTo writes the prefix format of showE.
func (e *c3E) dumpTo(out *[]string) {
	w := func(s ...string) { *out = append(*out, s...) }
	switch e.K {
	case "id", "num", "str", "cst":
		w(e.K, cps(e.S))
	case "bin":
		w("bin", cps(e.S))
		e.Ch[0].dumpTo(out)
		e.Ch[1].dumpTo(out)
	case "un":
		w("un", cps(e.S))
		e.Ch[0].dumpTo(out)
	case "call":
		w("call")
		e.Ch[0].dumpTo(out)
		w(itoa(len(e.Ch) - 1))
		for _, a := range e.Ch[1:] {
			a.dumpTo(out)
		}
	case "idx":
		w("idx")
		e.Ch[0].dumpTo(out)
		e.Ch[1].dumpTo(out)
	case "mem":
		w("mem")
		e.Ch[0].dumpTo(out)
		w(cps(e.S))
	case "meth":
		w("meth")
		e.Ch[0].dumpTo(out)
		w(cps(e.S), itoa(len(e.Ch)-1))
		for _, a := range e.Ch[1:] {
			a.dumpTo(out)
		}
	case "let":
		w("let", cps(e.S))
		e.Ch[0].dumpTo(out)
		e.Ch[1].dumpTo(out)
	case "func":
		w("func", cps(e.S), itoa(len(e.Names)))
		for _, n := range e.Names {
			w(cps(n))
		}
		e.Ch[0].dumpTo(out)
		e.Ch[1].dumpTo(out)
	case "clo":
		w("clo", itoa(len(e.Names)))
		for _, n := range e.Names {
			w(cps(n))
		}
		e.Ch[0].dumpTo(out)
	case "list":
		w("list", itoa(len(e.Ch)))
		for _, a := range e.Ch {
			a.dumpTo(out)
		}
	case "map":
		w("map", itoa(len(e.Ch)))
		for i, a := range e.Ch {
			w(cps(e.Names[i]))
			a.dumpTo(out)
		}
	case "if":
		w("if")
		e.Ch[0].dumpTo(out)
		e.Ch[1].dumpTo(out)
		e.Ch[2].dumpTo(out)
	case "try":
		w("try")
		e.Ch[0].dumpTo(out)
		e.Ch[1].dumpTo(out)
	case "sw":
		w("sw")
		e.Ch[0].dumpTo(out)
		w(itoa((len(e.Ch) - 2) / 2))
		for _, a := range e.Ch[2:] {
			a.dumpTo(out)
		}
		e.Ch[1].dumpTo(out)
	default:
		w("?" + e.K)
	}
}

func (e *c3E) dump() string {
	var out []string
	e.dumpTo(&out)
	return strings.Join(out, " ")
}

// c3ReadE parses the prefix dump format back into a tree.
func c3ReadE(w []string) (*c3E, []string, bool) {
	if len(w) == 0 {
		return nil, nil, false
	}
	k := w[0]
	w = w[1:]
	str := func() (string, bool) {
		if len(w) == 0 {
			return "", false
		}
		s := fromCps(w[0])
		w = w[1:]
		return s, s != "\x00BAD"
	}
	num := func() (int, bool) {
		if len(w) == 0 {
			return 0, false
		}
		n, err := strconv.Atoi(w[0])
		w = w[1:]
		return n, err == nil && n >= 0
	}
	sub := func() (*c3E, bool) {
		e, r, ok := c3ReadE(w)
		w = r
		return e, ok
	}
	subs := func(e *c3E, n int) bool {
		for i := 0; i < n; i++ {
			a, ok := sub()
			if !ok {
				return false
			}
			e.Ch = append(e.Ch, a)
		}
		return true
	}
	names := func(e *c3E, n int) bool {
		for i := 0; i < n; i++ {
			s, ok := str()
			if !ok {
				return false
			}
			e.Names = append(e.Names, s)
		}
		return true
	}
	e := &c3E{K: k}
	var ok bool
	switch k {
	case "id", "num", "str", "cst":
		e.S, ok = str()
		return e, w, ok
	case "bin":
		if e.S, ok = str(); !ok {
			return nil, nil, false
		}
		return e, w, subs(e, 2) && true
	case "un":
		if e.S, ok = str(); !ok {
			return nil, nil, false
		}
		ok = subs(e, 1)
		return e, w, ok
	case "call":
		if !subs(e, 1) {
			return nil, nil, false
		}
		n, ok := num()
		if !ok || !subs(e, n) {
			return nil, nil, false
		}
		return e, w, true
	case "idx":
		ok = subs(e, 2)
		return e, w, ok
	case "mem":
		if !subs(e, 1) {
			return nil, nil, false
		}
		e.S, ok = str()
		return e, w, ok
	case "meth":
		if !subs(e, 1) {
			return nil, nil, false
		}
		if e.S, ok = str(); !ok {
			return nil, nil, false
		}
		n, ok := num()
		if !ok || !subs(e, n) {
			return nil, nil, false
		}
		return e, w, true
	case "let":
		if e.S, ok = str(); !ok {
			return nil, nil, false
		}
		ok = subs(e, 2)
		return e, w, ok
	case "func":
		if e.S, ok = str(); !ok {
			return nil, nil, false
		}
		n, ok := num()
		if !ok || !names(e, n) || !subs(e, 2) {
			return nil, nil, false
		}
		return e, w, true
	case "clo":
		n, ok := num()
		if !ok || !names(e, n) || !subs(e, 1) {
			return nil, nil, false
		}
		return e, w, true
	case "list":
		n, ok := num()
		if !ok || !subs(e, n) {
			return nil, nil, false
		}
		return e, w, true
	case "map":
		n, ok := num()
		if !ok {
			return nil, nil, false
		}
		for i := 0; i < n; i++ {
			if !names(e, 1) || !subs(e, 1) {
				return nil, nil, false
			}
		}
		return e, w, true
	case "if":
		ok = subs(e, 3)
		return e, w, ok
	case "try":
		ok = subs(e, 2)
		return e, w, ok
	case "sw":
		if !subs(e, 1) {
			return nil, nil, false
		}
		n, ok := num()
		if !ok {
			return nil, nil, false
		}
		var cases []*c3E
		for i := 0; i < 2*n; i++ {
			a, ok := sub()
			if !ok {
				return nil, nil, false
			}
			cases = append(cases, a)
		}
		if !subs(e, 1) {
			return nil, nil, false
		}
		e.Ch = append(e.Ch, cases...)
		return e, w, true
	}
	return nil, nil, false
}

func c3ParseDump(s string) (*c3E, bool) {
	e, rest, ok := c3ReadE(strings.Fields(s))
	if !ok || len(rest) != 0 {
		return nil, false
	}
	return e, true
}

// ---- operator tables ------------------------------------------------------------------------

type c3Table struct {
	Ops     []string
	Unary   []string
	Aliases map[string]string // text alias -> operator
	aliasOf map[string][]string
	// Route: the order of the declaring calls (the resulting tables are the same): 0 = Op(all), Unary(all);
	// 1 = Unary(all) first; 2 = Op(first half), Unary(all), Op(rest); 3 = one call per operator, Unary calls in between
	Route int
}

func (t *c3Table) n() int { return len(t.Ops) }

// pos = index of the last occurrence (posOf of the model); -1 if not a binary operator
func (t *c3Table) pos(o string) int {
	for i := len(t.Ops) - 1; i >= 0; i-- {
		if t.Ops[i] == o {
			return i
		}
	}
	return -1
}

func (t *c3Table) lvl(o string) int {
	if p := t.pos(o); p >= 0 {
		return p
	}
	return 0
}

func (t *c3Table) isUnary(o string) bool {
	for _, u := range t.Unary {
		if u == o {
			return true
		}
	}
	return false
}

func (t *c3Table) unaryIsLast() bool {
	return len(t.Ops) > 0 && t.isUnary(t.Ops[len(t.Ops)-1])
}

func (t *c3Table) unaryClass() string {
	if t.unaryIsLast() {
		return "last"
	}
	for _, u := range t.Unary {
		if t.pos(u) >= 0 {
			return "inner"
		}
	}
	return "none"
}

func (t *c3Table) aliasKeys() []string {
	var ks []string
	for k := range t.Aliases {
		ks = append(ks, k)
	}
	sort.Strings(ks)
	return ks
}

func (t *c3Table) prepare() *c3Table {
	t.aliasOf = map[string][]string{}
	for _, k := range t.aliasKeys() {
		t.aliasOf[t.Aliases[k]] = append(t.aliasOf[t.Aliases[k]], k)
	}
	return t
}

func c3CpsList(l []string) string {
	p := make([]string, len(l))
	for i, s := range l {
		p[i] = cps(s)
	}
	return strings.Join(p, " ")
}

func (t *c3Table) opsField() string   { return c3CpsList(t.Ops) }
func (t *c3Table) unaryField() string { return c3CpsList(t.Unary) }
func (t *c3Table) aliasField() string {
	var p []string
	for _, k := range t.aliasKeys() {
		p = append(p, cps(k)+"="+cps(t.Aliases[k]))
	}
	return strings.Join(p, " ")
}

func (t *c3Table) key() string {
	return t.opsField() + "|" + t.unaryField() + "|" + t.aliasField()
}

var c3KeyWords = []string{"let", "func", "if", "then", "else", "switch", "case", "default", "try", "catch"}

// newParser: the configuration of the harness (no optimizer, comfort and comments off)
func (t *c3Table) newParser() *parser2.Parser[string] {
	p := parser2.NewParser[string]().
		SetNumberParser(parser2.NumberParserFunc[string](func(n string) (string, error) { return "N" + n, nil })).
		SetStringConverter(parser2.StringConverterFunc[string](func(s string) string { return "S" + s })).
		SetKeyWords(c3KeyWords...)
	ops := append([]string(nil), t.Ops...)
	switch {
	case t.Route == 1:
		if len(t.Unary) > 0 {
			p.Unary(t.Unary...)
		}
		if len(ops) > 0 {
			p.Op(ops...)
		}
	case t.Route == 2 && len(ops) > 1:
		p.Op(ops[:len(ops)/2]...)
		if len(t.Unary) > 0 {
			p.Unary(t.Unary...)
		}
		p.Op(ops[len(ops)/2:]...)
	case t.Route == 3:
		for i := 0; i < len(ops) || i < len(t.Unary); i++ {
			if i < len(t.Unary) {
				p.Unary(t.Unary[i])
			}
			if i < len(ops) {
				p.Op(ops[i])
			}
		}
	default:
		if len(ops) > 0 {
			p.Op(ops...)
		}
		if len(t.Unary) > 0 {
			p.Unary(t.Unary...)
		}
	}
	if len(t.Aliases) > 0 {
		m := map[string]string{}
		for k, v := range t.Aliases {
			m[k] = v
		}
		p.TextOperator(m)
	}
	return p
}

// identifier pool of the host (the same for every table)
var c3PoolVars = []string{"a", "b", "c", "x", "y", "z"}
var c3PoolFuncs = []string{"f", "g", "h"}
var c3PoolConsts = []string{"pi", "tau"}

type c3SE struct {
	name string
	kind byte // 'v' 'f' 'c'
}

// c3BaseScope in the order of adding (last = looked up first)
func c3BaseScope() []c3SE {
	var sc []c3SE
	for _, v := range c3PoolVars {
		sc = append(sc, c3SE{v, 'v'})
	}
	for _, v := range c3PoolFuncs {
		sc = append(sc, c3SE{v, 'f'})
	}
	for _, v := range c3PoolConsts {
		sc = append(sc, c3SE{v, 'c'})
	}
	return sc
}

func c3Idents() parser2.Identifiers[string] {
	var ids parser2.Identifiers[string]
	for _, e := range c3BaseScope() {
		switch e.kind {
		case 'v':
			ids = ids.Add(e.name)
		case 'f':
			ids = ids.AddFunc(e.name)
		case 'c':
			ids = ids.AddConst(e.name, "C"+e.name)
		}
	}
	return ids
}

// c3ScopeField: scope items in lookup order (last added first)
func c3ScopeField() string {
	sc := c3BaseScope()
	var p []string
	for i := len(sc) - 1; i >= 0; i-- {
		p = append(p, string(sc[i].kind)+":"+cps(sc[i].name))
	}
	return strings.Join(p, " ")
}

// ---- renderer (port of lean/P2/Spec/Render.lean) ----------------------------------------------

type c3Fol struct {
	kind byte // 0 none, 'o' op j, 'p' post, 'c' call
	j    int
}

var c3FolNone = c3Fol{}

// c3Deco: node ↦ (number of redundant parenthesis pairs, trailing comma). The trees of the harness
// never share nodes, so decorating nodes is the same as decorating paths.
type c3Deco func(e *c3E) (int, bool)

func c3DecoMin(*c3E) (int, bool)  { return 0, false }
func c3DecoFull(*c3E) (int, bool) { return 1, false }

type c3Renderer struct {
	t    *c3Table
	deco c3Deco
	out  []c3Tok
}

func (r *c3Renderer) needs(k int, f c3Fol, e *c3E) bool {
	t := r.t
	switch e.K {
	case "bin":
		if k0 := t.pos(e.S); k0 >= 0 {
			return k0 < k
		}
		return 0 < k
	case "un":
		if i := t.pos(e.S); i >= 0 {
			return t.n() < k || (f.kind == 'o' && i < f.j)
		}
		return t.n() < k
	case "if", "try", "sw", "clo":
		return f.kind != 0
	case "mem":
		return f.kind == 'c'
	}
	return false
}

func (r *c3Renderer) nPar(k int, f c3Fol, e *c3E) int {
	if e.isLet() {
		return 0
	}
	par, _ := r.deco(e)
	if par == 0 {
		if r.needs(k, f, e) {
			return 1
		}
		return 0
	}
	return par
}

func (r *c3Renderer) emit(k byte, s string) { r.out = append(r.out, c3Tok{k, s}) }
func (r *c3Renderer) p(k byte)              { r.out = append(r.out, c3Tok{K: k}) }

func (r *c3Renderer) render(k int, f c3Fol, e *c3E) {
	n := r.nPar(k, f, e)
	for i := 0; i < n; i++ {
		r.p('(')
	}
	if n == 0 {
		r.shape(f, e)
	} else {
		r.shape(c3FolNone, e)
	}
	for i := 0; i < n; i++ {
		r.p(')')
	}
}

func (r *c3Renderer) identList(names []string) {
	for i, n := range names {
		if i > 0 {
			r.p(',')
		}
		r.emit('i', n)
	}
}

func (r *c3Renderer) args(e *c3E, items []*c3E) {
	for i, a := range items {
		if i > 0 {
			r.p(',')
		}
		r.render(0, c3FolNone, a)
	}
	if _, trail := r.deco(e); trail && len(items) > 0 {
		r.p(',')
	}
}

func (r *c3Renderer) shape(f c3Fol, e *c3E) {
	t := r.t
	switch e.K {
	case "id", "cst":
		r.emit('i', e.S)
	case "num":
		r.emit('n', e.S)
	case "str":
		r.emit('s', e.S)
	case "bin":
		l := t.lvl(e.S)
		ka := l + 1
		if e.Ch[0].K == "bin" && e.Ch[0].S == e.S {
			ka = l
		}
		r.render(ka, c3Fol{'o', l}, e.Ch[0])
		r.emit('o', e.S)
		r.render(l+1, f, e.Ch[1])
	case "un":
		r.emit('o', e.S)
		if i := t.pos(e.S); i >= 0 {
			r.render(i+1, f, e.Ch[0])
		} else {
			r.render(t.n()+1, f, e.Ch[0])
		}
	case "call":
		r.render(t.n()+1, c3Fol{kind: 'c'}, e.Ch[0])
		r.p('(')
		r.args(e, e.Ch[1:])
		r.p(')')
	case "idx":
		r.render(t.n()+1, c3Fol{kind: 'p'}, e.Ch[0])
		r.p('[')
		r.render(0, c3FolNone, e.Ch[1])
		r.p(']')
	case "mem":
		r.render(t.n()+1, c3Fol{kind: 'p'}, e.Ch[0])
		r.p('.')
		r.emit('i', e.S)
	case "meth":
		r.render(t.n()+1, c3Fol{kind: 'p'}, e.Ch[0])
		r.p('.')
		r.emit('i', e.S)
		r.p('(')
		r.args(e, e.Ch[1:])
		r.p(')')
	case "let":
		r.emit('k', "let")
		r.emit('i', e.S)
		r.emit('o', "=")
		r.render(0, c3FolNone, e.Ch[0])
		r.p(';')
		r.render(0, c3FolNone, e.Ch[1])
	case "func":
		r.emit('k', "func")
		r.emit('i', e.S)
		r.p('(')
		r.identList(e.Names)
		r.p(')')
		r.render(0, c3FolNone, e.Ch[0])
		r.p(';')
		r.render(0, c3FolNone, e.Ch[1])
	case "clo":
		if len(e.Names) == 1 {
			r.emit('i', e.Names[0])
		} else {
			r.p('(')
			r.identList(e.Names)
			r.p(')')
		}
		r.emit('o', "->")
		r.render(0, c3FolNone, e.Ch[0])
	case "list":
		r.p('[')
		r.args(e, e.Ch)
		r.p(']')
	case "map":
		r.p('{')
		for i, v := range e.Ch {
			if i > 0 {
				r.p(',')
			}
			r.emit('i', e.Names[i])
			r.p(':')
			r.render(0, c3FolNone, v)
		}
		if _, trail := r.deco(e); trail && len(e.Ch) > 0 {
			r.p(',')
		}
		r.p('}')
	case "if":
		r.emit('k', "if")
		r.render(0, c3FolNone, e.Ch[0])
		r.emit('k', "then")
		r.render(0, c3FolNone, e.Ch[1])
		r.emit('k', "else")
		r.render(0, c3FolNone, e.Ch[2])
	case "try":
		r.emit('k', "try")
		r.render(0, c3FolNone, e.Ch[0])
		r.emit('k', "catch")
		r.render(0, c3FolNone, e.Ch[1])
	case "sw":
		r.emit('k', "switch")
		r.render(0, c3FolNone, e.Ch[0])
		for i := 2; i+1 < len(e.Ch); i += 2 {
			r.emit('k', "case")
			r.render(0, c3FolNone, e.Ch[i])
			r.p(':')
			r.render(0, c3FolNone, e.Ch[i+1])
		}
		r.emit('k', "default")
		r.render(0, c3FolNone, e.Ch[1])
	default:
		r.emit('x', "?"+e.K)
	}
}

func (t *c3Table) render(deco c3Deco, e *c3E) []c3Tok {
	r := &c3Renderer{t: t, deco: deco}
	r.render(0, c3FolNone, e)
	return r.out
}

// c3RandDeco: per node 0, 1 or 2 extra pairs with small probability, random trailing commas
func c3RandDeco(rng *rand.Rand, e *c3E) c3Deco {
	type d struct {
		par   int
		trail bool
	}
	m := map[*c3E]d{}
	var walk func(e *c3E)
	walk = func(e *c3E) {
		x := d{}
		switch r := rng.Intn(20); {
		case r < 3:
			x.par = 1
		case r < 4:
			x.par = 2
		}
		x.trail = rng.Intn(3) == 0
		m[e] = x
		for _, c := range e.Ch {
			walk(c)
		}
	}
	walk(e)
	return func(e *c3E) (int, bool) { x := m[e]; return x.par, x.trail }
}

// ---- text -----------------------------------------------------------------------------------

func c3StrLit(s string) string {
	var b strings.Builder
	b.WriteByte('"')
	for _, r := range s {
		if r == '"' || r == '\\' {
			b.WriteByte('\\')
		}
		b.WriteRune(r)
	}
	b.WriteByte('"')
	return b.String()
}

// text renders a token list; rng != nil: operators are randomly written as one of their text aliases;
// tight: blanks only where two neighbours would obviously merge (the caller verifies with VerifTokens).
func (t *c3Table) text(ts []c3Tok, rng *rand.Rand, tight bool) string {
	var b strings.Builder
	prevClass := byte(0) // 'w' word-like, 'o' operator symbol, 'n' number, 0 other
	for i, tk := range ts {
		img := ""
		class := byte(0)
		switch tk.K {
		case 'i', 'k':
			img, class = tk.S, 'w'
		case 'n':
			img, class = tk.S, 'n'
		case 's':
			img = c3StrLit(tk.S)
		case 'o':
			img, class = tk.S, 'o'
			if rng != nil {
				if al := t.aliasOf[tk.S]; len(al) > 0 && rng.Intn(3) == 0 {
					img, class = al[rng.Intn(len(al))], 'w'
				}
			}
		case 'x':
			img, class = tk.S, 'o'
		default:
			img = string(tk.K)
		}
		if i > 0 {
			blank := true
			if tight {
				w := func(c byte) bool { return c == 'w' || c == 'n' }
				blank = (w(prevClass) && w(class)) || (prevClass == 'n' && tk.K == '.') ||
					(prevClass == 'o' && class == 'o' && (rng == nil || rng.Intn(10) < 7))
			}
			if blank {
				b.WriteByte(' ')
			}
		}
		b.WriteString(img)
		prevClass = class
	}
	return b.String()
}

// ---- AST dump of the implementation -------------------------------------------------------------

func c3DumpAST(a parser2.AST, out *[]string) {
	w := func(s ...string) { *out = append(*out, s...) }
	list := func(l []parser2.AST) {
		w(itoa(len(l)))
		for _, x := range l {
			c3DumpAST(x, out)
		}
	}
	names := func(l []string) {
		w(itoa(len(l)))
		for _, n := range l {
			w(cps(n))
		}
	}
	switch n := a.(type) {
	case nil:
		w("?nil")
	case *parser2.Ident:
		w("id", cps(n.Name))
	case *parser2.Const[string]:
		switch {
		case strings.HasPrefix(n.Value, "N"):
			w("num", cps(n.Value[1:]))
		case strings.HasPrefix(n.Value, "S"):
			w("str", cps(n.Value[1:]))
		case strings.HasPrefix(n.Value, "C"):
			w("cst", cps(n.Value[1:]))
		default:
			w("?const")
		}
	case *parser2.Operate:
		w("bin", cps(n.Operator))
		c3DumpAST(n.A, out)
		c3DumpAST(n.B, out)
	case *parser2.Unary:
		w("un", cps(n.Operator))
		c3DumpAST(n.Value, out)
	case *parser2.FunctionCall:
		w("call")
		c3DumpAST(n.Func, out)
		list(n.Args)
	case *parser2.ListAccess:
		w("idx")
		c3DumpAST(n.List, out)
		c3DumpAST(n.Index, out)
	case *parser2.MapAccess:
		w("mem")
		c3DumpAST(n.MapValue, out)
		w(cps(n.Key))
	case *parser2.MethodCall:
		w("meth")
		c3DumpAST(n.Value, out)
		w(cps(n.Name))
		list(n.Args)
	case *parser2.Let:
		if clo, ok := n.Value.(*parser2.ClosureLiteral); ok && clo.ThisName != "" {
			if clo.ThisName != n.Name {
				w("?func-name-mismatch")
			}
			w("func", cps(n.Name))
			names(clo.Names)
			c3DumpAST(clo.Func, out)
			c3DumpAST(n.Inner, out)
		} else {
			w("let", cps(n.Name))
			c3DumpAST(n.Value, out)
			c3DumpAST(n.Inner, out)
		}
	case *parser2.ClosureLiteral:
		if n.ThisName != "" {
			w("?closure-with-this-name")
		}
		w("clo")
		names(n.Names)
		c3DumpAST(n.Func, out)
	case *parser2.ListLiteral:
		w("list")
		list(n.List)
	case *parser2.MapLiteral:
		w("map", itoa(n.Map.Size()))
		n.Map.Iter(func(key string, v parser2.AST) bool {
			w(cps(key))
			c3DumpAST(v, out)
			return true
		})
	case *parser2.If:
		w("if")
		c3DumpAST(n.Cond, out)
		c3DumpAST(n.Then, out)
		c3DumpAST(n.Else, out)
	case *parser2.TryCatch:
		w("try")
		c3DumpAST(n.Try, out)
		c3DumpAST(n.Catch, out)
	case *parser2.Switch[string]:
		w("sw")
		c3DumpAST(n.SwitchValue, out)
		w(itoa(len(n.Cases)))
		for _, cs := range n.Cases {
			c3DumpAST(cs.CaseConst, out)
			c3DumpAST(cs.Value, out)
		}
		c3DumpAST(n.Default, out)
	default:
		w(fmt.Sprintf("?%T", a))
	}
}

// c3Impl is the outcome of the real parser on one text.
type c3Impl struct {
	ok    bool
	dump  string
	err   string
	panic string
}

func (r c3Impl) show() string {
	switch {
	case r.panic != "":
		return "panic: " + r.panic
	case !r.ok:
		return "error: " + r.err
	}
	return r.dump
}

// c3RunParse calls the real parser; a Go panic is recovered and reported.
func c3RunParse(p *parser2.Parser[string], ids parser2.Identifiers[string], text string) (res c3Impl) {
	defer func() {
		if r := recover(); r != nil {
			res = c3Impl{panic: fmt.Sprint(r)}
			if res.panic == "" {
				res.panic = "panic"
			}
		}
	}()
	ast, err := p.Parse(text, ids)
	if err != nil {
		return c3Impl{err: err.Error()}
	}
	var out []string
	c3DumpAST(ast, &out)
	return c3Impl{ok: true, dump: strings.Join(out, " ")}
}

// ---- generators -------------------------------------------------------------------------------

// (the multi-byte ones: an operator spelling is a sequence of RUNES, the detector must not count bytes; not • × ÷, which the
// tokenizer itself rewrites to * and /)
var c3Chars = []string{"+", "-", "*", "/", "<", ">", "=", "!", "&", "|", "^", "%", "~", "?", "@", "#", "$", "≤", "≠", "≈", "∧", "⊕"}

// spellings that are prefixes of one another
var c3Chains = []string{"<", "<=", "<=>", "<<", "<<=", "<>", "=", "==", "===", "=>", "!=", "!", "!!", "!==", "&", "&&", "&&&",
	"-", "--", "-=", "->>", "-->", "|", "||", "|>", "||>", "+", "++", "+=", "+-", ">", ">=", ">>", ">>>", ">>=", "*", "**", "*=",
	"/", "//", "/=", "%", "%%", "^", "^^", "~", "~=", "~~", "?", "??", "@", "@@", "#", "$", "$$",
	"≤", "≤≤", "≤=", "<≈", "≠", "≠=", "⊕", "⊕⊕", "≈", "≈≈", "≈≠", "∧", "∧∧", "=≠"}

var c3AliasWords = []string{"plus", "minus", "and", "or", "mod", "xor", "times", "over", "not", "shl"}

func c3GenSpelling(rng *rand.Rand, chosen []string) string {
	for {
		var s string
		switch r := rng.Intn(100); {
		case r < 45:
			s = c3Chains[rng.Intn(len(c3Chains))]
		case r < 65 && len(chosen) > 0:
			s = chosen[rng.Intn(len(chosen))]
			if len([]rune(s)) < 3 {
				s += c3Chars[rng.Intn(len(c3Chars))]
			}
		case r < 75 && len(chosen) > 0:
			s = chosen[rng.Intn(len(chosen))]
			if rs := []rune(s); len(rs) > 1 {
				s = string(rs[:len(rs)-1])
			}
		default:
			n := 1 + rng.Intn(3)
			for i := 0; i < n; i++ {
				s += c3Chars[rng.Intn(len(c3Chars))]
			}
		}
		if s == "->" || s == "" {
			continue
		}
		dup := false
		for _, c := range chosen {
			if c == s {
				dup = true
			}
		}
		if !dup {
			return s
		}
	}
}

func c3GenTable(rng *rand.Rand) *c3Table {
	t := &c3Table{Aliases: map[string]string{}}
	n := 1 + rng.Intn(16)
	if rng.Intn(100) < 3 {
		n = 0
	}
	for i := 0; i < n; i++ {
		t.Ops = append(t.Ops, c3GenSpelling(rng, t.Ops))
	}
	nu := 0
	switch r := rng.Intn(100); {
	case r < 20:
		nu = 0
	case r < 60:
		nu = 1
	case r < 85:
		nu = 2
	default:
		nu = 3
	}
	forceLast := n > 0 && rng.Intn(100) < 5
	if forceLast && nu == 0 {
		nu = 1
	}
	all := append([]string(nil), t.Ops...)
	for i := 0; i < nu; i++ {
		var u string
		switch {
		case forceLast && i == 0:
			u = t.Ops[n-1]
		case n > 0 && rng.Intn(100) < 55:
			u = t.Ops[rng.Intn(n)] // also binary, at every possible position
		default:
			u = c3GenSpelling(rng, all) // pure prefix operator
			all = append(all, u)
		}
		if !t.isUnary(u) {
			t.Unary = append(t.Unary, u)
		}
	}
	if rng.Intn(100) < 30 {
		var targets []string
		targets = append(targets, t.Ops...)
		targets = append(targets, t.Unary...)
		if len(targets) > 0 {
			k := 1 + rng.Intn(3)
			for i := 0; i < k; i++ {
				t.Aliases[c3AliasWords[rng.Intn(len(c3AliasWords))]] = targets[rng.Intn(len(targets))]
			}
		}
	}
	return t.prepare()
}

var c3FreshNames = []string{"p", "q", "r", "s", "t", "u", "v", "w", "m", "n", "a", "x", "f", "pi"}
var c3KeyNames = []string{"size", "k", "l", "key", "len", "get", "first", "a", "x"}
var c3Numbers = []string{"1", "42", "2.5", "0", "7"}
var c3Strings = []string{"", "s", "hi there", "q\"t", "b\\s"}

type c3Gen struct {
	rng    *rand.Rand
	t      *c3Table
	budget int
}

func c3Lookup(sc []c3SE, name string) byte {
	for i := len(sc) - 1; i >= 0; i-- {
		if sc[i].name == name {
			return sc[i].kind
		}
	}
	return 0
}

func (g *c3Gen) leaf(sc []c3SE) *c3E {
	switch r := g.rng.Intn(10); {
	case r < 6:
		name := sc[g.rng.Intn(len(sc))].name
		if c3Lookup(sc, name) == 'c' {
			return c3Cst(name)
		}
		return c3Id(name)
	case r < 8:
		return c3Num(c3Numbers[g.rng.Intn(len(c3Numbers))])
	case r < 9:
		return c3Str(c3Strings[g.rng.Intn(len(c3Strings))])
	default:
		return c3Cst(g.hostConst(sc))
	}
}

// hostConst: a constant that is not shadowed; falls back to a number image otherwise
func (g *c3Gen) hostConst(sc []c3SE) string {
	for _, n := range c3PoolConsts {
		if c3Lookup(sc, n) == 'c' {
			return n
		}
	}
	return ""
}

func (g *c3Gen) distinctNames(pool []string, k int) []string {
	perm := g.rng.Perm(len(pool))
	var res []string
	for i := 0; i < k && i < len(perm); i++ {
		res = append(res, pool[perm[i]])
	}
	return res
}

func c3Extend(sc []c3SE, names []string) []c3SE {
	res := append([]c3SE(nil), sc...)
	for _, n := range names {
		res = append(res, c3SE{n, 'v'})
	}
	return res
}

type c3Weight struct {
	kind string
	w    int
}

// gen: a tree of depth <= d that is WF in the scope sc; letOK = a let position
func (g *c3Gen) gen(d int, sc []c3SE, letOK bool) *c3E {
	g.budget--
	if d <= 1 || g.budget <= 0 {
		e := g.leaf(sc)
		if e.K == "cst" && e.S == "" {
			return c3Num("3")
		}
		return e
	}
	ws := []c3Weight{{"leaf", 8}, {"call", 6}, {"idx", 5}, {"mem", 5}, {"meth", 6}, {"list", 3}, {"map", 3}, {"if", 4}, {"try", 3}, {"sw", 3}, {"clo", 4}}
	if g.t.n() > 0 {
		ws = append(ws, c3Weight{"bin", 34})
	}
	if len(g.t.Unary) > 0 {
		ws = append(ws, c3Weight{"un", 13})
	}
	if letOK {
		ws = append(ws, c3Weight{"let", 6}, c3Weight{"func", 4})
	}
	tot := 0
	for _, w := range ws {
		tot += w.w
	}
	r := g.rng.Intn(tot)
	kind := ""
	for _, w := range ws {
		if r < w.w {
			kind = w.kind
			break
		}
		r -= w.w
	}
	ex := func() *c3E { return g.gen(d-1, sc, false) }
	lt := func() *c3E { return g.gen(d-1, sc, true) }
	args := func() []*c3E {
		k := g.rng.Intn(4)
		var l []*c3E
		for i := 0; i < k; i++ {
			l = append(l, lt())
		}
		return l
	}
	switch kind {
	case "bin":
		o := g.t.Ops[g.rng.Intn(g.t.n())]
		return c3Bin(o, ex(), ex())
	case "un":
		return c3Un(g.t.Unary[g.rng.Intn(len(g.t.Unary))], ex())
	case "call":
		var f *c3E
		if g.rng.Intn(2) == 0 {
			name := c3PoolFuncs[g.rng.Intn(len(c3PoolFuncs))]
			if k := c3Lookup(sc, name); k == 'f' || k == 'v' {
				f = c3Id(name)
			}
		}
		if f == nil {
			f = ex()
		}
		return c3Call(f, args()...)
	case "idx":
		return c3Idx(ex(), ex())
	case "mem":
		return c3Mem(ex(), c3KeyNames[g.rng.Intn(len(c3KeyNames))])
	case "meth":
		return c3Meth(ex(), c3KeyNames[g.rng.Intn(len(c3KeyNames))], args()...)
	case "list":
		return c3List(args()...)
	case "map":
		keys := g.distinctNames(c3KeyNames, g.rng.Intn(4))
		var vals []*c3E
		for range keys {
			vals = append(vals, lt())
		}
		return c3Map(keys, vals...)
	case "if":
		return c3If(ex(), lt(), lt())
	case "try":
		return c3Try(lt(), lt())
	case "sw":
		k := g.rng.Intn(3)
		v := ex()
		var cases []*c3E
		for i := 0; i < k; i++ {
			cases = append(cases, ex(), lt())
		}
		return c3Sw(v, lt(), cases...)
	case "clo":
		names := g.distinctNames(c3FreshNames, 1+g.rng.Intn(3))
		return c3Clo(names, g.gen(d-1, c3Extend(sc, names), true))
	case "let":
		name := c3FreshNames[g.rng.Intn(len(c3FreshNames))]
		var v *c3E
		for i := 0; ; i++ {
			v = ex()
			if !v.isConst() {
				break
			}
			if i > 3 {
				v = c3Id("a") // "a" is a variable in every scope (binders only add variables)
				break
			}
		}
		return c3Let(name, v, g.gen(d-1, c3Extend(sc, []string{name}), true))
	case "func":
		name := c3FreshNames[g.rng.Intn(len(c3FreshNames))]
		names := g.distinctNames(c3FreshNames, 1+g.rng.Intn(3))
		// scope of the body: (name, var) :: (varsOf names ++ σ)
		body := g.gen(d-1, c3Extend(c3Extend(sc, names), []string{name}), true)
		inner := g.gen(d-1, c3Extend(sc, []string{name}), true)
		return c3Func(name, names, body, inner)
	}
	e := g.leaf(sc)
	if e.K == "cst" && e.S == "" {
		return c3Num("3")
	}
	return e
}

// nontrivial: the counting rule stated in c.rule
func (t *c3Table) nontrivial(e *c3E) bool {
	levels := map[int]bool{}
	flag := false
	var walk func(e *c3E)
	walk = func(e *c3E) {
		switch e.K {
		case "bin":
			levels[t.pos(e.S)] = true
		case "un":
			if t.pos(e.S) >= 0 {
				flag = true
			}
		case "call", "idx", "mem", "meth":
			if k := e.Ch[0].K; k == "bin" || k == "un" {
				flag = true
			}
		}
		if e.K == "bin" || e.K == "un" {
			for _, c := range e.Ch {
				if c.K == "if" || c.K == "try" || c.K == "sw" || c.K == "clo" {
					flag = true
				}
			}
		}
		for _, c := range e.Ch {
			walk(c)
		}
	}
	walk(e)
	return flag || len(levels) >= 2
}

// c3SmallTrees: all trees of depth <= d over binary / prefix / postfix forms with the atom a (and 1)
func c3SmallTrees(t *c3Table, d int) []*c3E {
	cur := []*c3E{c3Id("a")}
	all := append([]*c3E(nil), cur...)
	for lv := 2; lv <= d; lv++ {
		var next []*c3E
		sub := all
		for _, o := range t.Ops {
			for _, x := range sub {
				for _, y := range sub {
					if x.depth() == lv-1 || y.depth() == lv-1 {
						next = append(next, c3Bin(o, x, y))
					}
				}
			}
		}
		for _, x := range cur {
			for _, u := range t.Unary {
				next = append(next, c3Un(u, x))
			}
			next = append(next, c3Call(x, c3Num("1")), c3Idx(x, c3Id("b")), c3Mem(x, "k"), c3Meth(x, "size"))
		}
		cur = next
		all = append(all, next...)
	}
	return all
}

// c3Clone gives every node a fresh identity (decorations are per node)
func c3Clone(e *c3E) *c3E {
	n := &c3E{K: e.K, S: e.S, Names: e.Names}
	for _, c := range e.Ch {
		n.Ch = append(n.Ch, c3Clone(c))
	}
	return n
}

// ---- harness ----------------------------------------------------------------------------------

type c3Ask struct {
	req string
	f   func(resp string)
}

type c3Prog struct {
	tab      *c3Table
	toks     []c3Tok
	rend     string
	nontriv  bool
	intended string
}

type c3H struct {
	c     *Ctx
	ids   parser2.Identifiers[string]
	scope string
	pend  []c3Ask
	progs []c3Prog
}

func (h *c3H) ask(req string, f func(string)) {
	h.pend = append(h.pend, c3Ask{req, f})
	if len(h.pend) >= 4000 {
		h.flush()
	}
}

func (h *c3H) flush() {
	if len(h.pend) == 0 {
		return
	}
	idx := map[string]int{}
	var reqs []string
	for _, a := range h.pend {
		if _, ok := idx[a.req]; !ok {
			idx[a.req] = len(reqs)
			reqs = append(reqs, a.req)
		}
	}
	resp := h.c.Model(reqs)
	pend := h.pend
	h.pend = nil
	for _, a := range pend {
		a.f(resp[idx[a.req]])
	}
}

func (h *c3H) parseReq(pin string, tab *c3Table, toks string) string {
	return "PARSE\t" + pin + "\t" + tab.opsField() + "\t" + tab.unaryField() + "\t" + h.scope + "\t" + toks
}

func (h *c3H) replay(tab *c3Table, stream, text string, extra map[string]any) map[string]any {
	al := map[string]string{}
	for k, v := range tab.Aliases {
		al[k] = v
	}
	m := map[string]any{"stream": stream, "ops": append([]string{}, tab.Ops...), "unary": append([]string{}, tab.Unary...),
		"aliases": al, "text": text, "text_cps": cps(text), "route": tab.Route,
		"parser": "NewParser[string]; number n->\"N\"+n; string s->\"S\"+s; keywords let func if then else switch case default try catch; Op(ops...); Unary(unary...); TextOperator(aliases); identifiers Add(a b c x y z) AddFunc(f g h) AddConst(pi tau)"}
	for k, v := range extra {
		m[k] = v
	}
	return m
}

// c3Tokens: VerifTokens with a recover
func c3Tokens(p *parser2.Parser[string], text string) (toks []c3Tok, pan string) {
	defer func() {
		if r := recover(); r != nil {
			pan = fmt.Sprint(r)
		}
	}()
	return c3FromVerif(p.VerifTokens(text)), ""
}

func c3DetectorClass(want, got []c3Tok) string {
	for i := range want {
		if i >= len(got) {
			return "tokens-missing"
		}
		if want[i] != got[i] {
			switch {
			case want[i].K == 'o' && got[i].K == 'x':
				return "operator-invalid"
			case want[i].K == 'o' && got[i].K == 'o':
				return "operator-munch"
			case want[i].K == 'o':
				return "operator-other"
			}
			return "kind-" + string(want[i].K)
		}
	}
	return "tokens-extra"
}

func (h *c3H) panicSig(tab *c3Table) string {
	switch {
	case tab.n() == 0:
		return "panic:no-binary-operators"
	case tab.unaryIsLast():
		return "panic:unary-is-highest-binary"
	}
	return "panic:other"
}

// panicAsk: the impl panicked — what does the model of the pinned commit predict?
func (h *c3H) panicAsk(tab *c3Table, toks string) {
	h.ask(h.parseReq("1", tab, toks), func(resp string) {
		h.c.Count(fmt.Sprintf("pinned-model-predicts-panic=%v", resp == "PANIC"))
	})
}

// validCase: one (table, tree, rendering, spacing). toks = the intended token list of text.
func (h *c3H) validCase(tab *c3Table, p *parser2.Parser[string], e *c3E, intended, rend string, toks []c3Tok, text, spacing string, nontriv bool) {
	c := h.c
	c.Case(tab.opsField()+"|"+tab.unaryField()+"|"+text, nontriv)
	c.Count("render=" + rend)
	c.Count("spacing=" + spacing)
	real, pan := c3Tokens(p, text)
	if pan != "" {
		c.Violation("panic:tokenizer", "the tokenizer panicked: "+pan, h.replay(tab, "valid", text, map[string]any{"intended": intended}))
		return
	}
	if !c3ToksEq(real, toks) {
		cl := c3DetectorClass(toks, real)
		c.Count("outcome=detector-mismatch")
		c.Violation("detector:"+cl, "blank separated text is not scanned as the token list it was written from",
			h.replay(tab, "valid", text, map[string]any{"intended": intended, "intended_tokens": c3ToksModel(toks), "real_tokens": c3ToksModel(real)}))
		// the parser is still compared with the model on the real token stream below
	}
	impl := c3RunParse(p, h.ids, text)
	rep := func() map[string]any {
		return h.replay(tab, "valid", text, map[string]any{"intended": intended, "impl": impl.show(), "rendering": rend, "tokens": c3ToksModel(real)})
	}
	held := false
	switch {
	case impl.panic != "":
		c.Count("outcome=panic")
		c.Violation(h.panicSig(tab), "Parse panicked on a valid program: "+impl.panic, rep())
		h.panicAsk(tab, c3ToksModel(real))
	case !impl.ok:
		c.Count("outcome=rejected")
		c.Violation("valid-rejected:"+e.K, "a valid program (rendering of a well-formed tree) is rejected: "+impl.err, rep())
	case impl.dump != intended:
		c.Count("outcome=regrouped")
		c.Violation("regrouped:"+e.K, "the AST is not the tree the program was rendered from", rep())
	default:
		c.Count("outcome=ok")
		held = true
	}
	if len(c.samples) < 6 && nontriv && rend != "full" && len(toks) < 40 && len(toks) > 8 {
		c.Sample(map[string]any{"ops": tab.Ops, "unary": tab.Unary, "text": text, "ast": impl.show(), "rendering": rend})
	}
	h.ask(h.parseReq("0", tab, c3ToksModel(real)), func(resp string) {
		want := "ERR"
		if impl.ok {
			want = "OK " + impl.dump
		}
		if impl.panic != "" || resp == want {
			return
		}
		c.disagree++
		if held {
			c.Broken("corr:PARSE", "model and parser differ on a valid program", h.replay(tab, "valid", text,
				map[string]any{"intended": intended, "impl": impl.show(), "model": resp, "tokens": c3ToksModel(real)}))
		}
	})
}

// tree: all renderings of one tree
func (h *c3H) tree(tab *c3Table, p *parser2.Parser[string], e *c3E, keep bool) {
	c := h.c
	rng := c.rng
	intended := e.dump()
	nontriv := tab.nontrivial(e)
	c.Count("root=" + e.K)
	c.Count(fmt.Sprintf("depth=%d", e.depth()))
	type rd struct {
		name string
		toks []c3Tok
	}
	rs := []rd{{"min", tab.render(c3DecoMin, e)}, {"full", tab.render(c3DecoFull, e)}, {"rand", tab.render(c3RandDeco(rng, e), e)}}
	for _, r := range rs[:2] {
		r := r
		req := "RENDER\t" + r.name + "\t" + tab.opsField() + "\t" + tab.unaryField() + "\t" + intended
		h.ask(req, func(resp string) {
			if resp != c3ToksModel(r.toks) {
				c.disagree++
				c.Broken("corr:RENDER", "the Go port of the renderer differs from the model's renderer",
					map[string]any{"request": req, "go": c3ToksModel(r.toks), "model": resp})
			}
		})
	}
	for _, r := range rs {
		text := tab.text(r.toks, rng, false)
		h.validCase(tab, p, e, intended, r.name, r.toks, text, "blank", nontriv)
		// comfort mode (implicit multiplication) must not change the tokens of a text that has no juxtaposition:
		// no number, identifier or ')' directly followed by a number, an identifier or '(' (aliases are operators)
		if c3ComfortNeutral(r.toks) {
			pc := tab.newParser().Comfort(true)
			real, pan := c3Tokens(pc, text)
			c.Count("comfort-neutral-text")
			if pan != "" || !c3ToksEq(real, r.toks) {
				c.Violation("comfort-changes-tokens", "comfort mode changes the token list of a text without any juxtaposition (an implicit operator appears next to an operator or alias)",
					h.replay(tab, "valid", text, map[string]any{"comfort": true, "intended_tokens": c3ToksModel(r.toks), "tokens": c3ToksModel(real), "panic": pan}))
			}
		}
		// strict mode (this parser has no comfort mode): a complete expression followed by a further operand has a trailing token,
		// also when a superscript exponent stands in between (the scanner writes `²` as `^ 2`; only comfort mode may put a `*`
		// behind it - round-5 seed C03-15: the merged superscript case marked the digit as a number in strict mode too)
		if r.name == "min" && rng.Intn(4) == 0 {
			sup := string([]rune("⁰¹²³⁴⁵⁶⁷⁸⁹")[rng.Intn(10)])
			v := c3PoolVars[rng.Intn(len(c3PoolVars))]
			for _, tail := range []string{sup + " " + v, sup + v, sup + " 3", sup + "\n" + v, sup + " " + v + sup, " " + v, sup + sup + " " + v} {
				mt := text + tail
				impl := c3RunParse(p, h.ids, mt)
				c.Case(tab.opsField()+"|"+tab.unaryField()+"|strict|"+mt, nontriv)
				c.Count("strict-juxtaposition")
				switch {
				case impl.panic != "":
					c.Violation(h.panicSig(tab), "Parse panicked: "+impl.panic, h.replay(tab, "mutant", mt, map[string]any{"intended": intended}))
				case impl.ok:
					c.Violation("strict-juxtaposition-accepted", "without comfort mode an operand behind a complete expression is a trailing token and must be rejected (a superscript exponent in between does not change that); it was accepted as "+impl.show(),
						h.replay(tab, "mutant", mt, map[string]any{"intended": intended, "impl": impl.show()}))
				}
			}
		}
		if rng.Intn(5) < 2 {
			tt := tab.text(r.toks, rng, true)
			real, pan := c3Tokens(p, tt)
			if pan == "" && c3ToksEq(real, r.toks) {
				c.Count("tight-used=true")
				h.validCase(tab, p, e, intended, r.name, r.toks, tt, "tight", nontriv)
			} else {
				c.Count("tight-used=false(fallback to blanks)")
			}
		}
		if keep && len(r.toks) >= 3 && len(r.toks) <= 34 {
			h.progs = append(h.progs, c3Prog{tab, r.toks, r.name, nontriv, intended})
		}
	}
}

func c3ComfortNeutral(ts []c3Tok) bool {
	for i := 1; i < len(ts); i++ {
		a, b := ts[i-1].K, ts[i].K
		if (a == 'n' || a == 'i' || a == ')') && (b == 'n' || b == 'i' || b == '(') {
			return false
		}
	}
	return true
}

func (h *c3H) countTable(tab *c3Table) {
	c := h.c
	c.Count(fmt.Sprintf("table.ops=%02d", tab.n()))
	c.Count(fmt.Sprintf("table.unary=%d", len(tab.Unary)))
	c.Count("table.unary-is-binary=" + tab.unaryClass())
	c.Count(fmt.Sprintf("table.aliases=%d", len(tab.Aliases)))
	pre := 0
	for i, a := range tab.Ops {
		for j, b := range tab.Ops {
			if i != j && strings.HasPrefix(b, a) {
				pre++
			}
		}
	}
	switch {
	case pre == 0:
		c.Count("table.prefix-pairs=0")
	case pre < 4:
		c.Count("table.prefix-pairs=1-3")
	default:
		c.Count("table.prefix-pairs=4+")
	}
}

var c3ValueOps = []string{"|", "&", "=", "!=", "~", "<", ">", "<=", ">=", "+", "-", "<<", ">>", "*", "%", "/", "^"}

type c3CorpusCase struct {
	tab  *c3Table
	text string // "" = only the renderings of the tree
	e    *c3E
}

func c3Corpus() []c3CorpusCase {
	tb := func(ops, un []string) *c3Table {
		return (&c3Table{Ops: ops, Unary: un, Aliases: map[string]string{}}).prepare()
	}
	a, b, cc, x := func() *c3E { return c3Id("a") }, func() *c3E { return c3Id("b") }, func() *c3E { return c3Id("c") }, func() *c3E { return c3Id("x") }
	val := tb(c3ValueOps, []string{"-", "!"})
	big := c3Let("x", c3Bin("*", a(), c3Un("-", c3Bin("^", b(), cc()))),
		c3If(c3Bin("<", x(), a()),
			c3Meth(c3List(x(), c3Call(c3Id("f"), x())), "size"),
			c3Try(
				c3Meth(c3Map([]string{"k", "l"},
					c3Clo([]string{"x"}, c3Bin("+", x(), c3Num("1"))),
					c3Clo([]string{"p", "q"}, c3Bin("*", c3Id("p"), c3Id("q")))), "k", a()),
				c3Sw(a(), b(), c3Num("1"), a()))))
	tAl := tb([]string{"|", "&", "+", "*"}, []string{"-", "!"})
	tAl.Aliases = map[string]string{"or": "|", "and": "&", "plus": "+", "not": "!"}
	tAl.prepare()
	return []c3CorpusCase{
		{tb([]string{"+", "-"}, []string{"-"}), "-a", c3Un("-", a())}, // B3
		{tb([]string{"+", "-"}, []string{"-"}), "a - -a + b", c3Bin("+", c3Bin("-", a(), c3Un("-", a())), b())},
		{tb(nil, nil), "f(a)", c3Call(c3Id("f"), a())}, // B3: no binary operators
		{tb(nil, []string{"-"}), "-a.k", c3Un("-", c3Mem(a(), "k"))},
		{tb([]string{"|", "&", "=", "<"}, []string{"!", "<"}), "<a", c3Un("<", a())},
		{tb([]string{"|", "&", "=", "<"}, []string{"!", "<"}), "!a < b", c3Bin("<", c3Un("!", a()), b())},
		{val, "let x = a * -b ^ c; if x < a then [x, f(x),].size() else try {k: x->x+1, l: (p,q)->p*q}.k(a) catch switch a case 1: a default b", big},
		{val, "a+b*c-a", c3Bin("+", a(), c3Bin("-", c3Bin("*", b(), cc()), a()))}, // "-" binds tighter than "+" in value.New()
		{val, "a-b*c+a", c3Bin("+", c3Bin("-", a(), c3Bin("*", b(), cc())), a())},
		{val, "a-b-c", c3Bin("-", c3Bin("-", a(), b()), cc())},
		{val, "a-(b-c)", c3Bin("-", a(), c3Bin("-", b(), cc()))},
		{val, "-a^b", c3Un("-", c3Bin("^", a(), b()))},
		{val, "-a*b", c3Un("-", c3Bin("*", a(), b()))},
		{val, "-a+b", c3Bin("+", c3Un("-", a()), b())},
		{val, "-a-b", c3Bin("-", c3Un("-", a()), b())},
		{val, "a+b+c", c3Bin("+", c3Bin("+", a(), b()), cc())},
		{val, "(-a)*b", c3Bin("*", c3Un("-", a()), b())},
		{val, "!a.k(b)[c]", c3Un("!", c3Idx(c3Meth(a(), "k", b()), cc()))},
		{val, "a<=b=c>=a", c3Bin("=", c3Bin("<=", a(), b()), c3Bin(">=", cc(), a()))},
		{val, "a<<b<c", c3Bin("<", c3Bin("<<", a(), b()), cc())},
		{val, "(a.k)(b)", c3Call(c3Mem(a(), "k"), b())},
		{val, "(x->x*pi)(2.5)+\"s\"", c3Bin("+", c3Call(c3Clo([]string{"x"}, c3Bin("*", x(), c3Cst("pi"))), c3Num("2.5")), c3Str("s"))},
		{val, "func g(n) if n<1 then 1 else n*g(n-1); g(a)", c3Func("g", []string{"n"},
			c3If(c3Bin("<", c3Id("n"), c3Num("1")), c3Num("1"), c3Bin("*", c3Id("n"), c3Call(c3Id("g"), c3Bin("-", c3Id("n"), c3Num("1"))))),
			c3Call(c3Id("g"), a()))},
		{val, "let x = 1; x + a", c3Bin("+", c3Num("1"), a())}, // constant substitution
		{tAl, "a plus b and not c or a * b", c3Bin("|", c3Bin("&", c3Bin("+", a(), b()), c3Un("!", cc())), c3Bin("*", a(), b()))},
	}
}

func (h *c3H) corpus() {
	for _, cs := range c3Corpus() {
		p := cs.tab.newParser()
		h.countTable(cs.tab)
		h.c.Count("stream=corpus")
		intended := cs.e.dump()
		if cs.text != "" {
			toks, pan := c3Tokens(p, cs.text)
			if pan != "" {
				h.c.Violation("panic:tokenizer", "the tokenizer panicked: "+pan, h.replay(cs.tab, "valid", cs.text, nil))
				continue
			}
			h.validCase(cs.tab, p, cs.e, intended, "hand", toks, cs.text, "hand", cs.tab.nontrivial(cs.e))
		}
		if cs.e.K == "bin" && cs.e.Ch[0].K == "num" && cs.text == "let x = 1; x + a" {
			continue // the tree of a substituted constant has no let to render
		}
		h.tree(cs.tab, p, cs.e, true)
	}
}

// generatorRoutes: the operator table of a parser may also be declared through a funcGen.FunctionGenerator, whose
// AddOpBehind inserts an operator behind another one. Whatever the sequence of AddOp/AddOpBehind calls, the priority
// list handed to the parser is the intended one (and the parser built from it groups accordingly).
func (h *c3H) generatorRoutes() {
	c := h.c
	tables := [][]string{{"+", "*"}, {"+", "-", "*"}, {"|", "&", "=", "+", "-", "*", "/", "^"}, {"<", "+", "*", "^", "%"}, {"+", "-", "*", "/", "^", "=", "<"}}
	impl := funcGen.OperatorFunc[float64](func(st funcGen.Stack[float64], a, b float64) (float64, error) { return a + b, nil })
	for _, ops := range tables {
		for route := 0; route < 4; route++ {
			g := funcGen.New[float64]()
			behind := func(b, o string) { g.AddOpBehind(b, o, false, impl, true) }
			switch route {
			case 1: // the first, then the others from last to second, each behind the first
				behind("", ops[0])
				for i := len(ops) - 1; i >= 1; i-- {
					behind(ops[0], ops[i])
				}
			case 2: // even positions in order, then each odd one behind its predecessor
				for i := 0; i < len(ops); i += 2 {
					behind("", ops[i])
				}
				for i := 1; i < len(ops); i += 2 {
					behind(ops[i-1], ops[i])
				}
			case 3: // all but the last two, then the last, then the one before it behind its predecessor
				for i := 0; i < len(ops); i++ {
					if i != len(ops)-2 || len(ops) < 3 {
						behind("", ops[i])
					}
				}
				if len(ops) >= 3 {
					behind(ops[len(ops)-3], ops[len(ops)-2])
				}
			default:
				for _, o := range ops {
					behind("", o)
				}
			}
			var got []string
			for _, o := range g.VerifOperators() {
				got = append(got, o.Operator)
			}
			c.Case(fmt.Sprintf("generator-route|%v|%d", ops, route), true)
			c.Count("stream=generator-routes")
			if strings.Join(got, " ") != strings.Join(ops, " ") {
				c.Violation("generator-table-order", "the operator table declared through AddOp/AddOpBehind is not the intended priority list",
					map[string]any{"intended": ops, "registered": got, "route": route})
				continue
			}
			// the parser the generator builds uses that list: a two-operator expression groups by it
			g.SetOptimizer(nil)
			ids := g.Identifier().Add("a").Add("b").Add("c")
			for i := 0; i+1 < len(ops); i++ {
				lo, hi := ops[i], ops[i+1]
				ast, err := g.GetParser().Parse("a"+lo+"b"+hi+"c", ids)
				if err != nil {
					c.Violation("generator-table-order", "a parser built by the generator rejects a valid expression: "+err.Error(), map[string]any{"intended": ops, "route": route, "text": "a" + lo + "b" + hi + "c"})
					break
				}
				if op, ok := ast.(*parser2.Operate); !ok || op.Operator != lo {
					c.Violation("generator-table-order", "a parser built by the generator groups against the declared priorities", map[string]any{"intended": ops, "route": route, "text": "a" + lo + "b" + hi + "c", "ast": fmt.Sprint(ast)})
					break
				}
			}
		}
	}
}

// targeted: operator core, exhaustive small trees over many small tables
func (h *c3H) targeted() {
	opss := [][]string{{"+"}, {"+", "*"}, {"+", "-", "*"}, {"<", "<=", "<<"}}
	for _, ops := range opss {
		uns := [][]string{nil, {"-"}, {"!"}, {"-", "!"}, {ops[len(ops)-1]}, {ops[0]}, {ops[0], ops[len(ops)-1]}}
		for _, un := range uns {
			var u []string
			for _, x := range un {
				dup := false
				for _, y := range u {
					dup = dup || x == y
				}
				if !dup {
					u = append(u, x)
				}
			}
			for route := 0; route < 4; route++ {
				tab := (&c3Table{Ops: ops, Unary: u, Aliases: map[string]string{}, Route: route}).prepare()
				p := tab.newParser()
				h.countTable(tab)
				depth := 3
				if route > 0 {
					depth = 2
				}
				for _, e := range c3SmallTrees(tab, depth) {
					h.c.Count("stream=targeted")
					h.tree(tab, p, c3Clone(e), false)
				}
			}
		}
	}
	// the operator table of the shipped generator as probed on this run (the table the obligations of
	// P2.Oblig.OpTables are about): a spelling that breaks TableWF shows up as a failing input here
	if ops, unary, _ := probeValueTable(); len(ops) > 0 {
		tab := (&c3Table{Ops: ops, Unary: unary, Aliases: map[string]string{}}).prepare()
		p := tab.newParser()
		h.countTable(tab)
		for _, e := range c3SmallTrees(tab, 2) {
			h.c.Count("stream=targeted-value-table")
			h.tree(tab, p, c3Clone(e), false)
		}
	}
}

func (h *c3H) randomValid(nTables, treesPer int) {
	c := h.c
	rng := c.rng
	base := c3BaseScope()
	maxD := c.Pick(6, 10)
	maxB := c.Pick(40, 110)
	for ti := 0; ti < nTables; ti++ {
		tab := c3GenTable(rng)
		tab.Route = rng.Intn(4)
		c.Count(fmt.Sprintf("table.route=%d", tab.Route))
		p := tab.newParser()
		h.countTable(tab)
		for tj := 0; tj < treesPer; tj++ {
			g := &c3Gen{rng: rng, t: tab, budget: 3 + rng.Intn(maxB)}
			e := g.gen(2+rng.Intn(maxD-1), base, true)
			c.Count("stream=random-valid")
			h.tree(tab, p, e, tj < 2)
		}
	}
}

// ---- stream 2: malformed programs ---------------------------------------------------------------

type c3Mut struct {
	prog    *c3Prog
	toks    []c3Tok
	kind    string // del | ins
	tok     c3Tok
	pos     int
	bracket bool
}

func (m *c3Mut) line(text string) string {
	t := m.prog.tab
	return t.opsField() + "\t" + t.unaryField() + "\t" + t.aliasField() + "\t" + cps(text)
}

func c3Mutants(rng *rand.Rand, pr *c3Prog) []c3Mut {
	var res []c3Mut
	L := len(pr.toks)
	isBr := func(t c3Tok) bool { return strings.IndexByte("()[]{}", t.K) >= 0 }
	for i := 0; i < L; i++ {
		m := append(append([]c3Tok(nil), pr.toks[:i]...), pr.toks[i+1:]...)
		res = append(res, c3Mut{pr, m, "del", pr.toks[i], i, isBr(pr.toks[i])})
	}
	var set []c3Tok
	for _, ch := range "()[]{},;:." {
		set = append(set, c3Tok{K: byte(ch)})
	}
	if pr.tab.n() > 0 {
		set = append(set, c3Tok{'o', pr.tab.Ops[rng.Intn(pr.tab.n())]})
	}
	if len(pr.tab.Unary) > 0 {
		set = append(set, c3Tok{'o', pr.tab.Unary[rng.Intn(len(pr.tab.Unary))]})
	}
	set = append(set, c3Tok{'i', c3PoolVars[rng.Intn(len(c3PoolVars))]}, c3Tok{'n', "1"})
	for _, kw := range []string{"then", "else", "catch", "default", "case", "let"} {
		set = append(set, c3Tok{'k', kw})
	}
	// a string literal whose content is spelled like an operator or a keyword is a string, never that operator/keyword
	if pr.tab.n() > 0 {
		set = append(set, c3Tok{'s', pr.tab.Ops[rng.Intn(pr.tab.n())]})
	}
	set = append(set, c3Tok{'s', []string{"then", "else", "catch", "(", ")", ","}[rng.Intn(6)]})
	for i := 0; i <= L; i++ {
		for _, s := range set {
			m := make([]c3Tok, 0, L+1)
			m = append(append(append(m, pr.toks[:i]...), s), pr.toks[i:]...)
			res = append(res, c3Mut{pr, m, "ins", s, i, isBr(s)})
		}
	}
	// substitution: one token replaced by another one (a wrong keyword where then/else/catch belongs, a
	// wrong closing bracket, an operator where an operand belongs)
	for i := 0; i < L; i++ {
		for _, s := range set {
			if s == pr.toks[i] {
				continue
			}
			m := append([]c3Tok(nil), pr.toks...)
			m[i] = s
			res = append(res, c3Mut{pr, m, "sub", s, i, false})
		}
	}
	return res
}

// c3RunWorker feeds the lines to child processes (tie worker c03); "CRASH" marks a case that killed
// or hung its child.
func c3RunWorker(lines []string) []string {
	res := make([]string, 0, len(lines))
	rest := lines
	for len(rest) > 0 {
		chunk := rest
		if len(chunk) > 25000 {
			chunk = chunk[:25000]
		}
		ctx, cancel := context.WithTimeout(context.Background(), 180*time.Second)
		cmd := exec.CommandContext(ctx, os.Args[0], "worker", "c03")
		cmd.Stdin = strings.NewReader(strings.Join(chunk, "\n") + "\n")
		var out, errb bytes.Buffer
		cmd.Stdout = &out
		cmd.Stderr = &errb
		_ = cmd.Run()
		cancel()
		got := strings.Split(strings.TrimSuffix(out.String(), "\n"), "\n")
		if out.Len() == 0 {
			got = nil
		}
		if len(got) > len(chunk) {
			got = got[:len(chunk)]
		}
		res = append(res, got...)
		if len(got) < len(chunk) {
			res = append(res, "CRASH\t")
			rest = rest[len(got)+1:]
		} else {
			rest = rest[len(chunk):]
		}
	}
	return res
}

func c3Worker(args []string) {
	sc := bufio.NewScanner(os.Stdin)
	sc.Buffer(make([]byte, 1<<20), 1<<26)
	w := bufio.NewWriter(os.Stdout)
	defer w.Flush()
	ids := c3Idents()
	lastKey := "\x00"
	var p *parser2.Parser[string]
	list := func(s string) []string {
		var l []string
		for _, x := range strings.Fields(s) {
			l = append(l, fromCps(x))
		}
		return l
	}
	for sc.Scan() {
		f := strings.Split(sc.Text(), "\t")
		if len(f) != 4 {
			fmt.Fprintln(w, "BADLINE\t")
			w.Flush()
			continue
		}
		key := f[0] + "\t" + f[1] + "\t" + f[2]
		if key != lastKey {
			tab := &c3Table{Ops: list(f[0]), Unary: list(f[1]), Aliases: map[string]string{}}
			for _, kv := range strings.Fields(f[2]) {
				if i := strings.IndexByte(kv, '='); i > 0 {
					tab.Aliases[fromCps(kv[:i])] = fromCps(kv[i+1:])
				}
			}
			p = tab.prepare().newParser()
			lastKey = key
		}
		text := fromCps(f[3])
		toks, pan := c3Tokens(p, text)
		ts := c3ToksModel(toks)
		if pan != "" {
			fmt.Fprintln(w, "PANIC "+hexs("tokenizer: "+pan)+"\t"+ts)
			w.Flush()
			continue
		}
		r := c3RunParse(p, ids, text)
		switch {
		case r.panic != "":
			fmt.Fprintln(w, "PANIC "+hexs(r.panic)+"\t"+ts)
		case r.ok:
			fmt.Fprintln(w, "OK "+r.dump+"\t"+ts)
		default:
			fmt.Fprintln(w, "ERR\t"+ts)
		}
		w.Flush()
	}
}

// c3Strip removes trailing commas (a comma directly before a closing token) and all parentheses.
func c3Strip(ts []string) []string {
	var a []string
	for i, t := range ts {
		if t == "," && i+1 < len(ts) && (ts[i+1] == ")" || ts[i+1] == "]" || ts[i+1] == "}") {
			continue
		}
		if t == "(" || t == ")" {
			continue
		}
		a = append(a, t)
	}
	return a
}

// c3LetConstSuspect: the token list has a `let` whose value is a single (parenthesised) number, string
// or identifier that may be a constant — the parser substitutes such lets, the AST has no let node.
func c3LetConstSuspect(ts []string) bool {
	klet, eq := "k:"+cps("let"), "o:"+cps("=")
	maybeConst := map[string]bool{}
	for _, n := range c3PoolConsts {
		maybeConst["i:"+cps(n)] = true
	}
	for i, t := range ts {
		if t == klet && i+1 < len(ts) && strings.HasPrefix(ts[i+1], "i:") {
			maybeConst[ts[i+1]] = true
		}
	}
	for i, t := range ts {
		if t != klet || i+2 >= len(ts) || !strings.HasPrefix(ts[i+1], "i:") || ts[i+2] != eq {
			continue
		}
		j := i + 3
		for j < len(ts) && ts[j] == "(" {
			j++
		}
		if j >= len(ts) {
			continue
		}
		if !(strings.HasPrefix(ts[j], "n:") || strings.HasPrefix(ts[j], "s:") || maybeConst[ts[j]]) {
			continue
		}
		j++
		for j < len(ts) && ts[j] == ")" {
			j++
		}
		if j < len(ts) && ts[j] == ";" {
			return true
		}
	}
	return false
}

// malformedCheck: the predicates of stream 2 on one answered case (head = "OK <dump>" | "ERR" | "PANIC <hex>" | "CRASH")
func (h *c3H) malformedCheck(tab *c3Table, text, head, toks, kind string, tok c3Tok, bracket bool, intendedToks string) {
	c := h.c
	rep := func(extra map[string]any) map[string]any {
		m := map[string]any{"mutation": kind, "token": tok.model(), "bracket": bracket, "impl": head, "tokens": toks}
		for k, v := range extra {
			m[k] = v
		}
		return h.replay(tab, "malformed", text, m)
	}
	if intendedToks != "" && toks != intendedToks && !strings.HasPrefix(head, "CRASH") {
		c.Violation("detector:mutant", "blank separated text is not scanned as the token list it was written from", rep(map[string]any{"intended_tokens": intendedToks}))
	}
	switch {
	case strings.HasPrefix(head, "CRASH"):
		c.Count("mal.outcome=crash")
		c.Violation("panic:fatal", "the parser killed or hung its process", rep(nil))
		return
	case strings.HasPrefix(head, "PANIC"):
		c.Count("mal.outcome=panic")
		msg := ""
		if b, err := hex.DecodeString(strings.TrimPrefix(head, "PANIC ")); err == nil {
			msg = string(b)
		}
		c.Violation(h.panicSig(tab), "Parse panicked on a malformed program: "+msg, rep(map[string]any{"panic": msg}))
		h.panicAsk(tab, toks)
		return
	case head == "ERR":
		c.Count("mal.outcome=error")
		if bracket {
			c.Count("mal.unbalanced-rejected")
		}
	case strings.HasPrefix(head, "OK "):
		c.Count("mal.outcome=accepted")
		if bracket {
			c.Violation("unbalanced-accepted:"+string(tok.K), "a program with one bracket token deleted/inserted is accepted", rep(nil))
		}
	default:
		c.Broken("corr:WORKER", "unexpected worker answer", rep(nil))
		return
	}
	h.ask(h.parseReq("0", tab, toks), func(resp string) {
		held := true
		if head != "ERR" {
			// accepted: the tokens must be a rendering of the returned AST
			ts := strings.Fields(toks)
			if c3LetConstSuspect(ts) {
				c.Count("sound-check-skipped")
			} else if e, ok := c3ParseDump(strings.TrimPrefix(head, "OK ")); !ok {
				c.Broken("corr:DUMP", "the AST dump of the implementation is not a tree", rep(nil))
			} else {
				want := c3Strip(strings.Fields(c3ToksModel(tab.render(c3DecoMin, e))))
				got := c3Strip(ts)
				c.Count("sound-check-done")
				if strings.Join(want, " ") != strings.Join(got, " ") {
					held = false
					c.Violation("accepted-not-a-rendering:"+kind, "an accepted mutant is not a rendering of the returned AST (tokens dropped, regrouped or reordered)",
						rep(map[string]any{"min_rendering_of_ast": strings.Join(want, " "), "model": resp}))
				}
			}
		}
		if resp != head {
			c.disagree++
			if held && !(bracket && head != "ERR") {
				c.Broken("corr:PARSE", "model and parser differ on a mutated program", rep(map[string]any{"model": resp}))
			}
		}
	})
}

func (h *c3H) malformed(total int, deadline time.Time) {
	c := h.c
	rng := c.rng
	if len(h.progs) == 0 {
		return
	}
	perm := rng.Perm(len(h.progs))
	done := 0
	var batch []c3Mut
	run := func() {
		if len(batch) == 0 {
			return
		}
		lines := make([]string, len(batch))
		texts := make([]string, len(batch))
		for i := range batch {
			texts[i] = batch[i].prog.tab.text(batch[i].toks, nil, false)
			lines[i] = batch[i].line(texts[i])
		}
		resp := c3RunWorker(lines)
		for i := range batch {
			m := &batch[i]
			f := strings.SplitN(resp[i], "\t", 2)
			toks := ""
			if len(f) > 1 {
				toks = f[1]
			}
			c.Case(m.prog.tab.opsField()+"|"+m.prog.tab.unaryField()+"|"+texts[i], m.prog.nontriv)
			c.Count("stream=malformed")
			c.Count("mal.kind=" + m.kind)
			if m.bracket {
				c.Count("mal.bracket-mutations")
			}
			h.malformedCheck(m.prog.tab, texts[i], f[0], toks, m.kind, m.tok, m.bracket, c3ToksModel(m.toks))
		}
		h.flush()
		batch = nil
	}
	for _, pi := range perm {
		if done >= total {
			break
		}
		if time.Now().After(deadline) { // safety net only; sizes are chosen so that it is not reached
			c.Count("mal.safety-deadline-hit")
			break
		}
		pr := &h.progs[pi]
		ms := c3Mutants(rng, pr)
		c.Count("mal.programs")
		c.Count("mal.source-rendering=" + pr.rend)
		batch = append(batch, ms...)
		done += len(ms)
		if len(batch) >= 20000 {
			run()
		}
	}
	run()
}

// ---- stream 3: NUL rune ------------------------------------------------------------------------------

func (h *c3H) nulStream(n int) {
	c := h.c
	rng := c.rng
	if len(h.progs) == 0 {
		return
	}
	garbage := []string{" ) ) ((( x", " garbage (((", " ] + ", " 1 2 3", ""}
	for i := 0; i < n; i++ {
		pr := &h.progs[rng.Intn(len(h.progs))]
		cut := len(pr.toks)
		if rng.Intn(2) == 0 {
			cut = 1 + rng.Intn(len(pr.toks))
		}
		g := garbage[rng.Intn(len(garbage))]
		prefix := pr.tab.text(pr.toks[:cut], nil, false)
		text := prefix + " \x00" + g
		if cut < len(pr.toks) {
			text += " " + pr.tab.text(pr.toks[cut:], nil, false)
		}
		p := pr.tab.newParser()
		c.Case(pr.tab.opsField()+"|"+pr.tab.unaryField()+"|"+text, pr.nontriv)
		c.Count("stream=nul")
		real, pan := c3Tokens(p, text)
		if pan == "" && c3ToksEq(real, pr.toks[:cut]) {
			c.Count("nul.tokenizer-stops-at-NUL=true")
		} else {
			c.Count("nul.tokenizer-stops-at-NUL=false")
		}
		impl := c3RunParse(p, h.ids, text)
		switch {
		case impl.panic != "":
			c.Count("nul.outcome=panic")
			c.Violation(h.panicSig(pr.tab), "Parse panicked: "+impl.panic, h.replay(pr.tab, "nul", text, map[string]any{"impl": impl.show()}))
		case impl.ok:
			c.Count("nul.outcome=accepted")
			c.Violation("nul-rune-is-eof", "text after a NUL rune is silently ignored (the property demands an error for trailing input)",
				h.replay(pr.tab, "nul", text, map[string]any{"impl": impl.show()}))
		default:
			c.Count("nul.outcome=error")
		}
	}
}

// ---- replay ---------------------------------------------------------------------------------------

func (h *c3H) replayFile(path string) {
	c := h.c
	data, err := os.ReadFile(path)
	if err != nil {
		fatal("replay: %v", err)
	}
	var r struct {
		Stream   string            `json:"stream"`
		Ops      []string          `json:"ops"`
		Unary    []string          `json:"unary"`
		Aliases  map[string]string `json:"aliases"`
		Route    int               `json:"route"`
		Text     string            `json:"text"`
		Intended string            `json:"intended"`
		Mutation string            `json:"mutation"`
		Token    string            `json:"token"`
		Bracket  bool              `json:"bracket"`
	}
	if err := json.Unmarshal(data, &r); err != nil {
		fatal("replay: %v", err)
	}
	tab := (&c3Table{Ops: r.Ops, Unary: r.Unary, Aliases: r.Aliases, Route: r.Route}).prepare()
	if tab.Aliases == nil {
		tab.Aliases = map[string]string{}
	}
	p := tab.newParser()
	c.Count("stream=replay")
	switch r.Stream {
	case "malformed":
		resp := c3RunWorker([]string{tab.opsField() + "\t" + tab.unaryField() + "\t" + tab.aliasField() + "\t" + cps(r.Text)})
		f := strings.SplitN(resp[0], "\t", 2)
		toks := ""
		if len(f) > 1 {
			toks = f[1]
		}
		tok := c3Tok{K: '?'}
		if len(r.Token) == 1 {
			tok = c3Tok{K: r.Token[0]}
		} else if len(r.Token) > 2 {
			tok = c3Tok{r.Token[0], fromCps(r.Token[2:])}
		}
		c.Case(tab.key()+"|"+r.Text, true)
		h.malformedCheck(tab, r.Text, f[0], toks, r.Mutation, tok, r.Bracket, "")
	case "nul":
		c.Case(tab.key()+"|"+r.Text, true)
		impl := c3RunParse(p, h.ids, r.Text)
		if impl.panic != "" {
			c.Violation(h.panicSig(tab), "Parse panicked: "+impl.panic, h.replay(tab, "nul", r.Text, map[string]any{"impl": impl.show()}))
		} else if impl.ok && strings.Contains(r.Text, "\x00") {
			c.Violation("nul-rune-is-eof", "text after a NUL rune is silently ignored", h.replay(tab, "nul", r.Text, map[string]any{"impl": impl.show()}))
		}
	default:
		toks, pan := c3Tokens(p, r.Text)
		if pan != "" {
			c.Violation("panic:tokenizer", pan, h.replay(tab, "valid", r.Text, nil))
			break
		}
		e, ok := c3ParseDump(r.Intended)
		if !ok {
			// no intended tree: the model's answer is the reference
			impl := c3RunParse(p, h.ids, r.Text)
			c.Case(tab.key()+"|"+r.Text, true)
			if impl.panic != "" {
				c.Violation(h.panicSig(tab), "Parse panicked: "+impl.panic, h.replay(tab, "valid", r.Text, map[string]any{"impl": impl.show()}))
			}
			h.ask(h.parseReq("0", tab, c3ToksModel(toks)), func(resp string) {
				want := "ERR"
				if impl.ok {
					want = "OK " + impl.dump
				}
				if impl.panic == "" && resp != want {
					c.Broken("corr:PARSE", "model and parser differ", h.replay(tab, "valid", r.Text, map[string]any{"impl": impl.show(), "model": resp}))
				}
			})
			break
		}
		h.validCase(tab, p, e, r.Intended, "replay", toks, r.Text, "replay", true)
	}
	h.flush()
}

// ---- entry ------------------------------------------------------------------------------------------

func init() {
	props["C03"] = runC03
	workers["c03"] = c3Worker
}

func runC03(c *Ctx) {
	c.rule = "stream 1: (operator table, well-formed tree, rendering min/full/random-redundant, spacing blank/tight) -> Parse must return exactly the tree (AST dump = tree dump) and agree with the Lean model on the real token stream; " +
		"stream 2: every single-token deletion/insertion of sampled valid token lists -> one bracket more or less must be an error, an accepted mutant must be a rendering of the returned AST, outcome = model; stream 3: NUL + garbage must be an error. " +
		"non-trivial = distinct case (ops|unary|text) whose (source) tree has >= 2 binary operators of different levels, or a prefix operator that is also binary, or a postfix form whose receiver is an operator expression, or an if/try/switch/closure as an operand"
	c.assume = append(c.assume,
		"no optimizer installed (C02 covers optimisation)",
		"total number parser (n -> \"N\"+n) and string converter installed",
		"Identifiers built from Add/AddConst/AddFunc only (no AddMap: C16)",
		"comfort mode and comments off; keywords let func if then else switch case default try catch",
		"the model works on the token stream of the real tokenizer (VerifTokens); the operator detector itself is checked only for blank separated operators")
	h := &c3H{c: c, ids: c3Idents(), scope: c3ScopeField()}
	if f := os.Getenv("VERIF_REPLAY"); f != "" {
		h.replayFile(f)
		return
	}
	t0 := time.Now()
	h.corpus()
	h.generatorRoutes()
	if len(c.BrokenObligs()) > 0 {
		h.targeted()
	}
	h.randomValid(c.Pick(1200, 7500), c.Pick(10, 14))
	h.flush()
	c.extra["wall_valid_stream_s"] = time.Since(t0).Seconds()
	t1 := time.Now()
	budget := time.Duration(c.Pick(45, 400)) * time.Second
	h.malformed(c.Pick(100000, 1500000), t1.Add(budget))
	h.flush()
	c.extra["wall_malformed_stream_s"] = time.Since(t1).Seconds()
	t2 := time.Now()
	h.nulStream(c.Pick(200, 2000))
	h.flush()
	c.extra["wall_nul_stream_s"] = time.Since(t2).Seconds()
	c.extra["sampled_programs_for_mutation"] = len(h.progs)
}
