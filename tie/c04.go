package main

// C04 — parsing is total: any input yields an AST or an error, never a panic or a hang.
// Inputs run in a watchdog worker process; a panic, a timeout or a dead worker is a violation.

import (
	"bufio"
	"encoding/hex"
	"fmt"
	"math/rand"
	"os"
	"os/exec"
	"path/filepath"
	"strconv"
	"strings"
	"sync"
	"time"

	"github.com/hneemann/parser2"
	"github.com/hneemann/parser2/example"
	"github.com/hneemann/parser2/funcGen"
	"github.com/hneemann/parser2/value"
)

func init() {
	props["C04"] = runC04
	workers["parse"] = workerParse
}

// configurations: id -> parse function returning "ok" / "err"
type parseCfg struct {
	name  string
	parse func(src string) error
}

func c04Configs() []parseCfg {
	vfg := value.New()
	vfgC := value.New()
	vfgC.GetParser().AllowComments()
	generic := func(ops []string, unary []string, kw []string, comments, comfort bool, text map[string]string) func(string) error {
		p := parser2.NewParser[float64]().
			SetNumberParser(parser2.NumberParserFunc[float64](func(n string) (float64, error) { return strconv.ParseFloat(n, 64) })).
			SetStringConverter(parser2.StringConverterFunc[float64](func(s string) float64 { return float64(len(s)) })).
			SetKeyWords(kw...).Comfort(comfort)
		p.Op(ops...)
		p.Unary(unary...)
		if comments {
			p.AllowComments()
		}
		if text != nil {
			p.TextOperator(text)
		}
		var ids parser2.Identifiers[float64]
		for _, n := range []string{"a", "b", "c", "x", "y", "f", "g", "abc", "e"} {
			ids = ids.Add(n)
		}
		return func(src string) error { _, err := p.Parse(src, ids); return err }
	}
	allKw := []string{"let", "func", "if", "then", "else", "switch", "case", "default", "try", "catch"}
	bp := example.VerifBoolParser()
	mp := example.VerifMinimal()
	return []parseCfg{
		{"value", func(src string) error { _, _, err := vfg.Generate(src, "a", "b"); return err }},
		{"value+comments", func(src string) error { _, _, err := vfgC.Generate(src, "a", "b"); return err }},
		{"value-map-mode", func(src string) error { _, _, err := vfg.GenerateWithMap(src, "m"); return err }},
		{"example-bool", func(src string) error { _, _, err := bp.Generate(src, "a", "b"); return err }},
		{"example-minimal(comfort)", func(src string) error { _, _, err := mp.Generate(src, "a", "b"); return err }},
		{"generic:+-*/^ unary- comments comfort", generic([]string{"+", "-", "*", "/", "^"}, []string{"-", "!"}, allKw, true, true, nil)},
		{"generic:prefix-ops < <= <=> = == unary<", generic([]string{"|", "&", "=", "==", "<", "<=", "<=>", "+"}, []string{"<", "!"}, allKw, false, false, map[string]string{"and": "&", "or": "|"})},
		{"generic:unary is highest binary", generic([]string{"+", "-"}, []string{"-"}, nil, false, false, nil)},
		{"generic:single op no keywords comments", generic([]string{"+"}, nil, nil, true, false, nil)},
	}
}

// workerParse: lines `id TAB cfg TAB hex(input)` -> `id TAB ok|err|PANIC msg TAB micros`
func workerParse(args []string) {
	cfgs := c04Configs()
	in := bufio.NewScanner(os.Stdin)
	in.Buffer(make([]byte, 1<<22), 1<<28)
	out := bufio.NewWriter(os.Stdout)
	defer out.Flush()
	for in.Scan() {
		f := strings.SplitN(in.Text(), "\t", 3)
		if len(f) != 3 {
			continue
		}
		ci, _ := strconv.Atoi(f[1])
		data, _ := hex.DecodeString(f[2])
		res := "ok"
		t0 := time.Now()
		func() {
			defer func() {
				if r := recover(); r != nil {
					res = fmt.Sprintf("PANIC %v", r)
				}
			}()
			if err := cfgs[ci%len(cfgs)].parse(string(data)); err != nil {
				res = "err"
			}
		}()
		fmt.Fprintf(out, "%s\t%s\t%d\n", f[0], strings.ReplaceAll(res, "\n", " "), time.Since(t0).Microseconds())
		out.Flush()
	}
}

var c04Slow bool // the retry pass: ten times the watchdog limit

type parseCase struct {
	id      string
	cfg     int
	input   []byte
	class   string
	result  string
	micros  int
	stderr  string
}

func runParseWorker(cases []*parseCase) {
	pending := cases
	for len(pending) > 0 {
		bin := filepath.Join(verifRoot, ".work/bin/tie")
		cmd := exec.Command(bin, "worker", "parse")
		cmd.Env = append(os.Environ(), "GOMEMLIMIT=3GiB")
		stdin, _ := cmd.StdinPipe()
		stdout, _ := cmd.StdoutPipe()
		var errb strings.Builder
		cmd.Stderr = &limitedWriter{b: &errb, max: 4000}
		if err := cmd.Start(); err != nil {
			fatal("cannot start parse worker: %v", err)
		}
		go func(p []*parseCase) {
			w := bufio.NewWriter(stdin)
			for _, pc := range p {
				fmt.Fprintf(w, "%s\t%d\t%s\n", pc.id, pc.cfg, hex.EncodeToString(pc.input))
			}
			w.Flush()
			stdin.Close()
		}(pending)
		lines := make(chan string, 64)
		go func() {
			sc := bufio.NewScanner(stdout)
			sc.Buffer(make([]byte, 1<<20), 1<<26)
			for sc.Scan() {
				lines <- sc.Text()
			}
			close(lines)
		}()
		done := 0
		dead := false
		for done < len(pending) && !dead {
			// watchdog proportional to the input length: 2 s + 1 ms per byte
			limit := 2*time.Second + time.Duration(len(pending[done].input))*time.Millisecond
			if c04Slow {
				limit *= 10
			}
			select {
			case l, ok := <-lines:
				if !ok {
					pending[done].result = "CRASH"
					pending[done].stderr = errb.String()
					dead = true
					break
				}
				f := strings.SplitN(l, "\t", 3)
				if len(f) == 3 && f[0] == pending[done].id {
					pending[done].result = f[1]
					pending[done].micros, _ = strconv.Atoi(f[2])
					done++
				}
			case <-time.After(limit):
				cmd.Process.Kill()
				pending[done].result = "TIMEOUT"
				dead = true
			}
		}
		cmd.Process.Kill()
		cmd.Wait()
		if dead {
			pending = pending[done+1:]
		} else {
			pending = nil
		}
	}
}

var c04Alphabet = []string{"a", "b", "x", "f", "1", "2.5", "1e3", "\"s\"", "'q i'", "(", ")", "[", "]", "{", "}", ",", ":", ";", ".", "+", "-", "*", "/", "^", "=", "<", "<=", "->", "!", "&", "|", "~",
	"let", "func", "if", "then", "else", "switch", "case", "default", "try", "catch", " ", "\n", "\t", "//c\n", "/*c*/", "/*", "*/", "\"", "'", "''", "\"\"", "\\", "²", "×", "•", "\x00", "\xff", "\xc3", "é", "€", "𝔘", "true", "pi"}

func c04Valid(r *rand.Rand) string {
	g := newProgGen(r)
	g.enterBody("a", "b")
	return g.stmt([]pty{pInt, pStr, pList, pBool}[r.Intn(4)], 2+r.Intn(4), []pbind{{"a", pInt}, {"b", pInt}})
}

// constant expressions whose evaluation fails, panics or does not end (folded while parsing)
var c04ConstFaults = []string{"1/0", "1%0", "[1][5]", "[1][0-1]", "(f->f(f))(f->f(f))", "(x->x(x))(x->x(x))", "throw(\"x\")", "{a:1}.b", "[1].first().x", "int(1e30)",
	"\"a\"<1", "[1,2].map(e->e/0).eval()", "[].first()", "[1,2].reduce((p,q)->p/0)", "numbers(3).map(e->1/0).size()", "min()", "list(0-1)", "[3,1].order(e->[1]).eval()",
	"sprintf(\"%d\")", "{f:x->this.f(x)}.f(1)", "\"abc\".cut(5,9)", "[1,2].combineN(0,w->w).eval()", "[1]+1", "!1", "0-\"a\"", "1(2)", "\"s\"(1)", "[1](2)", "{k:1}(1)",
	"sqr(1,2,3)", "sin()", "pi(1)", "true(1)", "1.5.x", "2^\"a\"", "1~2", "[1]~[[1]]", "{a:1}={a:\"b\"}", "nosuch(1)", "nosuch", "a.nosuch()", "1.nosuch(2)"}

var c04FaultContexts = []string{"@", "let q=@; 1", "let q=@; q", "func g(n) @; 1", "func g(n) n+@; g(1)", "func g(n) @; g(1)", "[@]", "{k:@}", "(y->@)", "(y->@)(1)", "if @ then 1 else 2",
	"if true then 1 else @", "try @ catch 1", "let q=try @ catch 2; q", "switch @ case 1: 1 default 2", "switch 1 case 1: @ default 2", "a+@", "[1,2].map(e->@)", "let h=(y->@); h(1)",
	"let q=[@]; let r={k:@}; 1", "func g(n) let z=@; z; 1", "let q=(let z=@; z); q", "sin(@)", "sqr(@)", "a(@)", "@(@)", "@.x", "@[0]", "let q=1; let q=@; q", "func f('') f + @; f(a)", "(''-> @)(1)", "let '' = @; ''"}

// c04CalleeSoup: syntactically plausible programs whose callee, receiver or argument list the generator
// cannot compile: an atom followed by postfix forms
func c04CalleeSoup(r *rand.Rand) string {
	atoms := []string{"1", "1.5", "\"s\"", "[1]", "[]", "{k:a}", "{k:1}", "{}", "a", "b", "nosuch", "sin", "sqr", "sqrt", "abs", "min", "list", "string", "throw", "sprintf", "pi", "true", "false",
		"(x->x)", "((x,y)->x)", "(x->y->x)", "(a)", "(1)", "-a", "!a", "if a then sin else sqr", "try a catch 1", "e", "this", "let z=1; z",
		"''", "(''->sin)", "(''->''+a)", "(('', x)->abs)", "[1,2].map(''->abs)", "{'':1}", "{'':sin}"}
	pick := func(l []string) string { return l[r.Intn(len(l))] }
	var b strings.Builder
	b.WriteString(pick(atoms))
	for k := 0; k < 1+r.Intn(3); k++ {
		switch r.Intn(5) {
		case 0, 1:
			n := r.Intn(4)
			b.WriteString("(")
			for i := 0; i < n; i++ {
				if i > 0 {
					b.WriteString(",")
				}
				b.WriteString(pick(atoms))
			}
			b.WriteString(")")
		case 2:
			b.WriteString("[" + pick(atoms) + "]")
		case 3:
			b.WriteString("." + pick([]string{"x", "k", "size", "map", "nosuch", "sin"}))
		default:
			n := r.Intn(3)
			b.WriteString("." + pick([]string{"map", "size", "nosuch", "k", "string", "reduce"}) + "(")
			for i := 0; i < n; i++ {
				if i > 0 {
					b.WriteString(",")
				}
				b.WriteString(pick(atoms))
			}
			b.WriteString(")")
		}
	}
	return b.String()
}

func c04Mutate(r *rand.Rand, s string) string {
	b := []byte(s)
	if len(b) == 0 {
		return s
	}
	for k := 0; k < 1+r.Intn(3); k++ {
		i := r.Intn(len(b))
		switch r.Intn(6) {
		case 0: // delete a span
			j := i + r.Intn(5)
			if j > len(b) {
				j = len(b)
			}
			b = append(b[:i:i], b[j:]...)
		case 1: // insert alphabet piece
			p := c04Alphabet[r.Intn(len(c04Alphabet))]
			b = append(b[:i:i], append([]byte(p), b[i:]...)...)
		case 2: // duplicate a span
			j := i + r.Intn(8)
			if j > len(b) {
				j = len(b)
			}
			b = append(b[:j:j], append(append([]byte{}, b[i:j]...), b[j:]...)...)
		case 3: // swap two bytes
			j := r.Intn(len(b))
			b[i], b[j] = b[j], b[i]
		case 4: // truncate
			b = b[:i]
		default: // random byte
			b[i] = byte(r.Intn(256))
		}
		if len(b) == 0 {
			break
		}
	}
	return string(b)
}

func runC04(c *Ctx) {
	c.rule = "byte strings up to 64 KiB: random bytes, token soups over the language alphabet (incl. comment openers, quotes, aliases, NUL, invalid UTF-8), mutations (delete/insert/duplicate/swap/truncate/random byte) of generated valid programs, unterminated strings/comments/quoted identifiers at end of input, deep nesting up to 30000 (also on error paths: 9 shapes in which every level handles the error of the level below), well-formed programs whose constant sub-expressions fail while being folded inside Parse (42 fault sources x 29 contexts) and programs whose callee/receiver/arguments the generator cannot compile (Generate error paths), x 9 configurations (value generator with and without comments and in map mode, the bool and the comfort-mode float example, four generic parsers incl. a unary operator that is the highest binary operator, prefix-overlapping multi-character operators, text operators); each input runs in a watchdog worker (2 s + 1 ms/byte; a case on which it fires runs again alone with ten times that); a panic, timeout or dead worker is a violation; non-trivial = distinct (configuration, input) with at least 3 bytes"
	c.assume = append(c.assume, "wall-clock linearity, Go stack growth on deep nesting and goroutine scheduling are runtime behaviour observed by the watchdog")
	n := c.Pick(24000, 600000)
	big := c.Pick(60, 800)
	ncfg := len(c04Configs())
	var cases []*parseCase
	add := func(class string, input string) {
		if len(input) > 65536 {
			input = input[:65536]
		}
		cases = append(cases, &parseCase{id: itoa(len(cases)), cfg: c.rng.Intn(ncfg), input: []byte(input), class: class})
	}
	// corpus: every configuration sees these
	corpus := []string{"-a", "- - a", "a -", "1 + + 2 3", "1 + 2 \x00 garbage (((", "\"abc", "'abc", "/* abc", "1 /*a*//*b*/ + 2", "1 +/*a*/ 2", "//", "/", "/*", "*/", "a /", "a /*", "((((", "))))", "[", "{a:", "let", "let x", "let x =", "func f(", "if a then", "switch a case", "try a", "a.", "a.b(", "a[", "\xff\xfe", "a\xc3", "<", "<=", "<=>", "< a", "1e", "1e+", "1.2.3", "²", "a²³", "2a", "2(a)", "(a)(b)", "a b", "", " ", "\n\n\n", "a->", "(a,b)->", "(a,)", "f(a,)", "{a:1,}", "[1,]", "a ~", "!", "!!a", "pi", "true", "x and y", "and", "a == b", "a = = b"}
	for ci := 0; ci < ncfg; ci++ {
		for _, s := range corpus {
			cases = append(cases, &parseCase{id: itoa(len(cases)), cfg: ci, input: []byte(s), class: "corpus"})
		}
	}
	// well-formed text whose trouble is semantic: constant sub-expressions whose folding fails while Parse runs
	// (the optimizer is called from inside the parser for let values and func bodies), and callees/arguments
	// the generator cannot compile (the error paths of Generate); every configuration sees these
	for _, f := range c04ConstFaults {
		for _, ctx := range c04FaultContexts {
			src := strings.ReplaceAll(ctx, "@", f)
			for ci := 0; ci < ncfg; ci++ {
				cases = append(cases, &parseCase{id: itoa(len(cases)), cfg: ci, input: []byte(src), class: "const-fault"})
			}
		}
	}
	// constant arithmetic on boundary operands (folded while parsing: a loop that does not end there hangs Parse)
	{
		bounds := []string{"0", "1", "2", "(0 - 1)", "(0 - 2)", "63", "64", "(0 - 63)", "(0 - 64)", "9223372036854775807", "(0 - 9223372036854775807 - 1)", "0.5", "(0 - 0.5)", "1e308", "(1.0 / 0.0)", "1e-320", "3.0"}
		opsB := []string{"^", "<<", ">>", "%", "/", "*", "+", "-", "=", "<", "~"}
		for _, op := range opsB {
			for _, x := range bounds {
				for _, y := range bounds {
					src := x + " " + op + " " + y
					for _, ci := range []int{0, 4} { // the value generator and the comfort-mode float example
						cases = append(cases, &parseCase{id: itoa(len(cases)), cfg: ci, input: []byte(src), class: "const-arith"})
					}
				}
			}
		}
		for _, fn := range []string{"sqrt", "abs", "ln", "exp", "int", "float", "sin", "list", "numbers", "string", "sqr", "round", "floor", "ceil"} {
			for _, x := range bounds {
				cases = append(cases, &parseCase{id: itoa(len(cases)), cfg: 0, input: []byte(fn + "(" + x + ")"), class: "const-arith"})
				cases = append(cases, &parseCase{id: itoa(len(cases)), cfg: 0, input: []byte("let q = " + fn + "(" + x + "); q"), class: "const-arith"})
			}
		}
	}
	for i := 0; i < n/6; i++ {
		src := c04CalleeSoup(c.rng)
		if c.rng.Intn(3) == 0 {
			src = strings.ReplaceAll(c04FaultContexts[c.rng.Intn(len(c04FaultContexts))], "@", src)
		}
		ci := c.rng.Intn(ncfg)
		if i < 40*ncfg {
			ci = i % ncfg
		}
		cases = append(cases, &parseCase{id: itoa(len(cases)), cfg: ci, input: []byte(src), class: "generate-error"})
	}
	for i := 0; i < n; i++ {
		switch c.rng.Intn(8) {
		case 0:
			k := c.rng.Intn(40)
			b := make([]byte, k)
			c.rng.Read(b)
			add("random-bytes", string(b))
		case 1, 2:
			k := 1 + c.rng.Intn(30)
			var sb strings.Builder
			for j := 0; j < k; j++ {
				sb.WriteString(c04Alphabet[c.rng.Intn(len(c04Alphabet))])
				if c.rng.Intn(3) == 0 {
					sb.WriteByte(' ')
				}
			}
			add("token-soup", sb.String())
		case 3:
			add("valid", c04Valid(c.rng))
		case 4, 5, 6:
			add("mutation", c04Mutate(c.rng, c04Valid(c.rng)))
		default:
			v := c04Valid(c.rng)
			add("unterminated", v+[]string{" + \"abc", " + 'abc", " /* abc", " // abc", " + \"abc\\", " /* abc *"}[c.rng.Intn(6)])
		}
	}
	// two listed findings (see known_findings.json): constant folding runs the program's own computation inside Parse
	cases = append(cases, &parseCase{id: itoa(len(cases)), cfg: 0, input: []byte("numbers(30000000000).map(e->e+1).sum()"), class: "const-fold-unbounded-computation"})
	cases = append(cases, &parseCase{id: itoa(len(cases)), cfg: 0, input: []byte("(f->[1].map(x->f(f))[0])(f->[1].map(x->f(f))[0])"), class: "const-fold-recursion-through-fresh-stacks"})
	for _, d := range []int{2000, 20000} {
		for _, src := range []string{"(x->let y=x;let y=x;y)" + strings.Repeat("(1)", d), strings.Repeat("sin(", d) + "nosuch" + strings.Repeat(")", d), "nosuch" + strings.Repeat(".a", d),
			strings.Repeat("[", d) + "nosuch(1)" + strings.Repeat("]", d), "nosuch" + strings.Repeat("(1)", d), strings.Repeat("x->", d/4) + "nosuch(x)",
			strings.Repeat("{k:", d/2) + "nosuch" + strings.Repeat("}", d/2), strings.Repeat("if nosuch then 1 else ", d/8) + "2", strings.Repeat("try ", d/4) + "nosuch" + strings.Repeat(" catch 1", d/4)} {
			for _, ci := range []int{0, 4} {
				in := src
				if len(in) > 65536 {
					in = in[:65536]
				}
				cases = append(cases, &parseCase{id: itoa(len(cases)), cfg: ci, input: []byte(in), class: "deep-error-nest"})
			}
		}
	}
	for i := 0; i < big; i++ {
		switch c.rng.Intn(8) {
		case 0:
			d := []int{1000, 5000, 30000}[c.rng.Intn(3)]
			add("deep-parens", strings.Repeat("(", d)+"a"+strings.Repeat(")", d))
		case 1:
			d := []int{1000, 5000, 30000}[c.rng.Intn(3)]
			add("deep-open-only", strings.Repeat([]string{"(", "[", "{a:", "-", "!", "f(", "if a then "}[c.rng.Intn(7)], d))
		case 2:
			add("long-chain", "a"+strings.Repeat(" + a * b", 8000))
		case 3:
			b := make([]byte, 65536)
			c.rng.Read(b)
			add("random-64k", string(b))
		case 4:
			var sb strings.Builder
			for sb.Len() < 65000 {
				sb.WriteString(c04Alphabet[c.rng.Intn(len(c04Alphabet))])
			}
			add("soup-64k", sb.String())
		case 5:
			// deep nesting on an ERROR path: every level handles (wraps, documents, re-generates) the error of the level below
			d := []int{500, 2000, 8000, 20000}[c.rng.Intn(4)]
			switch c.rng.Intn(6) {
			case 0:
				add("deep-error-nest", "(x->let y=x;let y=x;y)"+strings.Repeat("(1)", d))
			case 1:
				add("deep-error-nest", strings.Repeat("sin(", d)+"nosuch"+strings.Repeat(")", d))
			case 2:
				add("deep-error-nest", "nosuch"+strings.Repeat(".a", d))
			case 3:
				add("deep-error-nest", strings.Repeat("[", d)+"nosuch(1)"+strings.Repeat("]", d))
			case 4:
				add("deep-error-nest", "nosuch"+strings.Repeat("(1)", d))
			default:
				add("deep-error-nest", strings.Repeat("x->", d/4)+"nosuch(x)")
			}
		case 6:
			add("long-string", "\""+strings.Repeat("x\\n", 20000))
		default:
			add("long-comment", "1 /*"+strings.Repeat("* /", 20000))
		}
	}
	// run in 14 workers
	nw := 14
	var wg sync.WaitGroup
	for w := 0; w < nw; w++ {
		var part []*parseCase
		for i := w; i < len(cases); i += nw {
			part = append(part, cases[i])
		}
		wg.Add(1)
		go func(p []*parseCase) { defer wg.Done(); runParseWorker(p) }(part)
	}
	wg.Wait()
	// a watchdog that fired may only mean that the machine was busy: such a case runs again, alone, with ten times the limit
	var again []*parseCase
	for _, pc := range cases {
		if pc.result == "TIMEOUT" {
			pc.result = ""
			again = append(again, pc)
		}
	}
	confirmed := map[string]int{} // retried cases of a class that hung again: after two the rest of the class is not waited for
	for _, pc := range again {
		if confirmed[pc.class] >= 2 {
			pc.result = "TIMEOUT"
			continue
		}
		c.Count("watchdog-retry")
		c04Slow = true
		runParseWorker([]*parseCase{pc})
		c04Slow = false
		if pc.result == "TIMEOUT" {
			confirmed[pc.class]++
		}
	}
	cfgs := c04Configs()
	maxRate := 0.0
	for _, pc := range cases {
		c.Case(fmt.Sprintf("%d|%x", pc.cfg, pc.input), len(pc.input) >= 3)
		c.Count("class=" + pc.class)
		c.Count("result=" + strings.SplitN(pc.result, " ", 2)[0])
		if len(pc.input) >= 4096 && pc.micros > 0 {
			r := float64(pc.micros) / float64(len(pc.input))
			if r > maxRate {
				maxRate = r
			}
		}
		if len(c.samples) < 6 && (pc.class == "mutation" || pc.class == "token-soup") {
			c.Sample(map[string]any{"config": cfgs[pc.cfg].name, "class": pc.class, "input": string(pc.input), "result": pc.result})
		}
		replay := map[string]any{"config": cfgs[pc.cfg].name, "config_index": pc.cfg, "class": pc.class, "input_hex": hex.EncodeToString(pc.input), "result": pc.result}
		if len(pc.input) < 400 {
			replay["input"] = string(pc.input)
		}
		if pc.stderr != "" {
			replay["stderr_head"] = firstLines(pc.stderr, 15)
		}
		switch {
		case strings.HasPrefix(pc.result, "PANIC"):
			c.Violation(c04Signature(pc, cfgs), "Parse/Generate panicked", replay)
		case pc.result == "TIMEOUT":
			c.Violation("hang:"+pc.class, "Parse/Generate did not return within the watchdog", replay)
		case pc.result == "CRASH" || pc.result == "":
			c.Violation("crash:"+pc.class, "the worker died in Parse/Generate", replay)
		}
	}
	c.extra["max_microseconds_per_byte_on_inputs_over_4KiB"] = maxRate
}

func c04Signature(pc *parseCase, cfgs []parseCfg) string {
	if strings.Contains(cfgs[pc.cfg].name, "unary is highest binary") && strings.Contains(pc.result, "index out of range") {
		return "unary-is-highest-binary-operator"
	}
	return "panic:" + cfgs[pc.cfg].name
}

var _ = funcGen.NewEmptyStack[value.Value]
