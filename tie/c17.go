package main

// C17 — JSON export: property predicate on the implementation (standard parser reads back the
// source value) and correspondence with the Lean model (exporter bytes = model bytes).

import (
	"encoding/json"
	"fmt"
	"sort"
	"strings"
	"unicode/utf8"

	"github.com/hneemann/parser2/funcGen"
	"github.com/hneemann/parser2/value"
	"github.com/hneemann/parser2/value/export"
)

func init() { props["C17"] = runC17 }

func exportJSON(v value.Value) ([]byte, error) {
	ex := export.JSON()
	err := export.Export(funcGen.NewEmptyStack[value.Value](), v, ex)
	return ex.Result(), err
}

// sameAsDecoded: the property's own predicate — the decoded document has the structure of the source.
func sameAsDecoded(t *VT, d any) string {
	switch t.Kind {
	case 'L':
		l, ok := d.([]any)
		if !ok {
			return "list did not decode to an array"
		}
		if len(l) != len(t.Items) {
			return "array length differs"
		}
		for i := range l {
			if m := sameAsDecoded(t.Items[i], l[i]); m != "" {
				return m
			}
		}
		return ""
	case 'M':
		m, ok := d.(map[string]any)
		if !ok {
			return "map did not decode to an object"
		}
		if len(m) != len(t.Keys) {
			return "object key set differs (size)"
		}
		for i, k := range t.Keys {
			dv, ok := m[k]
			if !ok {
				return fmt.Sprintf("key %q missing after decoding", k)
			}
			if msg := sameAsDecoded(t.Items[i], dv); msg != "" {
				return msg
			}
		}
		return ""
	default:
		s, ok := d.(string)
		if !ok {
			return "scalar did not decode to a string"
		}
		if s != t.Scalar() {
			return fmt.Sprintf("scalar text changed: %q became %q", t.Scalar(), s)
		}
		return ""
	}
}

// observedSame: the decoded document against the structure the OBSERVERS of the value show (lists by Iterate, maps by Iter,
// scalars by ToString) - for values built by the library, whose map representations are not those of the value trees
func observedSame(v value.Value, d any) string {
	st := funcGen.NewEmptyStack[value.Value]()
	if l, ok := v.ToList(); ok {
		arr, isArr := d.([]any)
		if !isArr {
			return "list did not decode to an array"
		}
		i := 0
		for it, err := range l.Iterate(st) {
			if err != nil {
				return "list fails: " + err.Error()
			}
			if i >= len(arr) {
				return "array shorter than the list"
			}
			if m := observedSame(it, arr[i]); m != "" {
				return m
			}
			i++
		}
		if i != len(arr) {
			return "array longer than the list"
		}
		return ""
	}
	if m, ok := v.ToMap(); ok {
		obj, isObj := d.(map[string]any)
		if !isObj {
			return "map did not decode to an object"
		}
		n := 0
		msg := ""
		m.Iter(func(k string, mv value.Value) bool {
			n++
			dv, has := obj[k]
			if !has {
				msg = fmt.Sprintf("key %q (shown by Iter) missing after decoding", k)
				return false
			}
			if x := observedSame(mv, dv); x != "" {
				msg = x
				return false
			}
			return true
		})
		if msg != "" {
			return msg
		}
		if n != len(obj) {
			return fmt.Sprintf("object has %d keys, Iter shows %d", len(obj), n)
		}
		return ""
	}
	want, err := v.ToString(st)
	if err != nil {
		return "scalar has no text: " + err.Error()
	}
	got, isStr := d.(string)
	if !isStr {
		return "scalar did not decode to a string"
	}
	if got != want {
		return fmt.Sprintf("scalar text changed: %q became %q", want, got)
	}
	return ""
}

// c17LibraryValues: values built by the library itself (binnings with their bin descriptions, groups, minMax, windows,
// regression and interpolation results where they are data), exported and decoded
func c17LibraryValues(c *Ctx) {
	fg := value.New()
	for _, src := range []string{
		"[0.5, 1.5, 2.5, 0 - 3].binning(0, 1, 3, x -> x, x -> 1)", "[0.5, 1.5, 2.5].binning(1, 1, 1, x -> x, x -> 1).descr", "[[0.5, 0.5], [1.5, 2.5]].binning2d(0, 1, 2, 0, 1, 3, x -> x[0], x -> x[1], x -> 1)",
		"[[0.5, 0.5], [1.5, 2.5]].binning2d(0, 1, 2, 0, 1, 3, x -> x[0], x -> x[1], x -> 1).values", "[3, 1, 2].minMax(e -> e)", "[1, 2, 3, 4].groupByInt(e -> e % 2)", "[\"a\", \"bb\", \"c\"].groupByString(e -> e.len().string())",
		"[1, 2, 3, 4].movingWindow(e -> e)", "numbers(5).combineN(2, w -> w)", "[1, 2, 3].multiUse({s: l -> l.sum(), m: l -> l.map(e -> e * 2)})", "{a: 1}.put(\"b\", [1, {c: 2}]).list()", "{a: 1, b: 2}.list()",
		"[{a: 1}, {a: 2}].map(e -> e.put(\"z\", e.a))", "[1, 2, 3].number((i, e) -> {idx: i, val: e})", "[1, 2, 3].fsm((s, e) -> goto(s.state + e))", "{a: 1} + {b: {c: [1, 2]}}", "{a: 1, b: 2}.replace(m -> {a: 5})",
		"[[0.5].binning(0, 1, 2, x -> x, x -> 1), [1.5].binning(0, 1, 2, x -> x, x -> 1)].collectBinning()", "[1, 5, 2].order(e -> e).map(e -> {v: e})", "\"a,b;c\".split(\",\")"} {
		f, _, err := fg.Generate(src)
		if err != nil {
			fatal("C17 library values: %q: %v", src, err)
		}
		v, err := f.Eval()
		if err != nil {
			fatal("C17 library values: %q: %v", src, err)
		}
		c.Case("library-value|"+src, true)
		c.Count("library-value")
		out, err := exportJSON(v)
		rp := map[string]any{"program": src, "exported": string(out)}
		var d any
		switch {
		case err != nil:
			c.Violation("json-export-error", "exporter returned an error for an error-free value: "+err.Error(), rp)
		case !utf8.Valid(out):
			c.Violation("json-invalid-utf8", "exported document is not valid UTF-8", rp)
		case json.Unmarshal(out, &d) != nil:
			c.Violation("json-invalid", "standard parser rejects the exported document", rp)
		default:
			if msg := observedSame(v, d); msg != "" {
				c.Violation("json-differs-from-observers", "the decoded document is not what Iterate / Iter / ToString show: "+msg, rp)
			}
		}
	}
}

func jsonSignature(out []byte, msg string) string {
	// classifier: which character class broke the document
	s := string(out)
	switch {
	case strings.Contains(s, "\\") && !json.Valid(out):
		return "json-invalid"
	case !json.Valid(out):
		return "json-invalid"
	default:
		return "json-text-changed"
	}
}

func runC17(c *Ctx) {
	c.rule = "value trees (depth<=5; eager/lazy/appended lists; maps as literal, put chain, merge, hash map, evaluated; ints, floats, bools, strings and keys over all Unicode scalar values with a pool of markup/control/boundary code points) exported by the real exporter, decoded by encoding/json and compared with the source (property predicate), and byte-compared with the Lean model's exportDoc; non-trivial = distinct tree containing at least one container and one string/key with a character outside [A-Za-z0-9]"
	c.assume = append(c.assume, "scalar-to-string conversion (ToString: strconv) is an oracle supplied by the harness", "encoding/json is the 'standard JSON parser' of the property; the Lean reference decoder P2.Json.decodeDoc is what the theorems use")
	n := c.Pick(20000, 600000)

	// targeted search material when the table obligation is broken: every single code point
	broken := len(c.BrokenObligs()) > 0
	var trees []*VT
	strGen := func() string { return genString(c.rng, true) }
	// corpus first: past failures
	for _, s := range []string{"a\\b", "\x01", "\"", "\\\"", " ", "\x7f", "\x00", "\\u0041", "\\", "a\\"} {
		trees = append(trees, &VT{Kind: 'L', Items: []*VT{{Kind: 's', S: s}}})
		trees = append(trees, &VT{Kind: 'M', Keys: []string{s}, Items: []*VT{{Kind: 's', S: "v"}}})
	}
	if broken {
		for r := rune(0); r < 0x3000; r++ {
			if r >= 0xD800 && r <= 0xDFFF {
				continue
			}
			trees = append(trees, &VT{Kind: 's', S: "x" + string(r) + "y"})
		}
		for _, r := range []rune{0xfffd, 0xffff, 0x10000, 0x1f600, 0x2fffe, 0xe0001, 0x10ffff} {
			trees = append(trees, &VT{Kind: 's', S: "x" + string(r) + "y"})
			trees = append(trees, &VT{Kind: 'M', Keys: []string{string(r)}, Items: []*VT{{Kind: 's', S: "v"}}})
		}
	}
	// position sweep: every class of character that needs an escape (or is copied as a multi-byte sequence) at every byte offset
	// 0..320 of a long string and of a long key, behind fillers of 1-, 2-, 3- and 4-byte runes. A writer that works in chunks (a
	// buffer of 64 bytes, a flush threshold) treats a character differently depending on where it falls (round-5 seed C17-14:
	// a 6-byte \u00XX escape cut off at offset 59/60 of a 64-byte chunk); the random strings are far shorter than that.
	{
		special := []string{"\x01", "\x1f", "\"", "\\", "\n", "\t", "\x7f", "é", "€", "\U0001F600", "\u2028", "<"}
		fillers := []string{"a", "é", "€", "\U00010000"}
		for off := 0; off <= 320; off++ {
			sp := special[off%len(special)]
			for fi, fill := range fillers {
				if fi > 0 && off%4 != fi {
					continue // the multi-byte fillers shift the offsets: a quarter of the positions each
				}
				pre := strings.Repeat(fill, off/len(fill)) + strings.Repeat("a", off%len(fill))
				for si := 0; si < 3; si++ { // three different specials per offset
					sp = special[(off+si*5)%len(special)]
					str := pre + sp + "tail" + sp
					trees = append(trees, &VT{Kind: 'L', Items: []*VT{{Kind: 's', S: str}}})
					if si == 0 {
						trees = append(trees, &VT{Kind: 'M', Keys: []string{str}, Items: []*VT{{Kind: 's', S: str}}})
					}
				}
			}
		}
	}
	for i := 0; i < n; i++ {
		trees = append(trees, genVT(c.rng, 1+c.rng.Intn(5), strGen))
	}
	c17LibraryValues(c)

	var reqs []string
	var outs [][]byte
	var kept []*VT
	for _, t := range trees {
		v := t.Build()
		out, err := exportJSON(v)
		if err != nil {
			c.Violation("json-export-error", "exporter returned an error for an error-free value", map[string]any{"value": tokensOf(t), "error": err.Error()})
			continue
		}
		nontriv := t.Depth() >= 1 && hasOddChar(t)
		c.Case(tokensOf(t), nontriv)
		c.Count(fmt.Sprintf("depth=%d", t.Depth()))
		c.Count("root=" + string(t.Kind))
		if len(c.samples) < 4 && nontriv {
			c.Sample(map[string]any{"tree": tokensOf(t), "exported": string(out)})
		}
		// property predicate on the implementation
		var d any
		if !utf8.Valid(out) {
			c.Violation("json-invalid-utf8", "exported document is not valid UTF-8", map[string]any{"value": tokensOf(t), "exported_hex": hexs(string(out))})
		} else if err := json.Unmarshal(out, &d); err != nil {
			c.Violation("json-invalid", "standard parser rejects the exported document: "+err.Error(), map[string]any{"value": tokensOf(t), "exported": string(out)})
		} else if msg := sameAsDecoded(t, d); msg != "" {
			c.Violation("json-text-changed", msg, map[string]any{"value": tokensOf(t), "exported": string(out)})
		}
		// the same tree with every lazy list backed by a stream (one traversal only): the exporter evaluates a list once
		if strings.Contains(tokensOf(t), "L ") {
			vtOneShot = true
			v1 := t.Build()
			vtOneShot = false
			out1, err1 := exportJSON(v1)
			c.Count("one-shot-lazy-lists")
			if err1 != nil || string(out1) != string(out) {
				c.Violation("json-list-traversed-twice", "a lazy list that can be traversed only once is not exported like the same list held in memory",
					map[string]any{"value": tokensOf(t), "exported": string(out), "exported_one_shot": string(out1), "error": fmt.Sprint(err1)})
			}
		}
		reqs = append(reqs, "JSON\t"+tokensOf(t))
		outs = append(outs, out)
		kept = append(kept, t)
	}
	// correspondence: model bytes = implementation bytes
	resp := c.Model(reqs)
	for i, r := range resp {
		f := strings.Split(r, "\t")
		if len(f) != 2 {
			c.Broken("corr:JSON", "model driver rejected the request", map[string]any{"request": reqs[i], "response": r})
			continue
		}
		modelOut := fromCps(f[0])
		if modelOut != string(outs[i]) {
			c.disagree++
			// property predicate already evaluated above on this very case; if it held, this is a
			// correspondence break without a failing input
			c.Broken("corr:JSON", "model and exporter produce different bytes", map[string]any{"request": reqs[i], "impl": string(outs[i]), "model": modelOut})
		}
		c.Count("modelDecodes=" + f[1])
	}
	_ = sort.Strings
	_ = kept
}

func tokensOf(t *VT) string {
	var b strings.Builder
	t.Tokens(&b)
	return b.String()
}

func hasOddChar(t *VT) bool {
	odd := func(s string) bool {
		for _, r := range s {
			if !(r >= 'a' && r <= 'z' || r >= 'A' && r <= 'Z' || r >= '0' && r <= '9') {
				return true
			}
		}
		return false
	}
	if t.Kind == 's' && odd(t.S) {
		return true
	}
	for _, k := range t.Keys {
		if odd(k) {
			return true
		}
	}
	for _, it := range t.Items {
		if hasOddChar(it) {
			return true
		}
	}
	return false
}
