package main

import "strconv"

func itoa(i int) string { return strconv.Itoa(i) }
