package main

// C02 — constant folding is unobservable: optimizer on vs. off on the real generator, with call
// counters in harness-registered pure and impure static functions.

import (
	"sort"
	"fmt"
	"math"
	"strings"

	"github.com/hneemann/parser2/funcGen"
	"github.com/hneemann/parser2/value"
)

func init() { props["C02"] = runC02 }

type tickLog struct {
	impure []string // canonical arguments of the impure counting function, in call order
	pure   int
}

func newCountingFG(optimize bool, log *tickLog) *value.FunctionGenerator {
	fg := value.New()
	fg.AddStaticFunction("tickI", funcGen.Function[value.Value]{
		Func: func(st funcGen.Stack[value.Value], cs []value.Value) (value.Value, error) {
			s, _ := canonValue(st.Get(0))
			log.impure = append(log.impure, s)
			return st.Get(0), nil
		}, Args: 1, IsPure: false}.SetDescription("v", "impure counting identity"))
	fg.AddStaticFunction("tickP", funcGen.Function[value.Value]{
		Func: func(st funcGen.Stack[value.Value], cs []value.Value) (value.Value, error) {
			log.pure++
			return st.Get(0), nil
		}, Args: 1, IsPure: true}.SetDescription("v", "pure counting identity"))
	// an impure host METHOD (registered on ints, strings, lists and maps): the receiver type of a method call is not known
	// when the code is generated, so its purity has to come from the name (repair 8aa887a)
	tickM := funcGen.Function[value.Value]{
		Func: func(st funcGen.Stack[value.Value], cs []value.Value) (value.Value, error) {
			s, _ := canonValue(st.Get(0))
			log.impure = append(log.impure, "M"+s)
			return st.Get(0), nil
		}, Args: 1, IsPure: false}.SetMethodDescription("impure counting identity")
	for _, id := range []value.Type{value.IntTypeId, value.StringTypeId, value.ListTypeId, value.MapTypeId} {
		fg.RegisterMethods(id, value.MethodMap{"tickM": tickM})
	}
	if !optimize {
		fg.SetOptimizer(nil)
	}
	return fg
}

type c02Result struct {
	outcome     string
	genImpure   int      // impure calls during Generate (must be 0)
	evalImpure  []string // impure call log of the evaluation
	genErr      bool
}

func c02Run(optimize bool, src string, names []string, args []value.Value) (res c02Result) {
	var log tickLog
	fg := newCountingFG(optimize, &log)
	defer func() {
		if r := recover(); r != nil {
			res.outcome = fmt.Sprintf("PANIC %v", r)
		}
	}()
	crumb("program: " + src)
	f, _, err := fg.Generate(src, names...)
	res.genImpure = len(log.impure)
	if err != nil {
		res.outcome = "GENERR"
		res.genErr = true
		return
	}
	log.impure = nil
	v, err := f.Eval(args...)
	if err != nil {
		res.outcome = "ERR"
	} else if s, err := canonValue(v); err != nil {
		res.outcome = "ERR"
	} else {
		res.outcome = "OK " + s
	}
	res.evalImpure = log.impure
	return
}

// floatsClose compares two canonical outcomes allowing a relative float tolerance (only used for
// programs that contain a same-operator chain mixing constants and a float-typed variable).
func outcomesEqual(a, b string, tol bool) bool {
	if a == b {
		return true
	}
	if !tol || !strings.HasPrefix(a, "OK f") || !strings.HasPrefix(b, "OK f") {
		return false
	}
	var x, y uint64
	if _, err := fmt.Sscanf(a[4:], "%x", &x); err != nil {
		return false
	}
	if _, err := fmt.Sscanf(b[4:], "%x", &y); err != nil {
		return false
	}
	fx, fy := math.Float64frombits(x), math.Float64frombits(y)
	d := math.Abs(fx - fy)
	return d <= 1e-12*math.Max(math.Abs(fx), math.Abs(fy))
}

var c02Ops = []string{"|", "&", "=", "!=", "~", "<", ">", "<=", ">=", "+", "-", "<<", ">>", "*", "%", "/", "^"}

type c02Operand struct {
	lit string      // constant spelling
	arg value.Value // same value as an argument
	ty  string
}

var c02Operands = []c02Operand{
	{"2", value.Int(2), "int"}, {"0", value.Int(0), "int"}, {"7", value.Int(7), "int"},
	{"0.5", value.Float(0.5), "float"}, {"4.0", value.Float(4), "float"},
	{"\"ab\"", value.String("ab"), "string"}, {"\"\"", value.String(""), "string"},
	{"true", value.Bool(true), "bool"}, {"false", value.Bool(false), "bool"},
	{"[1, 2]", value.NewList(value.Int(1), value.Int(2)), "list"},
	{"{x: 1}", buildMap([]string{"x"}, []value.Value{value.Int(1)}, 0), "map"},
	{"{y: 2}", buildMap([]string{"y"}, []value.Value{value.Int(2)}, 0), "map"},
	{"4611686018427387904", value.Int(1 << 62), "int"},
}

func hasBigInt(src string, args []value.Value) bool {
	for _, a := range args {
		if i, ok := a.(value.Int); ok && (i >= 1<<31 || i <= -(1<<31)) {
			return true
		}
	}
	run := 0
	for _, r := range src {
		if r >= '0' && r <= '9' {
			run++
			if run >= 10 {
				return true
			}
		} else {
			run = 0
		}
	}
	return false
}

func c02Signature(src string, args []value.Value, on, off c02Result) string {
	numeric := func(o string) bool { return strings.HasPrefix(o, "OK i") || strings.HasPrefix(o, "OK f") }
	switch {
	// the int64 product of two operands of a * chain wraps around in one grouping only (needs an
	// operand of magnitude >= 2^31 and a float operand)
	case strings.Contains(src, "*") && numeric(on.outcome) && numeric(off.outcome) && hasBigInt(src, args):
		return "regroup-mul-int-wrap-before-float"
	// the And/Or matrices accept two ints while folding constants; the short-circuit code rejects them
	case (strings.Contains(src, "&") || strings.Contains(src, "|")) && strings.HasPrefix(on.outcome, "OK i") && off.outcome == "ERR":
		return "const-int-and-or"
	}
	return "optimizer-changes-outcome"
}

// c02ExportHelpers: the repository's own helper library (export.AddFileHelpers) through the optimizer: dataFile(...) is pure, its
// builder methods are folded when the receiver is constant; the folded program gives what the unfolded one gives
func c02ExportHelpers(c *Ctx) {
	for _, src := range c10ExportPrograms {
		for a := 0; a <= 5; a++ {
			var outs [2]string
			for i, opt := range []bool{true, false} {
				f, _, err := c10ExportFG(opt).Generate(src, "a")
				if err != nil {
					outs[i] = "GENERR"
					continue
				}
				v, err := f.Eval(value.Int(a))
				if err != nil {
					outs[i] = "ERR"
				} else {
					outs[i] = c10ExportShow(v)
				}
			}
			c.Case(fmt.Sprintf("export-helpers|%d|%s", a, src), true)
			c.Count("export-helpers")
			if outs[0] != outs[1] {
				c.Violation("optimizer-changes-outcome", "optimizer on and off give different outcomes for a program that uses the file helpers",
					map[string]any{"program": src, "argument": a, "optimized": trunc(outs[0], 300), "unoptimized": trunc(outs[1], 300)})
			}
		}
	}
}

func runC02(c *Ctx) {
	c02ExportHelpers(c)
	c.rule = "every program is generated on two fresh value.New() generators (default optimizer; SetOptimizer(nil) before first use) with a pure and an impure counting static function; compared: outcome (bit-exact; relative 1e-12 only for same-operator float chains mixing constants and variables), impure calls during Generate (must be 0), per-evaluation impure call log. Cases: (1) exhaustive chains (c1 op x) op c2, (x op c1) op c2, c1 op (x op c2), c1 op c2 for every operator x operand triple over 13 operands of 6 types; (1c) closure fields named like every map method and locals named like static functions, called with constants; (1d) 42 typed positions x 19 constants of every type (plain and behind a constant let); (2) random programs of the C01 generator rich in constants (scope-free subterms), with tickI/tickP wrappers and constant conditions; non-trivial = distinct program whose optimized AST differs from the unoptimized AST"
	c.assume = append(c.assume, "host-registered functions are represented by the harness' counting functions; randomConst/random excluded")

	type ccase struct {
		src   string
		names []string
		args  []value.Value
		tol   bool
	}
	var cases []ccase
	// corpus: past failures first
	for _, src := range []string{"(1 = a) = 1", "(true & a) & false", "3 & 5", "(2 * a) * 0.5", "(a | true) | false", "(0 / 0) / a", "(0.0 / 0.0) + a", "[0 / 0, 1.0 / 0.0, (0.0 - 1.0) / 0.0][a % 3]",
		"if true then 1 else tickI(2)", "tickI(1) + tickI(2) * 0", "let k = tickI(5); k + k", "[tickI(1), 2].size()",
		"(x -> tickI(x))(3)", "try tickI(1) + [1][5] catch tickI(2)", "false & tickI(true)", "true | tickI(false)",
		"switch 2 case 1 : tickI(10) case 2 : tickI(20) default tickI(30)", "tickP(1) + 2", "(x -> x + tickP(1))(2)",
		// a constant closure applied to the WRONG number of constant arguments is not folded (optimizer.go: closure.Args != len(fc.Args)): an error with and without
		"(x -> x + 1)(1, 2) + a", "let f = x -> x; f() + a", "((x, y) -> x)(1) + a", "try (x -> x + 1)(1, 2) catch a", "[1, 2].map(e -> ((x, y) -> x + y)(e)).sum() + a", "{f: x -> x}.f(1, 2) + a", "try {f: (x, y) -> x}.f(1) catch a",
		"\"a\" + 1 + 2", "1 + 2 + \"a\"", "a + 1 + 2", "1 + a + 2", "a * 2 * 3", "2 * a * 3", "a - 1 - 2", "a / 2 / 4"} {
		for _, a := range []value.Value{value.Int(3), value.Bool(true), value.Float(2.5), value.String("s"), value.Int(1 << 62)} {
			cases = append(cases, ccase{src, []string{"a"}, []value.Value{a}, true})
		}
	}
	// (1) exhaustive chains
	chains := 0
	for _, op := range c02Ops {
		for _, c1 := range c02Operands {
			for _, c2 := range c02Operands {
				for _, x := range c02Operands {
					// keep the triple count manageable: the variable ranges over one value per type + extremes
					shapes := []string{
						fmt.Sprintf("(%s %s x) %s %s", c1.lit, op, op, c2.lit),
						fmt.Sprintf("(x %s %s) %s %s", op, c1.lit, op, c2.lit),
					}
					if c.Thorough {
						shapes = append(shapes, fmt.Sprintf("%s %s (x %s %s)", c1.lit, op, op, c2.lit), fmt.Sprintf("(%s %s %s) %s x", c1.lit, op, c2.lit, op))
					}
					for _, s := range shapes {
						cases = append(cases, ccase{s, []string{"x"}, []value.Value{x.arg}, x.ty == "float" || c1.ty == "float" || c2.ty == "float"})
						chains++
					}
				}
			}
		}
	}
	c.extra["chain_shapes_enumerated"] = chains
	// (1b) purity sweep: an impure call in every child position of every multi-child construct, the
	// other children constant, inside closures without outer references applied to constants (the
	// shapes the optimizer evaluates at Generate time when it believes the closure is pure)
	constructs := []string{"max(@0, @1, @2)", "[@0, @1, @2].size()", "{a: @0, b: @1, c: @2}.b", "(@0 + @1) * @2", "(if @0 > 0 then @1 else @2)",
		"(switch @0 case 1 : @1 default @2)", "(try @0 + @1 catch @2)", "[1, 2, 3][@0 - @0] + @1 + @2", "\"s\".len() + @0 + (0 - @1) + @2",
		"((p, q, r) -> p + q + r)(@0, @1, @2)", "[1, 2].map(e -> e + @0).sum() + @1 + @2", "{f: (p, q) -> p + q}.f(@0, @1) + @2", "[@0, @1][0] + [1, @2].size()",
		"abs(@0) + sqr(@1) + min(@2, 5)", "(if (@0 > 5) | (@1 > 5) | (@2 > 5) then 1 else 0)", "(if (@0 > 0) & (@1 > 0) & (@2 > 0) then 1 else 0)",
		"(if ((@0 > 5) | (@1 > 0)) & (@2 > 0) then 1 else 0)", "[1, 2].accept(e -> (e > @0) | (e < @1) | (e = @2)).size()", "(if !((@0 > 5) | !(@1 > 5)) then @2 else 0)", "[1, 2].mapReduce(@0, (s, e) -> s + e + @1) + @2", "{k: 1}.put(\"z\", @0).z + @1 + @2"}
	wrappers := []string{"%s", "(x -> %s)(0)", "let f = x -> %s; f(0) + f(1)", "let c = (x -> %s); [c(0), c(0)].size()", "[0, 1].map(x -> %s).sum()", "func g(x) %s; g(0) + g(1)"}
	purity := 0
	for _, cons := range constructs {
		for pos := 0; pos < 3; pos++ {
			body := cons
			for i := 0; i < 3; i++ {
				fill := itoa(i + 1)
				if i == pos {
					fill = "tickI(" + itoa(i+1) + ")"
				}
				body = strings.ReplaceAll(body, "@"+itoa(i), fill)
			}
			for _, w := range wrappers {
				cases = append(cases, ccase{fmt.Sprintf(w, body), []string{"a"}, []value.Value{value.Int(1)}, false})
				// the same position filled by an impure host method call
				cases = append(cases, ccase{fmt.Sprintf(w, strings.ReplaceAll(body, "tickI("+itoa(pos+1)+")", "("+itoa(pos+1)+").tickM()")), []string{"a"}, []value.Value{value.Int(1)}, false})
				purity += 2
			}
		}
	}
	for _, src := range []string{"let g = v -> v.tickM(); g(1) + a", "(v -> v.tickM())(\"s\").len() + a", "let g = v -> [v, 2].tickM().size(); g(1) + g(2) + a",
		"{k: 1}.tickM().k + a", "if true then 1 else (2).tickM()", "let h = (p, q) -> {x: p}.tickM().x + q; h(1, 2) + a", "[1, 2].map(e -> e.tickM()).sum() + a",
		"let c = (x -> (y -> y.tickM())); c(0)(5) + a", "func g(x) x.tickM(); g(4) + a", "try (1).tickM() + [1][5] catch (2).tickM()"} {
		cases = append(cases, ccase{src, []string{"a"}, []value.Value{value.Int(1)}, false})
		purity++
	}
	c.extra["purity_sweep_programs"] = purity
	// (1c) name-space sweep: a constant map with a closure stored in a field named like a method of maps (every
	// registered one) is called through that name with constant arguments: the field wins at run time, so the
	// folded call has to be the field's as well; also locals named like static functions
	collisions := 0
	if mm := value.New().VerifMethods()["map"]; mm != nil {
		var names []string
		for name := range mm {
			names = append(names, name)
		}
		sort.Strings(names)
		for _, name := range names {
			for _, form := range []string{"{x: 1, @: e -> e + 1000}.@(5)", "{x: 1, @: (p, q) -> p * 1000 + q}.@(5, 6)", "{x: 1, @: (p, q, r) -> p + q + r + 1000}.@(5, 6, 7)",
				"{x: 1, @: e -> e + 1000}.@(\"x\")", "let mm = {x: 1, @: e -> e + 1000}; mm.@(5) + mm.x", "{x: 1, @: e -> tickI(e) + 1000}.@(5)", "[1, 2].map(i -> {x: i, @: e -> e + 1000}.@(5)).sum()"} {
				cases = append(cases, ccase{strings.ReplaceAll(form, "@", name), []string{"a"}, []value.Value{value.Int(1)}, false})
				collisions++
			}
		}
	}
	for _, st := range []string{"abs", "sqr", "min", "max", "list", "string", "int", "float", "sqrt"} {
		for _, form := range []string{"let @ = e -> e + 1000; @(0 - 3)", "(@ -> @(0 - 3))(e -> e + 1000)", "func @(e) e + 1000; @(0 - 3)", "[1].map(@ -> @ + 1).sum() + @(4)", "{@: e -> e + 1000}.@(0 - 3)"} {
			cases = append(cases, ccase{strings.ReplaceAll(form, "@", st), []string{"a"}, []value.Value{value.Int(1)}, false})
			collisions++
		}
	}
	c.extra["name_space_sweep_programs"] = collisions
	// (1d) typed positions: every position of the language that demands a type (condition, operand, index, callee,
	// receiver, numeric argument) filled with constants of every type, also behind a constant let and a folded
	// subterm: folding must fail (or not happen) exactly where evaluation fails
	typedPos := []string{"if @ then 1 else 2", "if @ then tickI(1) else tickI(2)", "try if @ then 10 else 20 catch 30", "(if @ then 1 else 2) + a", "switch @ case 1 : 10 case true : 20 default 30",
		"@ & true", "true & @", "@ | false", "false | @", "!(@)", "-(@)", "[10, 20, 30][@]", "\"abc\".cut(@, 1)", "numbers(@).size()", "list(@).size()", "(@)(1)", "(@).x", "(@).size()", "(@).len()",
		"[1, 2].top(@).size()", "[1, 2].map(@).size()", "{a: 1}.get(@)", "{a: 1}.put(@, 2).size()", "@ ~ [1, 2]", "1 ~ @", "@ < 2", "@ = 1", "abs(@)", "sqrt(@)", "int(@)", "string(@).len()", "min(@, 2)",
		"[1, 2].reduce(@)", "[@].sum()", "1 << @", "7 % @", "2 ^ @", "@ + [1]", "throw(@)", "(x -> x + 1)(@)", "[3, 1, 2].order(e -> @).first()", "func g(n) if @ then n else 0; g(a)"}
	typedConst := []string{"1", "0", "2", "0 - 1", "1.5", "true", "false", "\"s\"", "\"\"", "[1]", "[]", "{a: 1}", "(e -> e)", "2 * 3", "1 = 1", "\"a\" + \"b\"", "[1, 2].size()", "1 / 0", "[1][5]"}
	typed := 0
	for _, tp := range typedPos {
		for _, tc := range typedConst {
			for _, form := range []string{"%s", "let c0 = %[2]s; %[3]s"} {
				var src string
				if form == "%s" {
					src = strings.ReplaceAll(tp, "@", tc)
				} else {
					src = "let c0 = " + tc + "; " + strings.ReplaceAll(tp, "@", "c0")
				}
				cases = append(cases, ccase{src, []string{"a"}, []value.Value{value.Int(1)}, false})
				typed++
			}
		}
	}
	c.extra["typed_position_sweep_programs"] = typed
	// (2) random programs, constant-rich
	n := c.Pick(2500, 60000)
	for i := 0; i < n; i++ {
		g := newProgGen(c.rng)
		g.enterBody("a", "l", "m", "s", "t")
		t := []pty{pInt, pInt, pStr, pBool, pList, pMap, pFloat}[c.rng.Intn(7)]
		sc := c01Scope()
		if c.rng.Intn(2) == 0 {
			sc = nil // scope-free: everything is constant and gets folded
		}
		src := g.stmt(t, 2+c.rng.Intn(c.Pick(5, 7)), sc)
		src = c02Decorate(c, src)
		names, args := c01Args(c, i)
		cases = append(cases, ccase{src, names, args, false})
	}

	var optCases []*c02OptCase
	for _, cs := range cases {
		on := c02Run(true, cs.src, cs.names, cs.args)
		off := c02Run(false, cs.src, cs.names, cs.args)
		// correspondence of the optimizer model: the tree the generator compiles (request OPT)
		oc := c02OptPrepare(cs.src, cs.names)
		oc.violated = strings.HasPrefix(on.outcome, "PANIC") || strings.HasPrefix(off.outcome, "PANIC") || on.genImpure != 0 || off.genImpure != 0 ||
			!outcomesEqual(on.outcome, off.outcome, cs.tol)
		optCases = append(optCases, oc)
		nontriv := false
		if !off.genErr {
			// non-trivial: the optimizer changed the AST
			fgOn, fgOff := newCountingFG(true, &tickLog{}), newCountingFG(false, &tickLog{})
			a1, e1 := parseUnoptimized(fgOn, cs.src, cs.names)
			a2, e2 := parseUnoptimized(fgOff, cs.src, cs.names)
			if e1 == nil && e2 == nil && a1.String() != a2.String() {
				nontriv = true
			}
		}
		c.Case(cs.src, nontriv)
		c.Count("on=" + strings.SplitN(on.outcome, " ", 2)[0])
		if nontriv && len(c.samples) < 5 {
			c.Sample(map[string]any{"program": cs.src, "optimizer_on": on.outcome, "optimizer_off": off.outcome, "impure_calls_per_eval": len(off.evalImpure)})
		}
		replay := map[string]any{"program": cs.src, "arg_names": cs.names, "optimizer_on": on.outcome, "optimizer_off": off.outcome,
			"impure_log_on": on.evalImpure, "impure_log_off": off.evalImpure, "generate_impure_calls_on": on.genImpure}
		var ab strings.Builder
		for i, a := range cs.args {
			if i > 0 {
				ab.WriteString(" ; ")
			}
			argTokens(a, &ab)
		}
		replay["args"] = ab.String()
		if strings.HasPrefix(on.outcome, "PANIC") || strings.HasPrefix(off.outcome, "PANIC") {
			c.Violation("panic-escaped", "a Go panic escaped Generate/Eval", replay)
			continue
		}
		if on.genImpure != 0 || off.genImpure != 0 {
			c.Violation("impure-call-during-generate", "an impure function was executed during Generate", replay)
			continue
		}
		if !outcomesEqual(on.outcome, off.outcome, cs.tol) {
			c.disagree++
			c.Violation(c02Signature(cs.src, cs.args, on, off), "optimizer on and off give different outcomes", replay)
			continue
		}
		// the impure call log is compared when both evaluations succeed (an error aborts both, possibly
		// at different depth of an already failing computation — the property compares ok-vs-error there)
		if strings.HasPrefix(on.outcome, "OK") && strings.Join(on.evalImpure, "|") != strings.Join(off.evalImpure, "|") {
			c.disagree++
			c.Violation("impure-call-log-differs", "impure functions are executed differently with the optimizer", replay)
		}
	}
	c02OptCompare(c, optCases)
}

// c02Decorate wraps some integer literals in counting functions and adds constant conditions.
func c02Decorate(c *Ctx, src string) string {
	switch c.rng.Intn(4) {
	case 0:
		return strings.Replace(src, " 1", " tickI(1)", 1)
	case 1:
		return strings.Replace(strings.Replace(src, " 2", " tickP(2)", 1), " 3", " tickI(3)", 1)
	case 2:
		return strings.Replace(src, " 5", " (if 1 < 2 then tickI(5) else tickI(6))", 1)
	}
	return src
}
