package main

// Shared by the language-level harnesses (C01, C02, C10, C16, C19): AST dump in the model's prefix
// token form, canonical value text, argument tokens, outcome of a real evaluation.

import (
	"fmt"
	"math"
	"sort"
	"strings"

	"github.com/hneemann/parser2"
	"github.com/hneemann/parser2/funcGen"
	"github.com/hneemann/parser2/value"
)

type astDump struct {
	b           strings.Builder
	unmodelled  string // first construct that the model's AST cannot express
	bindingInArg int    // let/if/switch/try/closure placed inside a call or method argument
	closures    int
	nodes       int
	depth       int
}

func (d *astDump) tok(s ...string) {
	for _, x := range s {
		if d.b.Len() > 0 {
			d.b.WriteByte(' ')
		}
		d.b.WriteString(x)
	}
}

func isBinding(a parser2.AST) bool {
	switch a.(type) {
	case *parser2.Let, *parser2.If, *parser2.Switch[value.Value], *parser2.TryCatch, *parser2.ClosureLiteral:
		return true
	}
	return false
}

func (d *astDump) dump(a parser2.AST, depth int) {
	d.nodes++
	if depth > d.depth {
		d.depth = depth
	}
	switch n := a.(type) {
	case *parser2.Const[value.Value]:
		switch v := n.Value.(type) {
		case value.Int:
			d.tok("c", "i", fmt.Sprint(int64(v)))
		case value.Float:
			d.tok("c", "f", fmt.Sprintf("%016x", floatBitsCanon(float64(v))))
		case value.String:
			d.tok("c", "s", cps(string(v)))
		case value.Bool:
			if v {
				d.tok("c", "b", "1")
			} else {
				d.tok("c", "b", "0")
			}
		default:
			if d.unmodelled == "" {
				d.unmodelled = fmt.Sprintf("const of type %T", n.Value)
			}
			d.tok("c", "i", "0")
		}
	case *parser2.Ident:
		d.tok("id", cps(n.Name))
	case *parser2.Let:
		d.tok("let", cps(n.Name))
		d.dump(n.Value, depth+1)
		d.dump(n.Inner, depth+1)
	case *parser2.If:
		d.tok("if")
		d.dump(n.Cond, depth+1)
		d.dump(n.Then, depth+1)
		d.dump(n.Else, depth+1)
	case *parser2.Switch[value.Value]:
		d.tok("sw", itoa(len(n.Cases)))
		d.dump(n.SwitchValue, depth+1)
		for _, c := range n.Cases {
			d.dump(c.CaseConst, depth+1)
			d.dump(c.Value, depth+1)
		}
		d.dump(n.Default, depth+1)
	case *parser2.TryCatch:
		d.tok("try")
		d.dump(n.Try, depth+1)
		d.dump(n.Catch, depth+1)
	case *parser2.Unary:
		d.tok("un", cps(n.Operator))
		d.dump(n.Value, depth+1)
	case *parser2.Operate:
		d.tok("op", cps(n.Operator))
		d.dump(n.A, depth+1)
		d.dump(n.B, depth+1)
	case *parser2.ClosureLiteral:
		d.closures++
		d.tok("clo", itoa(len(n.Names)))
		for _, x := range n.Names {
			d.tok(cps(x))
		}
		d.tok(itoa(len(n.OuterIdents)))
		for _, x := range n.OuterIdents {
			d.tok(cps(x))
		}
		if n.Recursive {
			d.tok("1")
		} else {
			d.tok("0")
		}
		d.tok(cps(n.ThisName))
		d.dump(n.Func, depth+1)
	case *parser2.ListLiteral:
		d.tok("list", itoa(len(n.List)))
		for _, x := range n.List {
			d.dump(x, depth+1)
		}
	case *parser2.ListAccess:
		d.tok("idx")
		d.dump(n.Index, depth+1)
		d.dump(n.List, depth+1)
	case *parser2.MapLiteral:
		d.tok("map", itoa(n.Map.Size()))
		n.Map.Iter(func(key string, v parser2.AST) bool {
			d.tok(cps(key))
			d.dump(v, depth+1)
			return true
		})
	case *parser2.MapAccess:
		d.tok("mem", cps(n.Key))
		d.dump(n.MapValue, depth+1)
	case *parser2.FunctionCall:
		d.tok("call", itoa(len(n.Args)))
		d.dump(n.Func, depth+1)
		for i, x := range n.Args {
			if i >= 1 && isBinding(x) {
				d.bindingInArg++
			}
			d.dump(x, depth+1)
		}
	case *parser2.MethodCall:
		d.tok("meth", cps(n.Name), itoa(len(n.Args)))
		d.dump(n.Value, depth+1)
		for _, x := range n.Args {
			if isBinding(x) {
				d.bindingInArg++
			}
			d.dump(x, depth+1)
		}
	default:
		if d.unmodelled == "" {
			d.unmodelled = fmt.Sprintf("node %T", a)
		}
		d.tok("c", "i", "0")
	}
}

// canonValue forces the value deeply and prints the canonical text shared with the model driver.
func canonValue(v value.Value) (string, error) {
	st := funcGen.NewEmptyStack[value.Value]()
	switch x := v.(type) {
	case value.Int:
		return fmt.Sprintf("i%d", int64(x)), nil
	case value.Float:
		if math.IsNaN(float64(x)) {
			return "fNaN", nil // sign and payload of a NaN are not compared
		}
		return fmt.Sprintf("f%016x", math.Float64bits(float64(x))), nil
	case value.String:
		return "s" + cps(string(x)), nil
	case value.Bool:
		if x {
			return "b1", nil
		}
		return "b0", nil
	case *value.List:
		items, err := x.ToSlice(st)
		if err != nil {
			return "", err
		}
		parts := make([]string, len(items))
		for i, it := range items {
			s, err := canonValue(it)
			if err != nil {
				return "", err
			}
			parts[i] = s
		}
		return "L[" + strings.Join(parts, ",") + "]", nil
	case value.Map:
		type kv struct{ k, v string }
		var kvs []kv
		var ierr error
		x.Iter(func(key string, val value.Value) bool {
			s, err := canonValue(val)
			if err != nil {
				ierr = err
				return false
			}
			kvs = append(kvs, kv{key, s})
			return true
		})
		if ierr != nil {
			return "", ierr
		}
		sort.Slice(kvs, func(i, j int) bool { return kvs[i].k < kvs[j].k })
		parts := make([]string, len(kvs))
		for i, e := range kvs {
			parts[i] = cps(e.k) + "=" + e.v
		}
		return "M{" + strings.Join(parts, ",") + "}", nil
	case value.Closure:
		return fmt.Sprintf("C%d", x.Args), nil
	case nil:
		return "NIL", nil
	default:
		return fmt.Sprintf("W%T", v), nil
	}
}

// argTokens renders an argument value for the model (lists/maps eager).
func argTokens(v value.Value, b *strings.Builder) {
	switch x := v.(type) {
	case value.Int:
		fmt.Fprintf(b, "i %d", int64(x))
	case value.Float:
		fmt.Fprintf(b, "f %016x", math.Float64bits(float64(x)))
	case value.String:
		b.WriteString("s " + cps(string(x)))
	case value.Bool:
		if x {
			b.WriteString("b 1")
		} else {
			b.WriteString("b 0")
		}
	case *value.List:
		items, _ := x.ToSlice(funcGen.NewEmptyStack[value.Value]())
		fmt.Fprintf(b, "L %d", len(items))
		for _, it := range items {
			b.WriteByte(' ')
			argTokens(it, b)
		}
	case value.Map:
		fmt.Fprintf(b, "M %d", x.Size())
		x.Iter(func(key string, val value.Value) bool {
			b.WriteByte(' ')
			b.WriteString(cps(key))
			b.WriteByte(' ')
			argTokens(val, b)
			return true
		})
	default:
		panic(fmt.Sprintf("argTokens: %T", v))
	}
}

// evalOutcome: canonical outcome of Generate+Eval on the real code. optimizer off: SetOptimizer(nil)
// before first use. A Go panic escaping Eval is reported as PANIC (never expected: Eval recovers).
func evalOutcome(fg *value.FunctionGenerator, src string, names []string, args []value.Value) (out string) {
	defer func() {
		if r := recover(); r != nil {
			out = fmt.Sprintf("PANIC %v", r)
		}
	}()
	crumb("program: " + src)
	f, _, err := fg.Generate(src, names...)
	if err != nil {
		return "GENERR"
	}
	v, err := f.Eval(args...)
	if err != nil {
		return "ERR"
	}
	s, err := canonValue(v)
	if err != nil {
		return "ERR"
	}
	return "OK " + s
}

func newValueFG(optimize bool) *value.FunctionGenerator {
	fg := value.New()
	if !optimize {
		fg.SetOptimizer(nil)
	}
	return fg
}

// parseUnoptimized returns the AST exactly as generateIntern would see it with the optimizer off.
func parseUnoptimized(fg *value.FunctionGenerator, src string, names []string) (a parser2.AST, err error) {
	defer func() {
		if r := recover(); r != nil {
			err = fmt.Errorf("panic in parser: %v", r)
		}
	}()
	idents := fg.Identifier().AddArgs(names, nil)
	return fg.CreateAst(src, idents)
}

// floatBitsCanon: the bits of a float with every NaN written as the one quiet NaN of the model (sign and payload of a NaN
// are not part of any comparison: Go's 0/0 carries the sign bit, Lean's does not)
func floatBitsCanon(f float64) uint64 {
	if math.IsNaN(f) {
		return 0x7ff8000000000000
	}
	return math.Float64bits(f)
}
