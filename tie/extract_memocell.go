package main

// Tie 1 (C10, C11): the shape of the memo cell of a lazy list in value/list.go. The Lean model P2.Memo says: `force`
// (List.Eval) works under the mutex from its first statement on, collects the items in a LOCAL slice, stores nothing
// when the producer reports an error, and writes items / itemsPresent / producer only after the loop; `iter`
// (List.iterable) takes the producer under the mutex and calls it outside; `evaluated` reads under the mutex; nothing else
// writes the three fields (Append only clips the capacity). go/ast facts, regenerated on every run.

import (
	"bytes"
	"fmt"
	"go/ast"
	"go/parser"
	"go/printer"
	"go/token"
	"path/filepath"
	"regexp"
	"sort"
	"strings"
)

func init() { extractors = append(extractors, extractMemoCell) }

func oneLine(s string) string { return strings.Join(strings.Fields(s), " ") }

func extractMemoCell() {
	fset := token.NewFileSet()
	files, _ := filepath.Glob(filepath.Join(repoRoot, "value", "*.go"))
	sort.Strings(files)
	cellFields := map[string]bool{"items": true, "itemsPresent": true, "producer": true}
	type write struct{ fn, field, rhs string }
	var writes []write
	var reads [][2]string
	var evalShape, iterableShape, evaluatedShape []string
	var evalWrites [][3]string
	var loopAppends, loopReturns []string
	producerArg := ""
	locksFirst := false
	for _, path := range files {
		if strings.HasSuffix(path, "_test.go") || strings.HasSuffix(path, "_verif.go") {
			continue
		}
		f, err := parser.ParseFile(fset, path, nil, 0)
		if err != nil {
			fatal("extract memo cell: %v", err)
		}
		for _, d := range f.Decls {
			fd, ok := d.(*ast.FuncDecl)
			if !ok || fd.Body == nil {
				continue
			}
			recvList := false
			recvName := ""
			if fd.Recv != nil && len(fd.Recv.List) == 1 {
				if exprText(fset, fd.Recv.List[0].Type) == "*List" && len(fd.Recv.List[0].Names) == 1 {
					recvList = true
					recvName = fd.Recv.List[0].Names[0].Name
				}
			}
			// every assignment to a cell field of anything (x.items = …, x.items[i] = … is an element write and listed too)
			ast.Inspect(fd.Body, func(n ast.Node) bool {
				as, ok := n.(*ast.AssignStmt)
				if !ok {
					return true
				}
				for i, lhs := range as.Lhs {
					if sel, ok := lhs.(*ast.SelectorExpr); ok && cellFields[sel.Sel.Name] {
						if id, ok := sel.X.(*ast.Ident); ok && recvList && id.Name == recvName {
							rhs := ""
							if i < len(as.Rhs) {
								rhs = oneLine(exprText(fset, as.Rhs[i]))
							}
							writes = append(writes, write{fd.Name.Name, sel.Sel.Name, rhs})
						}
					}
				}
				return true
			})
			if !recvList {
				continue
			}
			seenRead := map[string]bool{}
			ast.Inspect(fd.Body, func(n ast.Node) bool {
				if sel, ok := n.(*ast.SelectorExpr); ok && cellFields[sel.Sel.Name] {
					if id, ok := sel.X.(*ast.Ident); ok && id.Name == recvName && !seenRead[sel.Sel.Name] {
						seenRead[sel.Sel.Name] = true
						reads = append(reads, [2]string{fd.Name.Name, sel.Sel.Name})
					}
				}
				return true
			})
			// A top-level statement that does not mention the receiver cannot touch the cell (a new local, a counter, a log line):
			// it is not part of the shape. The receiver is written `l` whatever it is called, so that the shapes do not
			// depend on its name.
			mentionsRecv := func(n ast.Node) bool {
				found := false
				ast.Inspect(n, func(m ast.Node) bool {
					if id, ok := m.(*ast.Ident); ok && id.Name == recvName {
						found = true
					}
					return !found
				})
				return found
			}
			recvRe := regexp.MustCompile(`\b` + regexp.QuoteMeta(recvName) + `\b`)
			norm := func(t string) string { return recvRe.ReplaceAllString(t, "l") }
			stmts := func() []string {
				var r []string
				for _, s := range fd.Body.List {
					if _, isRet := s.(*ast.ReturnStmt); !isRet && !mentionsRecv(s) {
						continue
					}
					r = append(r, norm(oneLine(nodeText(fset, s))))
				}
				return r
			}
			switch fd.Name.Name {
			case "iterable":
				iterableShape = stmts()
			case "evaluated":
				evaluatedShape = stmts()
			case "Eval":
				for _, s := range fd.Body.List {
					if _, isRet := s.(*ast.ReturnStmt); !isRet && !mentionsRecv(s) {
						continue
					}
					// top level: the text up to the first brace is enough to see the shape
					t := norm(oneLine(nodeText(fset, s)))
					if i := strings.Index(t, "{"); i >= 0 {
						t = strings.TrimSpace(t[:i])
					}
					evalShape = append(evalShape, t)
				}
				locksFirst = len(evalShape) >= 2 && evalShape[0] == "l.mu.Lock()" && evalShape[1] == "defer l.mu.Unlock()"
				// the range loop over the producer
				var loop *ast.RangeStmt
				ast.Inspect(fd.Body, func(n ast.Node) bool {
					if r, ok := n.(*ast.RangeStmt); ok && loop == nil {
						if call, ok := r.X.(*ast.CallExpr); ok && exprText(fset, call.Fun) == recvName+".producer" {
							loop = r
							if len(call.Args) == 1 {
								producerArg = exprText(fset, call.Args[0])
							}
						}
					}
					return true
				})
				if loop == nil {
					break
				}
				ast.Inspect(fd.Body, func(n ast.Node) bool {
					as, ok := n.(*ast.AssignStmt)
					if !ok {
						return true
					}
					where := "before-loop"
					if as.Pos() >= loop.Pos() && as.End() <= loop.End() {
						where = "in-loop"
					} else if as.Pos() > loop.End() {
						where = "after-loop"
					}
					for i, lhs := range as.Lhs {
						if sel, ok := lhs.(*ast.SelectorExpr); ok {
							if id, ok := sel.X.(*ast.Ident); ok && id.Name == recvName {
								rhs := ""
								if i < len(as.Rhs) {
									rhs = oneLine(exprText(fset, as.Rhs[i]))
								}
								evalWrites = append(evalWrites, [3]string{sel.Sel.Name, where, rhs})
							}
						}
						if where == "in-loop" && i < len(as.Rhs) {
							if call, ok := as.Rhs[i].(*ast.CallExpr); ok && exprText(fset, call.Fun) == "append" {
								switch l := lhs.(type) {
								case *ast.Ident:
									loopAppends = append(loopAppends, "local:"+l.Name)
								default:
									loopAppends = append(loopAppends, "field:"+oneLine(exprText(fset, lhs)))
								}
							}
						}
					}
					return true
				})
				ast.Inspect(loop.Body, func(n ast.Node) bool {
					if r, ok := n.(*ast.ReturnStmt); ok {
						loopReturns = append(loopReturns, oneLine(nodeText(fset, r)))
					}
					return true
				})
			}
		}
	}
	strs := func(l []string) string {
		var q []string
		for _, s := range l {
			q = append(q, leanStr(s))
		}
		return "[" + strings.Join(q, ", ") + "]"
	}
	var b strings.Builder
	b.WriteString("/-! GENERATED by `tie extract` (go/ast on value/*.go): the shape of the memo cell of a lazy list — `List.Eval`,\n`List.iterable`, `List.evaluated`, and every assignment to the fields items / itemsPresent / producer of a `*List`\nreceiver. Do not edit. -/\nnamespace P2.Generated\n\n")
	fmt.Fprintf(&b, "/-- the top-level statements of `List.Eval` (up to the first brace) -/\ndef memoEvalShape : List String := %s\n\n", strs(evalShape))
	fmt.Fprintf(&b, "/-- `List.Eval` starts with `Lock()` / `defer Unlock()` -/\ndef memoEvalLocksFirst : Bool := %v\n\n", locksFirst)
	fmt.Fprintf(&b, "/-- the argument `List.Eval` hands to the producer -/\ndef memoEvalProducerArg : String := %s\n\n", leanStr(producerArg))
	b.WriteString("/-- assignments to receiver fields in `List.Eval`: (field, position relative to the loop over the producer, right side) -/\ndef memoEvalWrites : List (String × String × String) := [")
	for i, w := range evalWrites {
		if i > 0 {
			b.WriteString(", ")
		}
		fmt.Fprintf(&b, "(%s, %s, %s)", leanStr(w[0]), leanStr(w[1]), leanStr(w[2]))
	}
	b.WriteString("]\n\n")
	fmt.Fprintf(&b, "/-- targets of `append` inside the loop of `List.Eval` -/\ndef memoEvalLoopAppends : List String := %s\n\n", strs(loopAppends))
	fmt.Fprintf(&b, "/-- return statements inside the loop of `List.Eval` -/\ndef memoEvalLoopReturns : List String := %s\n\n", strs(loopReturns))
	fmt.Fprintf(&b, "/-- the statements of `List.iterable` -/\ndef memoIterableShape : List String := %s\n\n", strs(iterableShape))
	fmt.Fprintf(&b, "/-- the statements of `List.evaluated` -/\ndef memoEvaluatedShape : List String := %s\n\n", strs(evaluatedShape))
	b.WriteString("/-- every assignment to items / itemsPresent / producer of a `*List` receiver: (method, field, right side) -/\ndef memoCellWrites : List (String × String × String) := [")
	for i, w := range writes {
		if i > 0 {
			b.WriteString(",\n  ")
		}
		fmt.Fprintf(&b, "(%s, %s, %s)", leanStr(w.fn), leanStr(w.field), leanStr(w.rhs))
	}
	b.WriteString("]\n\n/-- which methods of `*List` mention which of the three fields of their receiver at all -/\ndef memoCellMentions : List (String × String) := [")
	for i, r := range reads {
		if i > 0 {
			b.WriteString(", ")
		}
		fmt.Fprintf(&b, "(%s, %s)", leanStr(r[0]), leanStr(r[1]))
	}
	b.WriteString("]\n\nend P2.Generated\n")
	writeIfChanged(genPath("MemoCell.lean"), []byte(b.String()))
}

func nodeText(fset *token.FileSet, n ast.Node) string {
	var b bytes.Buffer
	printer.Fprint(&b, fset, n)
	return b.String()
}
