package main

// C08 — Laziness: short-circuit consumers demand only the prefix they need.
//
// Pipelines `source -> lazy stages -> short-circuit consumer` are generated as *shapes* with symbolic
// parameters (source size n, consumer parameter v, one throwing value j<id> per closure). A shape is
// compiled once by the real generator and evaluated many times with different arguments: the decisive
// element at every position, sources of the demanded length, +1, 10^3 and 10^11, a throwing element
// before / at / behind the decisive one. Every closure contains a counting host function tick<id>.
// All evaluations of the real code happen in a child process (`tie worker c08`) under a watchdog and an
// address-space limit, so that a hang on 10^11 elements or a materialised `numbers` is a verdict, not a
// dead harness.
//
// Property predicates evaluated on the implementation alone:
//   V1 size independence: outcome and every tick sequence are the same for n = pulled, pulled+1, 10^3.., 10^11;
//      the 10^11 run returns within 2 s.
//   P1 a throwing element that the baseline never evaluated (behind the decisive one) changes nothing.
//   P2 a throwing element the baseline did evaluate yields the throw error or (read-ahead window) the
//      baseline outcome, and never more closure calls than the baseline.
//   P3 a throwing element that is evaluated even on the shortest source giving the baseline outcome
//      (i.e. at or before the decisive element) yields the error.
//   B  building without consuming: all tick counters 0.
// Correspondence with the Lean model (request PIPE): outcome and per-closure (count, hash of arguments)
// exactly. More closure calls than the model = the demand bound of the theorems is exceeded = violation.

import (
	"bufio"
	"encoding/json"
	"fmt"
	"io"
	"math/rand"
	"os"
	"os/exec"
	"sort"
	"strconv"
	"strings"
	"sync"
	"syscall"
	"time"

	"github.com/hneemann/iterator"
	"github.com/hneemann/parser2/funcGen"
	"github.com/hneemann/parser2/value"
)

func init() {
	props["C08"] = runC08
	workers["c08"] = c08Worker
}

const c8NoFail = int64(-4611686018427387904)
const c8Ids = 11 // closure ids 0..9, id 10 = error index of the host-provided lazy list
const c8Big = int64(100000000000)

// ---- shapes -------------------------------------------------------------------------------------

type c8Stage struct {
	Kind string  `json:"k"` // map accept top skip combine combine3 combineN iir iirc number compact
	Id   int     `json:"id"`
	Id1  int     `json:"id1,omitempty"`
	P    []int64 `json:"p,omitempty"`
	Pred string  `json:"pred,omitempty"` // accept: M G E L
	UseV bool    `json:"usev,omitempty"` // top/skip: the run parameter v instead of P[0]
}

type c8List struct {
	Kind string   `json:"k"` // num lit host app st
	Main bool     `json:"main,omitempty"`
	N    int64    `json:"n,omitempty"`
	Lit  []int64  `json:"lit,omitempty"`
	A    *c8List  `json:"a,omitempty"`
	B    *c8List  `json:"b,omitempty"`
	St   *c8Stage `json:"st,omitempty"`
	L    *c8List  `json:"l,omitempty"`
}

type c8Cons struct {
	Kind     string     `json:"k"` // first single size collect present indexWhere contains multi
	Id       int        `json:"id,omitempty"`
	Branches []c8Branch `json:"br,omitempty"`
}

type c8Branch struct {
	Name   string    `json:"name"`
	Stages []c8Stage `json:"st,omitempty"`
	Cons   c8Cons    `json:"c"`
}

type c8Shape struct {
	Idx    int     `json:"idx"`
	List   *c8List `json:"list"`
	Cons   c8Cons  `json:"cons"`
	ValTgt bool    `json:"val"` // v is the value of the k-th element reaching the consumer (probed), not k itself
	Ks     []int64 `json:"ks"`
	Seed   int64   `json:"seed"`
	Ids    []int   `json:"ids"` // closure ids present (for throwing placements)
}

func c8pred(kind string, p []int64, arg string) string {
	switch kind {
	case "M":
		return fmt.Sprintf("(%s%%%d)=%d", arg, p[0], p[1])
	case "G":
		return fmt.Sprintf("%s>%d", arg, p[0])
	case "E":
		return fmt.Sprintf("%s=%d", arg, p[0])
	default:
		return fmt.Sprintf("%s<%d", arg, p[0])
	}
}

func c8guard(id int, arg string) string {
	return fmt.Sprintf("if tick%d(%s)=j%d then throw(\"x\") else ", id, arg, id)
}

func (s *c8Stage) src() string {
	switch s.Kind {
	case "map":
		return fmt.Sprintf(".map(e->%se*%d+%d)", c8guard(s.Id, "e"), s.P[0], s.P[1])
	case "accept":
		return fmt.Sprintf(".accept(e->%s%s)", c8guard(s.Id, "e"), c8pred(s.Pred, s.P, "e"))
	case "top", "skip":
		if s.UseV {
			return fmt.Sprintf(".%s(v)", s.Kind)
		}
		return fmt.Sprintf(".%s(%d)", s.Kind, s.P[0])
	case "combine":
		return fmt.Sprintf(".combine((x,y)->%sx*%d+y*%d+%d)", c8guard(s.Id, "y"), s.P[0], s.P[1], s.P[2])
	case "combine3":
		return fmt.Sprintf(".combine3((x,y,z)->%sx*%d+y*%d+z*%d+%d)", c8guard(s.Id, "z"), s.P[0], s.P[1], s.P[2], s.P[3])
	case "combineN":
		n := s.P[0]
		return fmt.Sprintf(".combineN(%d,l->%sl[0]*%d+l[%d]+%d)", n, c8guard(s.Id, fmt.Sprintf("l[%d]", n-1)), s.P[1], n-1, s.P[2])
	case "iir":
		return fmt.Sprintf(".iir(e->%se*%d+%d,(e,l)->%se*%d+l*%d+%d)", c8guard(s.Id, "e"), s.P[0], s.P[1], c8guard(s.Id1, "e"), s.P[2], s.P[3], s.P[4])
	case "iirc":
		return fmt.Sprintf(".iirCombine(e->%se*%d+%d,(p,e,l)->%sp*%d+e*%d+l*%d+%d)", c8guard(s.Id, "e"), s.P[0], s.P[1], c8guard(s.Id1, "e"), s.P[2], s.P[3], s.P[4], s.P[5])
	case "number":
		return fmt.Sprintf(".number((i,e)->%se*%d+i*%d)", c8guard(s.Id, "e"), s.P[0], s.P[1])
	case "compact":
		return fmt.Sprintf(".compact((x,y)->%s(x%%%d)=(y%%%d))", c8guard(s.Id, "y"), s.P[0], s.P[0])
	}
	panic("stage kind " + s.Kind)
}

func c8j(js []int64, id int) string {
	if js[id] == c8NoFail {
		return "-"
	}
	return strconv.FormatInt(js[id], 10)
}

func (s *c8Stage) tok(v int64, js []int64) string {
	switch s.Kind {
	case "map":
		return fmt.Sprintf("map:%d:%d,%d,%s", s.Id, s.P[0], s.P[1], c8j(js, s.Id))
	case "accept":
		ps := make([]string, len(s.P))
		for i, p := range s.P {
			ps[i] = strconv.FormatInt(p, 10)
		}
		return fmt.Sprintf("accept:%d:%s,%s,%s", s.Id, s.Pred, strings.Join(ps, ","), c8j(js, s.Id))
	case "top", "skip":
		if s.UseV {
			return fmt.Sprintf("%s:%d", s.Kind, v)
		}
		return fmt.Sprintf("%s:%d", s.Kind, s.P[0])
	case "combine":
		return fmt.Sprintf("combine:%d:%d,%d,%d,%s", s.Id, s.P[0], s.P[1], s.P[2], c8j(js, s.Id))
	case "combine3":
		return fmt.Sprintf("combine3:%d:%d,%d,%d,%d,%s", s.Id, s.P[0], s.P[1], s.P[2], s.P[3], c8j(js, s.Id))
	case "combineN":
		return fmt.Sprintf("combineN:%d:%d:%d,%d,%s", s.Id, s.P[0], s.P[1], s.P[2], c8j(js, s.Id))
	case "iir":
		return fmt.Sprintf("iir:%d:%d:%d,%d,%s:%d,%d,%d,%s", s.Id, s.Id1, s.P[0], s.P[1], c8j(js, s.Id), s.P[2], s.P[3], s.P[4], c8j(js, s.Id1))
	case "iirc":
		return fmt.Sprintf("iirc:%d:%d:%d,%d,%s:%d,%d,%d,%d,%s", s.Id, s.Id1, s.P[0], s.P[1], c8j(js, s.Id), s.P[2], s.P[3], s.P[4], s.P[5], c8j(js, s.Id1))
	case "number":
		return fmt.Sprintf("number:%d:%d,%d,%s", s.Id, s.P[0], s.P[1], c8j(js, s.Id))
	case "compact":
		return fmt.Sprintf("compact:%d:%d,%s", s.Id, s.P[0], c8j(js, s.Id))
	}
	panic("stage kind " + s.Kind)
}

func (l *c8List) src() string {
	switch l.Kind {
	case "num":
		if l.Main {
			return "numbers(n)"
		}
		return fmt.Sprintf("numbers(%d)", l.N)
	case "host":
		return "src"
	case "lit":
		ps := make([]string, len(l.Lit))
		for i, p := range l.Lit {
			ps[i] = strconv.FormatInt(p, 10)
		}
		return "[" + strings.Join(ps, ",") + "]"
	case "app":
		return "(" + l.A.src() + "+" + l.B.src() + ")"
	case "st":
		return l.L.src() + l.St.src()
	}
	panic("list kind " + l.Kind)
}

func (l *c8List) tok(n, v int64, js []int64) string {
	switch l.Kind {
	case "num":
		if l.Main {
			return fmt.Sprintf("num %d", n)
		}
		return fmt.Sprintf("num %d", l.N)
	case "host":
		return fmt.Sprintf("host %d %s", n, c8j(js, 10))
	case "lit":
		if len(l.Lit) == 0 {
			return "lit -"
		}
		ps := make([]string, len(l.Lit))
		for i, p := range l.Lit {
			ps[i] = strconv.FormatInt(p, 10)
		}
		return "lit " + strings.Join(ps, ",")
	case "app":
		return "app " + l.A.tok(n, v, js) + " " + l.B.tok(n, v, js)
	case "st":
		return "st " + l.St.tok(v, js) + " " + l.L.tok(n, v, js)
	}
	panic("list kind " + l.Kind)
}

func (c *c8Cons) src(list string) string {
	switch c.Kind {
	case "first", "single", "size":
		return list + "." + c.Kind + "()"
	case "collect":
		return list
	case "present", "indexWhere":
		return fmt.Sprintf("%s.%s(e->%se=v)", list, c.Kind, c8guard(c.Id, "e"))
	case "contains":
		return "v ~ " + list
	case "multi":
		var parts []string
		for _, b := range c.Branches {
			s := "l"
			for i := range b.Stages {
				s += b.Stages[i].src()
			}
			bc := b.Cons
			parts = append(parts, b.Name+":l->"+bc.src(s))
		}
		return list + ".multiUse({" + strings.Join(parts, ",") + "})"
	}
	panic("consumer kind " + c.Kind)
}

func (c *c8Cons) tok(v int64, js []int64) string {
	switch c.Kind {
	case "first", "single", "size", "collect":
		return c.Kind
	case "present", "indexWhere":
		return fmt.Sprintf("%s:%d:E,%d,%s", c.Kind, c.Id, v, c8j(js, c.Id))
	case "contains":
		return fmt.Sprintf("contains:%d", v)
	case "multi":
		parts := []string{fmt.Sprintf("multi:%d", len(c.Branches))}
		for _, b := range c.Branches {
			parts = append(parts, b.Name, strconv.Itoa(len(b.Stages)))
			for i := range b.Stages {
				parts = append(parts, b.Stages[i].tok(v, js))
			}
			bc := b.Cons
			parts = append(parts, bc.tok(v, js))
		}
		return strings.Join(parts, " ")
	}
	panic("consumer kind " + c.Kind)
}

func (s *c8Shape) program() string { return s.Cons.src(s.List.src()) }
func (s *c8Shape) buildProgram() string {
	return "let l=" + s.List.src() + "; 0"
}
func (s *c8Shape) probeProgram() string { return s.List.src() + ".top(230)" }
func (s *c8Shape) request(n, v int64, js []int64) string {
	return "PIPE\t" + s.Cons.tok(v, js) + "\t" + s.List.tok(n, v, js)
}
func (s *c8Shape) buildRequest(n, v int64, js []int64) string {
	return "PIPE\tbuild\t" + s.List.tok(n, v, js)
}

func (s *c8Shape) hasMain() bool   { return c8find(s.List, func(l *c8List) bool { return l.Main }) }
func (s *c8Shape) hasHost() bool   { return c8find(s.List, func(l *c8List) bool { return l.Kind == "host" }) }
func (s *c8Shape) isMulti() bool   { return s.Cons.Kind == "multi" }
func (s *c8Shape) lazyStages() int { return c8count(s.List) }

func c8find(l *c8List, f func(*c8List) bool) bool {
	if l == nil {
		return false
	}
	return f(l) || c8find(l.A, f) || c8find(l.B, f) || c8find(l.L, f)
}

func c8count(l *c8List) int {
	if l == nil {
		return 0
	}
	n := c8count(l.A) + c8count(l.B) + c8count(l.L)
	if l.Kind == "st" && !(l.St.Kind == "map" && l.St.Id == 0) {
		n++
	}
	return n
}

// ---- generator of shapes --------------------------------------------------------------------------

type c8gen struct {
	r      *rand.Rand
	nextId int
	ids    []int
}

func (g *c8gen) id() int {
	if g.nextId > 9 {
		return -1
	}
	id := g.nextId
	g.nextId++
	g.ids = append(g.ids, id)
	return id
}

func (g *c8gen) small() int64 { return int64(g.r.Intn(4)) }

// stage draws a random lazy stage; nil when the closure ids are used up
func (g *c8gen) stage(allowWide bool) *c8Stage {
	r := g.r
	for tries := 0; tries < 20; tries++ {
		switch r.Intn(13) {
		case 0, 1:
			if id := g.id(); id >= 0 {
				return &c8Stage{Kind: "map", Id: id, P: []int64{1 + int64(r.Intn(3)), g.small()}}
			}
		case 2, 3:
			if id := g.id(); id >= 0 {
				switch r.Intn(3) {
				case 0:
					m := 2 + int64(r.Intn(3))
					return &c8Stage{Kind: "accept", Id: id, Pred: "M", P: []int64{m, int64(r.Intn(int(m)))}}
				case 1:
					return &c8Stage{Kind: "accept", Id: id, Pred: "G", P: []int64{int64(r.Intn(12))}}
				default:
					return &c8Stage{Kind: "accept", Id: id, Pred: "L", P: []int64{1000000}}
				}
			}
		case 4:
			if allowWide {
				ns := []int64{0, 1, 2, 5, 300, 100000, -1}
				return &c8Stage{Kind: "top", P: []int64{ns[r.Intn(len(ns))]}}
			}
		case 5:
			ns := []int64{0, 1, 2, 3, 7, -1}
			return &c8Stage{Kind: "skip", P: []int64{ns[r.Intn(len(ns))]}}
		case 6:
			if id := g.id(); id >= 0 {
				return &c8Stage{Kind: "combine", Id: id, P: []int64{g.small(), 1 + g.small(), g.small()}}
			}
		case 7:
			if id := g.id(); id >= 0 {
				return &c8Stage{Kind: "combine3", Id: id, P: []int64{g.small(), g.small(), 1 + g.small(), g.small()}}
			}
		case 8:
			if id := g.id(); id >= 0 {
				return &c8Stage{Kind: "combineN", Id: id, P: []int64{1 + int64(r.Intn(5)), g.small(), g.small()}}
			}
		case 9:
			if g.nextId <= 8 {
				return &c8Stage{Kind: "iir", Id: g.id(), Id1: g.id(), P: []int64{1 + g.small(), g.small(), 1 + g.small(), int64(r.Intn(2)), g.small()}}
			}
		case 10:
			if g.nextId <= 8 {
				return &c8Stage{Kind: "iirc", Id: g.id(), Id1: g.id(), P: []int64{1 + g.small(), g.small(), g.small(), 1 + g.small(), int64(r.Intn(2)), g.small()}}
			}
		case 11:
			if id := g.id(); id >= 0 {
				return &c8Stage{Kind: "number", Id: id, P: []int64{1 + g.small(), g.small()}}
			}
		case 12:
			if id := g.id(); id >= 0 {
				return &c8Stage{Kind: "compact", Id: id, P: []int64{2 + int64(r.Intn(4))}}
			}
		}
	}
	return nil
}

func c8wrap(l *c8List, st *c8Stage) *c8List { return &c8List{Kind: "st", St: st, L: l} }

func c8tap(l *c8List) *c8List {
	return c8wrap(l, &c8Stage{Kind: "map", Id: 0, P: []int64{1, 0}})
}

func (g *c8gen) simpleCons(valOK bool) (c8Cons, []c8Stage, bool) {
	// returns consumer, stages to put in front of it (using v), and whether v is a value target
	r := g.r
	for {
		switch r.Intn(8) {
		case 0:
			return c8Cons{Kind: "first"}, []c8Stage{{Kind: "skip", UseV: true}}, false
		case 1:
			return c8Cons{Kind: "size"}, []c8Stage{{Kind: "top", UseV: true}}, false
		case 2:
			return c8Cons{Kind: "collect"}, []c8Stage{{Kind: "top", UseV: true}}, false
		case 3:
			return c8Cons{Kind: "single"}, []c8Stage{{Kind: "skip", UseV: true}}, false
		case 4:
			if valOK {
				if id := g.id(); id >= 0 {
					return c8Cons{Kind: "present", Id: id}, nil, true
				}
			}
		case 5:
			if valOK {
				if id := g.id(); id >= 0 {
					return c8Cons{Kind: "indexWhere", Id: id}, nil, true
				}
			}
		case 6:
			if valOK {
				return c8Cons{Kind: "contains"}, nil, true
			}
		case 7:
			return c8Cons{Kind: "first"}, nil, false // k = 0 whatever v is
		}
	}
}

func c8genShape(r *rand.Rand, idx int) *c8Shape {
	g := &c8gen{r: r, nextId: 1, ids: []int{0}}
	sh := &c8Shape{Idx: idx, Seed: r.Int63()}
	// source
	var list *c8List
	switch x := r.Intn(20); {
	case x < 12:
		list = c8tap(&c8List{Kind: "num", Main: true})
	case x < 15:
		list = c8tap(&c8List{Kind: "host", Main: true})
	case x < 18:
		var a *c8List
		if r.Intn(2) == 0 {
			n := r.Intn(6)
			lit := make([]int64, n)
			for i := range lit {
				lit[i] = int64(r.Intn(20))
			}
			a = &c8List{Kind: "lit", Lit: lit}
		} else {
			a = &c8List{Kind: "num", N: int64(r.Intn(8))}
		}
		if r.Intn(2) == 0 {
			if st := g.stage(true); st != nil {
				a = c8wrap(a, st)
			}
		}
		list = &c8List{Kind: "app", A: a, B: c8tap(&c8List{Kind: "num", Main: true})}
	default:
		n := r.Intn(40)
		lit := make([]int64, n)
		for i := range lit {
			lit[i] = int64(i * (1 + idx%3))
		}
		list = &c8List{Kind: "lit", Lit: lit}
		g.ids = nil // no tap
	}
	for i, n := 0, r.Intn(4); i < n; i++ {
		if st := g.stage(true); st != nil {
			list = c8wrap(list, st)
		}
	}
	// consumer
	if r.Intn(4) == 0 {
		nb := 1 + r.Intn(3)
		multi := c8Cons{Kind: "multi"}
		valUsed := false
		for b := 0; b < nb; b++ {
			br := c8Branch{Name: string(rune('a' + b))}
			own := r.Intn(3) == 0
			cons, pre, val := g.simpleCons(!own)
			if own {
				if st := g.stage(false); st != nil {
					br.Stages = append(br.Stages, *st)
				}
			}
			br.Stages = append(br.Stages, pre...)
			br.Cons = cons
			valUsed = valUsed || val
			multi.Branches = append(multi.Branches, br)
		}
		sh.Cons = multi
		sh.ValTgt = valUsed
		if valUsed {
			// position-parameterised branches would get a value as v: make them parameter free
			for bi := range multi.Branches {
				for si := range multi.Branches[bi].Stages {
					st := &multi.Branches[bi].Stages[si]
					if st.UseV {
						st.UseV = false
						st.P = []int64{int64(r.Intn(6))}
					}
				}
			}
		}
	} else {
		cons, pre, val := g.simpleCons(true)
		for i := range pre {
			p := pre[i]
			list = c8wrap(list, &p)
		}
		sh.Cons = cons
		sh.ValTgt = val
	}
	sh.List = list
	sh.Ids = g.ids
	return sh
}

// ---- the worker: real code in a child process --------------------------------------------------------

type c8Tick struct {
	mu    sync.Mutex
	count int64
	hash  uint64
	seq   []int64
}

var c8ticks [10]c8Tick

const c8HashP = 2147483647

func c8resetTicks() {
	for i := range c8ticks {
		t := &c8ticks[i]
		t.mu.Lock()
		t.count, t.hash, t.seq = 0, 0, t.seq[:0]
		t.mu.Unlock()
	}
}

func c8newFG() *value.FunctionGenerator {
	fg := value.New()
	for i := 0; i < 10; i++ {
		t := &c8ticks[i]
		fg.AddStaticFunction(fmt.Sprintf("tick%d", i), funcGen.Function[value.Value]{
			Func: func(st funcGen.Stack[value.Value], cs []value.Value) (value.Value, error) {
				a := st.Get(0)
				var x int64
				if iv, ok := a.(value.Int); ok {
					x = int64(iv)
				}
				t.mu.Lock()
				t.count++
				xv := uint64(((x % c8HashP) + c8HashP) % c8HashP)
				if t.count == 1 {
					t.hash = (xv + 1) % c8HashP
				} else {
					t.hash = (t.hash*1000003 + xv + 1) % c8HashP
				}
				if len(t.seq) < 200000 {
					t.seq = append(t.seq, x)
				}
				t.mu.Unlock()
				return a, nil
			}, Args: 1, IsPure: false})
	}
	return fg
}

type c8Run struct {
	Shape   int     `json:"shape"`
	Kind    string  `json:"kind"` // probe base size big trunc fail build
	N       int64   `json:"n"`
	V       int64   `json:"v"`
	K       int64   `json:"k"`
	J       []int64 `json:"j"`
	FailId  int     `json:"failId"`
	Out     string  `json:"out"`
	Ticks   string  `json:"ticks"`
	Counts  []int64 `json:"counts"`
	HostN   int64   `json:"hostN"`
	Ms      float64 `json:"ms"`
	Base    int     `json:"base"` // sequence number of the baseline run of this (shape,k); -1 if none
	Seq     int     `json:"seq"`
	InBase  bool    `json:"inBase"`
	InMin   bool    `json:"inMin"`
	HaveMin bool    `json:"haveMin"`
	Lmin    int64   `json:"lmin"`
	Decided bool    `json:"decided"`
	Start   bool    `json:"start,omitempty"` // announcement before a long run
	Err     string  `json:"err,omitempty"`   // worker-side problem (generator error ...)
	Done    bool    `json:"done,omitempty"`
}

type c8Job struct {
	Mode   string     `json:"mode"` // explore | rerun
	Shapes []*c8Shape `json:"shapes"`
	Runs   []c8Run    `json:"runs,omitempty"`
	Fails  int        `json:"fails"`
}

type c8Compiled struct {
	f, build, probe funcGen.Func[value.Value]
}

func c8compile(fg *value.FunctionGenerator, sh *c8Shape) (*c8Compiled, error) {
	args := []string{"n", "v", "src"}
	for i := 0; i < 10; i++ {
		args = append(args, fmt.Sprintf("j%d", i))
	}
	f, _, err := fg.Generate(sh.program(), args...)
	if err != nil {
		return nil, fmt.Errorf("%s: %w", sh.program(), err)
	}
	b, _, err := fg.Generate(sh.buildProgram(), args...)
	if err != nil {
		return nil, fmt.Errorf("%s: %w", sh.buildProgram(), err)
	}
	p, _, err := fg.Generate(sh.probeProgram(), args...)
	if err != nil {
		return nil, fmt.Errorf("%s: %w", sh.probeProgram(), err)
	}
	return &c8Compiled{f: f, build: b, probe: p}, nil
}

func c8canon(st funcGen.Stack[value.Value], v value.Value) (string, error) {
	switch x := v.(type) {
	case value.Int:
		return fmt.Sprintf("i:%d", int64(x)), nil
	case value.Bool:
		if x {
			return "b:1", nil
		}
		return "b:0", nil
	case *value.List:
		sl, err := x.ToSlice(st)
		if err != nil {
			return "", err
		}
		parts := make([]string, len(sl))
		for i, e := range sl {
			iv, ok := e.(value.Int)
			if !ok {
				return "?", nil
			}
			parts[i] = strconv.FormatInt(int64(iv), 10)
		}
		return "l:" + strings.Join(parts, ","), nil
	case value.Map:
		var keys []string
		vals := map[string]value.Value{}
		x.Iter(func(k string, v value.Value) bool {
			keys = append(keys, k)
			vals[k] = v
			return true
		})
		sort.Strings(keys)
		var parts []string
		for _, k := range keys {
			s, err := c8canon(st, vals[k])
			if err != nil {
				return "", err
			}
			parts = append(parts, s)
		}
		return strings.Join(parts, ";"), nil
	}
	return "?", nil
}

// c8exec runs one compiled function on (n, v, js) and fills outcome and ticks.
func c8execOnce(f funcGen.Func[value.Value], r *c8Run) {
	c8resetTicks()
	var hostN int64
	n := r.N
	jh := r.J[10]
	host := value.NewListFromIterable(func(st funcGen.Stack[value.Value]) iterator.Producer[value.Value] {
		return func(yield iterator.Consumer[value.Value]) {
			for i := int64(0); i < n; i++ {
				hostN++
				if i == jh {
					if !yield(nil, fmt.Errorf("x")) {
						return
					}
				} else if !yield(value.Int(i), nil) {
					return
				}
			}
		}
	})
	args := []value.Value{value.Int(r.N), value.Int(r.V), host}
	for i := 0; i < 10; i++ {
		args = append(args, value.Int(r.J[i]))
	}
	st := funcGen.NewStack[value.Value](args...)
	t0 := time.Now()
	out := "ERR"
	func() {
		// a returned lazy list is forced by the host (here), outside the recover of the generated function
		defer func() {
			if rec := recover(); rec != nil {
				out = fmt.Sprintf("PANIC %v", rec)
			}
		}()
		res, err := f(st)
		if err == nil {
			s, err2 := c8canon(st, res)
			if err2 == nil {
				out = "OK " + s
			}
		}
	}()
	r.Ms = float64(time.Since(t0).Microseconds()) / 1000
	r.Out = out
	r.HostN = hostN
	var parts []string
	r.Counts = make([]int64, 10)
	for i := range c8ticks {
		t := &c8ticks[i]
		t.mu.Lock()
		r.Counts[i] = t.count
		if t.count > 0 {
			parts = append(parts, fmt.Sprintf("%d:%d:%d", i, t.count, t.hash))
		}
		t.mu.Unlock()
	}
	r.Ticks = strings.Join(parts, " ")
}

// c8exec evaluates once; an evaluation that took 1.8 ms or longer is repeated until two consecutive
// evaluations agree: MapAuto/FilterAuto switch to their parallel mode when eleven consecutive elements
// took more than 2.2 ms (a stall of the machine is enough), and the sequential profile is what is compared.
func c8exec(f funcGen.Func[value.Value], r *c8Run) {
	c8execOnce(f, r)
	for i := 0; i < 4 && r.Ms >= 1.8; i++ {
		out, ticks := r.Out, r.Ticks
		c8execOnce(f, r)
		if r.Out == out && r.Ticks == ticks {
			return
		}
	}
}

func c8seqOf(id int, hostN int64) []int64 {
	if id == 10 {
		s := make([]int64, hostN)
		for i := range s {
			s[i] = int64(i)
		}
		return s
	}
	t := &c8ticks[id]
	t.mu.Lock()
	defer t.mu.Unlock()
	return append([]int64(nil), t.seq...)
}

func c8contains(s []int64, x int64) bool {
	for _, y := range s {
		if y == x {
			return true
		}
	}
	return false
}

func c8noFail() []int64 {
	j := make([]int64, c8Ids)
	for i := range j {
		j[i] = c8NoFail
	}
	return j
}

func c08Worker(args []string) {
	// a materialised 10^11-element list must fail fast instead of taking the machine down
	lim := syscall.Rlimit{Cur: 24 << 30, Max: 24 << 30}
	_ = syscall.Setrlimit(syscall.RLIMIT_AS, &lim)
	data, err := io.ReadAll(os.Stdin)
	if err != nil {
		os.Exit(2)
	}
	var job c8Job
	if err := json.Unmarshal(data, &job); err != nil {
		fmt.Fprintln(os.Stderr, "c08 worker: bad job:", err)
		os.Exit(2)
	}
	w := bufio.NewWriter(os.Stdout)
	seq := 0
	emit := func(r *c8Run) {
		if job.Mode != "rerun" {
			r.Seq = seq
		}
		seq++
		b, _ := json.Marshal(r)
		w.Write(b)
		w.WriteByte('\n')
		w.Flush()
	}
	announce := func(r *c8Run) {
		a := *r
		a.Start = true
		b, _ := json.Marshal(&a)
		w.Write(b)
		w.WriteByte('\n')
		w.Flush()
	}
	fg := c8newFG()
	if job.Mode == "rerun" {
		byIdx := map[int]*c8Shape{}
		comp := map[int]*c8Compiled{}
		for _, sh := range job.Shapes {
			byIdx[sh.Idx] = sh
		}
		for i := range job.Runs {
			r := job.Runs[i]
			sh := byIdx[r.Shape]
			c, ok := comp[r.Shape]
			if !ok {
				c, err = c8compile(fg, sh)
				if err != nil {
					r.Err = err.Error()
					emit(&r)
					continue
				}
				comp[r.Shape] = c
			}
			announce(&r)
			if r.Kind == "build" {
				c8exec(c.build, &r)
			} else {
				c8exec(c.f, &r)
			}
			emit(&r)
		}
		emit(&c8Run{Done: true})
		return
	}
	for _, sh := range job.Shapes {
		c8explore(fg, sh, job.Fails, emit, announce)
	}
	emit(&c8Run{Done: true})
}

// c8explore: the adaptive protocol for one shape (see file comment).
func c8explore(fg *value.FunctionGenerator, sh *c8Shape, fails int, emit, announce func(*c8Run)) {
	c, err := c8compile(fg, sh)
	if err != nil {
		emit(&c8Run{Shape: sh.Idx, Kind: "compile", Err: err.Error(), J: c8noFail()})
		return
	}
	rng := rand.New(rand.NewSource(sh.Seed))
	mk := func(kind string, n, v, k int64) *c8Run {
		return &c8Run{Shape: sh.Idx, Kind: kind, N: n, V: v, K: k, J: c8noFail(), FailId: -1, Base: -1}
	}
	// building without consuming
	b := mk("build", 100, 0, 0)
	c8exec(c.build, b)
	emit(b)
	// probe: the values reaching the consumer (only needed for value targets)
	var probe []int64
	if sh.ValTgt {
		p := mk("probe", 5000, 0, 0)
		c8exec(c.probe, p)
		if strings.HasPrefix(p.Out, "OK l:") && len(p.Out) > 5 {
			for _, s := range strings.Split(p.Out[5:], ",") {
				x, _ := strconv.ParseInt(s, 10, 64)
				probe = append(probe, x)
			}
		}
	}
	main := sh.hasMain()
	pulledOf := func(r *c8Run) int64 {
		if sh.hasHost() {
			return r.HostN
		}
		return r.Counts[0]
	}
	for _, k := range sh.Ks {
		v := k
		if sh.ValTgt {
			if int(k) < len(probe) {
				v = probe[k]
			} else {
				v = -7 // never occurs: all stream values are >= 0
			}
		}
		// baseline; evaluated until two consecutive evaluations agree, so that a timing-based switch of
		// MapAuto to its parallel mode (a stall of 2 ms inside the first twelve elements) does not become
		// the reference of all the runs that follow
		stable := func(r *c8Run) {
			c8exec(c.f, r)
			for i := 0; i < 4; i++ {
				out, ticks := r.Out, r.Ticks
				c8exec(c.f, r)
				if r.Out == out && r.Ticks == ticks {
					return
				}
			}
		}
		base := mk("base", 1000, v, k)
		stable(base)
		decided := main && pulledOf(base) < base.N
		if main && !decided {
			b2 := mk("base", 20000, v, k)
			stable(b2)
			if pulledOf(b2) < b2.N {
				base.Decided = false
				emit(base)
				base = b2
				decided = true
			}
		}
		base.Decided = decided
		emit(base)
		baseSeq := base.Seq
		baseSeqs := make([][]int64, c8Ids)
		for _, id := range sh.Ids {
			baseSeqs[id] = c8seqOf(id, base.HostN)
		}
		if sh.hasHost() {
			baseSeqs[10] = c8seqOf(10, base.HostN)
		}
		failN := base.N
		lmin := int64(-1)
		var minSeqs [][]int64
		if decided {
			L := pulledOf(base)
			sizes := []int64{L, L + 1, c8Big}
			if sh.isMulti() && base.Out == "ERR" {
				// a failed multiUse consumer is noticed by the run loop only when a further element reaches
				// it, at a racy point: behind a sparse filter that can be the whole source - no 10^11 here
				sizes = sizes[:2]
			}
			for _, n := range sizes {
				r := mk("size", n, v, k)
				if n == c8Big {
					r.Kind = "big"
					announce(r)
				}
				r.Base = baseSeq
				c8exec(c.f, r)
				r.Decided = true
				emit(r)
			}
			// shortest source with the baseline outcome
			var prev *c8Run
			prevSeqs := baseSeqs
			for step := int64(1); step <= 14; step++ {
				n := L - step
				if n < 0 {
					// even the empty main source gives the baseline outcome: the decision does not depend on
					// it, there is no "shortest deciding source" to compare with
					lmin = 0
					minSeqs = nil
					break
				}
				r := mk("trunc", n, v, k)
				r.Base = baseSeq
				c8exec(c.f, r)
				emit(r)
				if r.Out != base.Out {
					lmin = n + 1
					minSeqs = prevSeqs
					break
				}
				prev = r
				prevSeqs = make([][]int64, c8Ids)
				for _, id := range sh.Ids {
					prevSeqs[id] = c8seqOf(id, r.HostN)
				}
				if sh.hasHost() {
					prevSeqs[10] = c8seqOf(10, r.HostN)
				}
			}
			_ = prev
		}
		// throwing element placements
		ids := append([]int(nil), sh.Ids...)
		if sh.hasHost() {
			ids = append(ids, 10)
		}
		rng.Shuffle(len(ids), func(i, j int) { ids[i], ids[j] = ids[j], ids[i] })
		if len(ids) > fails {
			ids = ids[:fails]
		}
		for _, id := range ids {
			T := baseSeqs[id]
			cand := map[int64]bool{}
			if len(T) > 0 {
				last := T[len(T)-1]
				cand[T[0]] = true
				cand[T[rng.Intn(len(T))]] = true
				cand[last] = true
				if len(T) > 1 {
					cand[T[len(T)-2]] = true
					cand[2*last-T[len(T)-2]] = true
				}
				if lmin >= 0 && minSeqs != nil && len(minSeqs[id]) > 0 {
					cand[minSeqs[id][len(minSeqs[id])-1]] = true
				}
				cand[last+1] = true
				cand[last+int64(1+rng.Intn(5))] = true
			} else {
				cand[0] = true
				cand[int64(rng.Intn(10))] = true
			}
			var cs []int64
			for x := range cand {
				if x >= 0 {
					cs = append(cs, x)
				}
			}
			sort.Slice(cs, func(i, j int) bool { return cs[i] < cs[j] })
			for _, j := range cs {
				r := mk("fail", failN, v, k)
				r.J[id] = j
				r.FailId = id
				r.Base = baseSeq
				r.InBase = c8contains(T, j)
				r.Lmin = lmin
				if lmin >= 0 && minSeqs != nil {
					r.HaveMin = true
					r.InMin = c8contains(minSeqs[id], j)
				}
				r.Decided = decided
				c8exec(c.f, r)
				emit(r)
				// the same placement on 10^11 elements - only if the finite run stopped by itself: after an
				// error multiUse (like top behind a sparse accept) needs one more element to reach it
				if decided && pulledOf(r) < r.N && rng.Intn(3) == 0 && !(sh.isMulti() && (r.InBase || base.Out == "ERR" || r.Out == "ERR")) {
					rb := *r
					rb.J = append([]int64(nil), r.J...)
					rb.N = c8Big
					announce(&rb)
					c8exec(c.f, &rb)
					emit(&rb)
				}
			}
		}
	}
}

// ---- the parent: orchestration, predicates, correspondence ---------------------------------------------

type c8tail struct {
	mu  sync.Mutex
	buf []byte
}

func (t *c8tail) Write(p []byte) (int, error) {
	t.mu.Lock()
	t.buf = append(t.buf, p...)
	if len(t.buf) > 6000 {
		t.buf = t.buf[len(t.buf)-3000:]
	}
	t.mu.Unlock()
	return len(p), nil
}

func (t *c8tail) String() string {
	t.mu.Lock()
	defer t.mu.Unlock()
	b := t.buf
	if len(b) > 1500 {
		b = b[:1500]
	}
	return string(b)
}

func c8spawn(job *c8Job, onRun func(*c8Run), onDead func(last *c8Run, why string)) {
	exe, _ := os.Executable()
	cmd := exec.Command(exe, "worker", "c08")
	data, _ := json.Marshal(job)
	cmd.Stdin = strings.NewReader(string(data))
	errTail := &c8tail{}
	cmd.Stderr = errTail
	out, err := cmd.StdoutPipe()
	if err != nil {
		fatal("c08: pipe: %v", err)
	}
	if err := cmd.Start(); err != nil {
		fatal("c08: start worker: %v", err)
	}
	lines := make(chan string, 1024)
	go func() {
		sc := bufio.NewScanner(out)
		sc.Buffer(make([]byte, 1<<20), 1<<28)
		for sc.Scan() {
			lines <- sc.Text()
		}
		close(lines)
	}()
	var last *c8Run
	done := false
	for !done {
		select {
		case l, ok := <-lines:
			if !ok {
				cmd.Wait()
				onDead(last, "worker process died (crash / out of memory); stderr: "+errTail.String())
				return
			}
			var r c8Run
			if err := json.Unmarshal([]byte(l), &r); err != nil {
				continue
			}
			if r.Done {
				done = true
				break
			}
			if r.Start {
				last = &r
				continue
			}
			last = nil
			onRun(&r)
		case <-time.After(25 * time.Second):
			cmd.Process.Kill()
			cmd.Wait()
			onDead(last, "no answer within 25 s (evaluation does not terminate promptly)")
			return
		}
	}
	cmd.Wait()
}

func c8consKind(sh *c8Shape) string {
	if sh.Cons.Kind != "multi" {
		return sh.Cons.Kind
	}
	var ks []string
	for _, b := range sh.Cons.Branches {
		ks = append(ks, b.Cons.Kind)
	}
	return "multi(" + strings.Join(ks, ",") + ")"
}

func c8stageKinds(l *c8List, acc map[string]bool) {
	if l == nil {
		return
	}
	if l.Kind == "st" {
		acc[l.St.Kind] = true
	} else {
		acc["src:"+l.Kind] = true
	}
	c8stageKinds(l.A, acc)
	c8stageKinds(l.B, acc)
	c8stageKinds(l.L, acc)
}

func c8parseTicks(s string) map[int][2]int64 {
	m := map[int][2]int64{}
	for _, f := range strings.Fields(s) {
		p := strings.Split(f, ":")
		if len(p) != 3 {
			continue
		}
		id, _ := strconv.Atoi(p[0])
		c, _ := strconv.ParseInt(p[1], 10, 64)
		h, _ := strconv.ParseInt(p[2], 10, 64)
		m[id] = [2]int64{c, h}
	}
	return m
}

type c8Issue struct {
	run      c8Run
	sig      string
	what     string
	model    string
	corrOnly bool // model/impl difference with all property predicates holding
}

// c8parallelDemand: the same short-circuit consumers behind a map/accept stage that HAS switched to its parallel
// mode (300 µs host function in the closure). The workers read ahead, so the bound is the decisive position plus
// the sequential prefix, the workers and the dispatch slack (64 in all, expected; ten times that plus 500 is the
// threshold of a violation, because the read-ahead depends on timing) instead of an exact count — but it must
// not depend on the length of the source, and a source of 10^9 elements must not be walked.
func c8parallelDemand(c *Ctx) {
	type pcase struct {
		wc    *workerCase
		limit int
		want  string
	}
	var cases []*pcase
	var wcs []*workerCase
	stages := []string{".map(x -> slow(tick(x)))", ".accept(x -> slow(tick(x)) >= 0)", ".map(x -> slow(tick(x)) + 0).map(x -> x)", ".accept(x -> slow(tick(x)) % 7 != 3).map(x -> x)",
		".map(x -> x).accept(x -> slow(tick(x)) >= 0)"}
	for _, n := range []string{"3000", "1000000000"} {
		for si, st := range stages {
			for _, k := range []int{0, 5, 13, 40, 100} {
				cons := []struct{ src, want string }{
					{fmt.Sprintf(".skip(%d).first()", k), ""}, {fmt.Sprintf(".top(%d).size()", k+1), fmt.Sprintf("i%d", k+1)},
					{fmt.Sprintf(".indexWhere(e -> e >= %d) >= 0", k), "b1"}, {fmt.Sprintf(".present(e -> e >= %d)", k), "b1"}}
				for _, cn := range cons {
					// accept stage 3 drops a seventh of the elements: the decisive position moves by that factor
					limit := k + 64
					if si == 3 {
						limit = k*7/6 + 72
					}
					wc := &workerCase{id: fmt.Sprintf("pd%d", len(cases)), a: 0, flags: "opt", src: "numbers(" + n + ")" + st + cn.src}
					cases = append(cases, &pcase{wc: wc, limit: limit, want: cn.want})
					wcs = append(wcs, wc)
				}
			}
		}
	}
	parallelBatches(wcs, 12, false, 16, 60*time.Second)
	for _, pc := range cases {
		c.Case("parallel-demand|"+pc.wc.src, true)
		c.Count("parallel-demand")
		replay := map[string]any{"program": pc.wc.src, "outcome": pc.wc.outcome, "closure_evaluations": pc.wc.ticks, "limit": pc.limit, "goroutines": pc.wc.goroutines}
		switch {
		case pc.wc.outcome == "TIMEOUT" || pc.wc.outcome == "CRASH":
			c.Violation("parallel-stage-walks-the-source", "a short-circuit consumer behind a parallel stage did not return (the source is walked to its end, or the stage hangs)", replay)
		case pc.want != "" && pc.wc.outcome != "OK "+pc.want:
			c.Violation("parallel-demand-wrong-result", "unexpected outcome, want "+pc.want, replay)
		case pc.wc.ticks > pc.limit && pc.wc.ticks <= 10*pc.limit+500:
			// the read-ahead of a parallel stage is not bounded by the number of workers: while the collector waits for the
			// item that is next in sequence (or for the processor) the other workers go on. On a busy machine the expected
			// figure is exceeded. A figure of more than twice the expected bound (+32) is therefore confirmed by running the
			// case ALONE three times: read-ahead under load does not survive three quiet re-runs, a stage that really reads
			// further ahead (round-5 seed C08-15: the stop flag polled on every 256th item only) does so every time.
			least := pc.wc.ticks
			if pc.wc.ticks > 2*pc.limit+32 {
				for i := 0; i < 3 && least > 2*pc.limit+32; i++ {
					again := &workerCase{id: pc.wc.id + "r", a: pc.wc.a, flags: pc.wc.flags, src: pc.wc.src}
					runWorkerBatch([]*workerCase{again}, false, 16, 60*time.Second)
					if again.outcome == pc.wc.outcome && again.ticks < least {
						least = again.ticks
					}
				}
			}
			if pc.wc.ticks > 2*pc.limit+32 && least > 2*pc.limit+32 {
				replay["closure_evaluations_least_of_four_runs"] = least
				c.Violation("parallel-stage-demand-beyond-readahead", fmt.Sprintf("the closure of the parallel stage was evaluated %d times (at least %d in three further runs of the case alone), more than twice the decisive prefix plus the workers' read-ahead (%d)", pc.wc.ticks, least, pc.limit), replay)
			} else {
				c.Count("parallel-demand:beyond-expected-readahead(busy machine)")
			}
		case pc.wc.ticks > pc.limit:
			c.Violation("parallel-stage-demand-beyond-readahead", fmt.Sprintf("the closure of the parallel stage was evaluated %d times, more than the decisive prefix plus the workers' read-ahead (%d)", pc.wc.ticks, pc.limit), replay)
		}
		if pc.wc.goroutines > 1 {
			c.Count("parallel-demand:switched")
		}
	}
}

// c8reuse: one lazy list value bound by let and consumed two or three times by short-circuit consumers; every
// use may demand its own prefix again, but none may walk the list (second-use caches, materialising on reuse).
func c8reuse(c *Ctx) {
	type rcase struct {
		wc    *workerCase
		limit int
	}
	var cases []*rcase
	var wcs []*workerCase
	stages := []struct {
		src string
		per int // closure evaluations per pulled source element, at most
	}{{".map(x -> tick(x))", 1}, {".accept(x -> tick(x) >= 0)", 1}, {".combine((p, q) -> tick(p) + q)", 1}, {".iir(x -> tick(x), (x, l) -> tick(x) + l)", 1},
		{".map(x -> tick(x)).skip(1)", 1}, {".number((i, x) -> tick(x) + i)", 1}}
	uses := func(k int) []struct {
		src    string
		demand int
	} {
		return []struct {
			src    string
			demand int
		}{{".first()", 1}, {fmt.Sprintf(".skip(%d).first()", k), k + 1}, {fmt.Sprintf(".top(%d).size()", k), k}, {fmt.Sprintf(".indexWhere(e -> e >= %d)", k), k + 1},
			{fmt.Sprintf(".top(%d).sum()", k), k}, {fmt.Sprintf(".present(e -> e >= %d)", k), k + 1}}
	}
	for _, n := range []string{"1000", "9000", "1000000000"} {
		for _, st := range stages {
			for _, k := range []int{2, 7, 50} {
				us := uses(k)
				for a := range us {
					for b := range us {
						if (a+b+k)%3 != 0 { // a third of the pairs, deterministically
							continue
						}
						third := us[(a+b)%len(us)]
						src := fmt.Sprintf("let l = numbers(%s)%s; [l%s, l%s, l%s].size()", n, st.src, us[a].src, us[b].src, third.src)
						// per use: its demand + the stage's own look-ahead (combine/skip: 1..2) + the consumer's read-ahead (1)
						limit := st.per * (us[a].demand + us[b].demand + third.demand + 3*4)
						wc := &workerCase{id: fmt.Sprintf("ru%d", len(cases)), a: 0, flags: "opt", src: src}
						cases = append(cases, &rcase{wc: wc, limit: limit})
						wcs = append(wcs, wc)
					}
				}
			}
		}
	}
	parallelBatches(wcs, 12, false, 4, 60*time.Second)
	for _, rc := range cases {
		c.Case("reuse|"+rc.wc.src, true)
		c.Count("reuse")
		replay := map[string]any{"program": rc.wc.src, "outcome": rc.wc.outcome, "closure_evaluations": rc.wc.ticks, "limit": rc.limit}
		switch {
		case rc.wc.outcome == "TIMEOUT" || rc.wc.outcome == "CRASH":
			c.Violation("reused-list-is-walked", "short-circuit consumers of a let-bound lazy list did not return", replay)
		case rc.wc.outcome != "OK i3":
			c.Violation("reuse-wrong-result", "unexpected outcome, want i3", replay)
		case c8overDemand(c, rc.wc, rc.limit):
			c.Violation("reused-list-demand-beyond-prefix", fmt.Sprintf("the closures of a let-bound lazy list consumed three times were evaluated %d times, more than the three demanded prefixes allow (%d)", rc.wc.ticks, rc.limit), replay)
		}
	}
}

// c8listTilde: `[x, y] ~ list` ("all items of the left list occur in the right one") decides at the position where the
// last of them is found; the right list must not be walked beyond it (implementation-side bound, no model counterpart)
func c8listTilde(c *Ctx) {
	type tcase struct {
		wc    *workerCase
		limit int
		want  string
	}
	var cases []*tcase
	var wcs []*workerCase
	for _, n := range []string{"1000", "1000000000"} {
		for _, st := range []string{".map(x -> tick(x))", ".accept(x -> tick(x) >= 0)", ".number((i, x) -> tick(x))", ".map(x -> tick(x)).skip(0)", ".iir(x -> tick(x), (x, l) -> x)"} {
			for _, k := range []int{0, 3, 40, 200} {
				for _, lhs := range []struct {
					src   string
					last  int
					found bool
				}{{fmt.Sprintf("[%d, 2]", k), max(k, 2), true}, {fmt.Sprintf("[%d]", k), k, true}, {"[]", -1, true}, {fmt.Sprintf("[2, %d, 1]", k), max(k, 2), k != 1 && k != 2}} {
					if !lhs.found {
						continue
					}
					wc := &workerCase{id: fmt.Sprintf("lt%d", len(cases)), a: 0, flags: "opt", src: lhs.src + " ~ numbers(" + n + ")" + st}
					cases = append(cases, &tcase{wc: wc, limit: 2 * (lhs.last + 1 + 4), want: "OK b1"})
					wcs = append(wcs, wc)
					// the answer is fixed with the last looked-for item: an element BEHIND it is never asked for, so an error item
					// directly behind it (distance 1, 2, 3) cannot show
					if lhs.last >= 0 && st == ".map(x -> tick(x))" {
						for d := 1; d <= 3; d++ {
							for _, via := range []string{"", ".skip(0)", ".accept(x -> x >= 0)"} {
								wc := &workerCase{id: fmt.Sprintf("lt%d", len(cases)), a: 0, flags: "opt",
									src: fmt.Sprintf("%s ~ numbers(%s).map(x -> if x = %d then throw(\"behind the decisive item\") else tick(x))%s", lhs.src, n, lhs.last+d, via)}
								cases = append(cases, &tcase{wc: wc, limit: 2 * (lhs.last + 1 + 4), want: "OK b1"})
								wcs = append(wcs, wc)
							}
						}
					}
				}
			}
		}
	}
	parallelBatches(wcs, 12, false, 4, 60*time.Second)
	for _, tc := range cases {
		c.Case("list-tilde|"+tc.wc.src, true)
		c.Count("list-tilde")
		replay := map[string]any{"program": tc.wc.src, "outcome": tc.wc.outcome, "closure_evaluations": tc.wc.ticks, "limit": tc.limit}
		switch {
		case tc.wc.outcome == "TIMEOUT" || tc.wc.outcome == "CRASH":
			c.Violation("list-tilde-walks-the-list", "`[..] ~ list` did not return on a list of 10^9 elements although all items occur at its head", replay)
		case tc.wc.outcome != tc.want:
			c.Violation("list-tilde-wrong-result", "unexpected outcome, want "+tc.want, replay)
		case c8overDemand(c, tc.wc, tc.limit):
			c.Violation("list-tilde-demand-beyond-decisive", fmt.Sprintf("`[..] ~ list` evaluated the closures of the right list %d times, the last looked-for item allows %d", tc.wc.ticks, tc.limit), replay)
		}
	}
}

// c8lazyWrappers: language constructs a lazy pipeline passes through on its way to the consumer (try/catch, if, switch,
// let, map field, list element, closure argument and result, replaceList) hand it on unevaluated
// c8overDemand: a sequential stage whose first items happen to take long (a busy machine) switches to its parallel mode, which
// reads ahead by an amount that depends on timing. A demand figure above the expected bound is therefore confirmed by running
// the case alone, twice: a change that really evaluates more does so every time; read-ahead under load does not survive a
// quiet re-run. A figure beyond every read-ahead (ten times the bound and 500 more) needs no confirmation.
func c8overDemand(c *Ctx, wc *workerCase, limit int) bool {
	if wc.ticks <= limit {
		return false
	}
	if wc.ticks > 10*limit+500 {
		return true
	}
	for i := 0; i < 2; i++ {
		again := &workerCase{id: wc.id + "r", a: wc.a, flags: wc.flags, src: wc.src}
		runWorkerBatch([]*workerCase{again}, false, 4, 60*time.Second)
		if again.outcome == wc.outcome && again.ticks <= limit {
			c.Count("demand-above-bound-not-confirmed-alone")
			return false
		}
		if again.ticks > wc.ticks {
			wc.ticks = again.ticks
		}
	}
	return true
}

// c8argumentLists: a list handed to a stage as an ARGUMENT (cross, merge, `+`, zip-like combine of two lists) is as lazy as the
// receiver: building the stage evaluates nothing, a short-circuit consumer demands only the prefix it needs, and an error
// item behind that prefix does not show
func c8argumentLists(c *Ctx) {
	type acase struct {
		wc    *workerCase
		limit int
	}
	var cases []*acase
	var wcs []*workerCase
	add := func(src string, limit int) {
		wc := &workerCase{id: fmt.Sprintf("al%d", len(cases)), a: 0, flags: "opt", src: src}
		cases = append(cases, &acase{wc: wc, limit: limit})
		wcs = append(wcs, wc)
	}
	for _, n := range []string{"50", "1000000000"} {
		arg := "numbers(" + n + ").map(x -> tick(x))"
		argErr := "numbers(" + n + ").map(x -> if x = 7 then throw(\"behind the demand\") else tick(x))"
		for _, b := range []string{arg, argErr} {
			// built, never consumed
			add("let p = numbers(3).cross("+b+", (u, v) -> u + v); 1", 0)
			add("let p = numbers(3).merge("+b+", (u, v) -> u < v); 1", 0)
			add("let p = numbers(3) + "+b+"; 1", 0)
			add("let p = [numbers(3).cross("+b+", (u, v) -> u + v)]; p.size()", 0)
			// short-circuit consumers
			add("numbers(3).cross("+b+", (u, v) -> u * 100 + v).first()", 1+4)
			add("numbers(3).cross("+b+", (u, v) -> u * 100 + v).top(3).size()", 3+4)
			add("numbers(3).cross("+b+", (u, v) -> u * 100 + v).present(e -> e = 2)", 3+4)
			// (merge reads its sources ahead through channels: the bound is generous, the error item sits at 7 all the same)
			add("numbers(3).merge("+b+", (u, v) -> u < v).top(4).size()", 4+40)
			add("(numbers(3) + "+b+").top(5).size()", 2+4)
			add("(numbers(3) + "+b+").skip(3).first()", 1+4)
		}
	}
	parallelBatches(wcs, 12, false, 4, 60*time.Second)
	for _, ac := range cases {
		c.Case("argument-list|"+ac.wc.src, true)
		c.Count("argument-list")
		replay := map[string]any{"program": ac.wc.src, "outcome": ac.wc.outcome, "closure_evaluations": ac.wc.ticks, "limit": ac.limit}
		switch {
		case ac.wc.outcome == "TIMEOUT" || ac.wc.outcome == "CRASH":
			c.Violation("argument-list-walked", "a lazy list handed to a stage as an argument was walked to its end", replay)
		case !strings.HasPrefix(ac.wc.outcome, "OK "):
			c.Violation("argument-list-error-behind-demand", "an error item of an argument list behind the demanded prefix shows (or the program fails otherwise): "+ac.wc.outcome, replay)
		case c8overDemand(c, ac.wc, ac.limit):
			c.Violation("argument-list-evaluated", fmt.Sprintf("the closures of an argument list were evaluated %d times, the consumer allows %d", ac.wc.ticks, ac.limit), replay)
		}
	}
}

// c8dryFilter: top(n) behind a filter that RUNS DRY. `iterator.FirstN` (external library) returns when item n+1 ARRIVES; behind an
// accept that lets exactly n items through and nothing afterwards that item never arrives, and the whole source is walked although
// the result has been decided with the n-th item (open finding C08-top-behind-dry-filter, reported by a round-5 seeding
// sub-agent: `numbers(100000000000).accept(n -> n < 3).top(3).size()` does not terminate). The sources here are finite (two
// million elements) so that the case costs a second, not a time-out; the violation is the number of closure evaluations.
func c8dryFilter(c *Ctx) {
	var wcs []*workerCase
	for i, src := range []string{
		"numbers(2000000).accept(n -> tick(n) < 3).top(3).size()",
		"numbers(2000000).accept(n -> tick(n) < 3).top(3).sum()",
		"numbers(2000000).map(n -> tick(n)).accept(n -> n < 5).top(5).map(n -> n + 1).size()",
		"numbers(2000000).accept(n -> tick(n) < 3).multiUse({t: l -> l.top(3).size()}).t",
	} {
		wcs = append(wcs, &workerCase{id: fmt.Sprintf("df%d", i), a: 0, flags: "opt", src: src})
	}
	parallelBatches(wcs, 4, false, 4, 120*time.Second)
	for _, wc := range wcs {
		c.Case("dry-filter|"+wc.src, true)
		c.Count("top-behind-dry-filter")
		replay := map[string]any{"program": wc.src, "outcome": wc.outcome, "closure_evaluations": wc.ticks, "limit": 16}
		switch {
		case wc.outcome == "TIMEOUT" || wc.outcome == "CRASH" || !strings.HasPrefix(wc.outcome, "OK "):
			c.Violation("top-behind-dry-filter-fails", "unexpected outcome "+wc.outcome, replay)
		case wc.ticks > 16:
			c.Violation("top-behind-dry-filter", fmt.Sprintf("top(n) had its n items after a handful of source elements, but the closures of the pipeline were evaluated %d times: the source is walked to its end because the stage waits for item n+1 before it stops", wc.ticks), replay)
		}
	}
}

// c8abruptExit: the iteration is left by a Go PANIC of the consumer or of a comparison function (a host function that panics, the
// value-stack guard), caught by try/catch - not by the consumer answering "stop". Whatever runs on behalf of the pipeline
// (the producer goroutines of merge, the workers of a parallel stage, the multiUse source) has to stop all the same: no closure
// behind the point of the fault may be evaluated, also not in the background after the evaluation has returned (round-5 seed
// C08-14: merge set its stop flag only when yield returned false, so after a panic both sources were read to their end).
// The worker waits until the counter of closure evaluations has come to rest (flag "settle", at most 1.5 s) before it reports.
func c8abruptExit(c *Ctx) {
	type xcase struct {
		wc    *workerCase
		limit int
	}
	var cases []*xcase
	var wcs []*workerCase
	add := func(src string, limit int) {
		wc := &workerCase{id: fmt.Sprintf("ax%d", len(cases)), a: 0, flags: "opt settle", src: src}
		cases = append(cases, &xcase{wc: wc, limit: limit})
		wcs = append(wcs, wc)
	}
	for _, n := range []string{"100000", "1000000000"} {
		src := "numbers(" + n + ").map(x -> tick(x))"
		for _, exit := range []string{"boom(@)", "deep(@)", "throw(\"stop\")"} {
			x := func(arg string) string { return strings.ReplaceAll(exit, "@", arg) }
			pre := "func deep(n) 1 + deep(n + 1); "
			add(pre+"try "+src+".merge("+src+", (p, q) -> if p >= 10 then "+x("p")+" else p < q).size() catch 0 - 1", 2*10+80)
			add(pre+"try "+src+".merge(numbers("+n+"), (p, q) -> p < q).present(e -> if e >= 10 then "+x("e")+" else false) catch 0 - 1", 10+80)
			add(pre+"try numbers("+n+").merge("+src+", (p, q) -> p < q).reduce((p, q) -> if q >= 10 then "+x("q")+" else p + q) catch 0 - 1", 10+80)
			add(pre+"try "+src+".present(e -> if e >= 10 then "+x("e")+" else false) catch 0 - 1", 10+2)
			add(pre+"try "+src+".accept(e -> e % 2 = 0).reduce((p, q) -> if q >= 10 then "+x("q")+" else p + q) catch 0 - 1", 10+3)
			add(pre+"try numbers("+n+").map(x -> slow(tick(x))).present(e -> if e >= 20 then "+x("e")+" else false) catch 0 - 1", 2*(20+64)+32)
			add(pre+"try "+src+".multiUse({u: l -> l.present(e -> if e >= 10 then "+x("e")+" else false)}).u catch 0 - 1", 10+40)
			add(pre+"try [1, 2].cross("+src+", (u, v) -> if v >= 10 then "+x("v")+" else u + v).size() catch 0 - 1", 10+3)
		}
	}
	parallelBatches(wcs, 12, false, 16, 60*time.Second)
	for _, xc := range cases {
		c.Case("abrupt-exit|"+xc.wc.src, true)
		c.Count("abrupt-exit")
		replay := map[string]any{"program": xc.wc.src, "outcome": xc.wc.outcome, "closure_evaluations_after_settling": xc.wc.ticks, "limit": xc.limit}
		switch {
		case xc.wc.outcome == "TIMEOUT" || xc.wc.outcome == "CRASH":
			c.Violation("abrupt-exit-walks-the-source", "an iteration left by a fault did not return (or ended the process)", replay)
		case xc.wc.outcome != "OK i-1":
			c.Violation("abrupt-exit-wrong-result", "the fault was not caught by try/catch as -1: "+xc.wc.outcome, replay)
		case c8overDemand(c, xc.wc, xc.limit):
			c.Violation("abrupt-exit-source-read-on", fmt.Sprintf("after the iteration was left by a fault, %d closures of the pipeline were evaluated in all (counted after the evaluation had returned and the counter had come to rest, or 1.5 s later); the point of the fault allows %d", xc.wc.ticks, xc.limit), replay)
		}
	}
}

func c8lazyWrappers(c *Ctx) {
	type wcase struct {
		wc    *workerCase
		limit int
	}
	var cases []*wcase
	var wcs []*workerCase
	wrappers := []string{"(try @P catch [])", "(try @P catch e -> [])", "(if a >= 0 then @P else [])", "(switch a case 0 : @P default [])", "let z0 = @P; z0", "{k: @P}.k", "[@P][0]", "(x -> x)(@P)",
		"((x, y) -> x)(@P, 1)", "@P.replaceList(q -> q)", "func idl(q) q; idl(@P)", "{f: q -> q}.f(@P)", "(try (if a >= 0 then @P else []) catch [])", "[1].map(i -> @P).first()", "(@P + [])", "([] + @P)"}
	stages := []string{".map(x -> tick(x))", ".accept(x -> tick(x) >= 0)", ".number((i, x) -> tick(x))"}
	conss := []struct {
		src    string
		demand int
	}{{".first()", 1}, {".top(3).size()", 3}, {".skip(5).first()", 6}, {".present(e -> e >= 4)", 5}}
	for _, n := range []string{"1000", "1000000000"} {
		for wi, w := range wrappers {
			for si, st := range stages {
				for ci, cn := range conss {
					if (wi+si+ci)%2 == 1 && n == "1000" {
						continue
					}
					src := strings.ReplaceAll(w, "@P", "numbers("+n+")"+st) + cn.src
					wc := &workerCase{id: fmt.Sprintf("lw%d", len(cases)), a: 0, flags: "opt", src: src}
					cases = append(cases, &wcase{wc: wc, limit: cn.demand + 4})
					wcs = append(wcs, wc)
				}
			}
		}
	}
	parallelBatches(wcs, 12, false, 4, 60*time.Second)
	for _, wcse := range cases {
		c.Case("lazy-wrapper|"+wcse.wc.src, true)
		c.Count("lazy-wrapper")
		replay := map[string]any{"program": wcse.wc.src, "outcome": wcse.wc.outcome, "closure_evaluations": wcse.wc.ticks, "limit": wcse.limit}
		switch {
		case wcse.wc.outcome == "TIMEOUT" || wcse.wc.outcome == "CRASH":
			c.Violation("construct-walks-the-list", "a lazy pipeline handed through a language construct was walked to its end", replay)
		case !strings.HasPrefix(wcse.wc.outcome, "OK "):
			c.Violation("lazy-wrapper-wrong-result", "unexpected outcome", replay)
		case c8overDemand(c, wcse.wc, wcse.limit):
			c.Violation("construct-evaluates-the-list", fmt.Sprintf("a lazy pipeline handed through a language construct had its closures evaluated %d times, the consumer demands %d", wcse.wc.ticks, wcse.limit-4), replay)
		}
	}
}

func runC08(c *Ctx) {
	if os.Getenv("VERIF_REPLAY") == "" {
		c8parallelDemand(c)
		c8reuse(c)
		c8listTilde(c)
		c8lazyWrappers(c)
		c8argumentLists(c)
		c8abruptExit(c)
		c8dryFilter(c)
	}
	c.rule = "pipelines source (numbers(n) | host-provided lazy list | list literal | a+b) -> 0..3 lazy stages (map, accept, top, skip, combine, combine3, combineN, iir, iirCombine, number, compact; a counting host function inside every closure) -> short-circuit consumer (first, single, top(v).size, top(v) collected, present, indexWhere, ~, multiUse of 1..3 of them), evaluated by the real code in a child process for the decisive element at positions k in 0..200, sources of the demanded length, +1, 10^3/2*10^4 and 10^11, and a throwing element before/at/behind the decisive one in every closure and in the source; every evaluation is one case; non-trivial = at least one lazy stage between source and consumer and at least two source elements pulled (k >= 1)"
	c.assume = append(c.assume,
		"sequential profile: closures are cheap, MapAuto/FilterAuto never switch to parallel mode (a run that disagrees is repeated twice in a fresh child and reported only if it reproduces); the parallel profile (300 µs closures) is checked against a bound, decisive position + 64, that is independent of the source length (200 pipelines over 3000 and 10^9 elements); a let-bound lazy list consumed three times by short-circuit consumers is checked against the sum of the three demanded prefixes",
		"multiUse whose outcome is an error, or with a closure that throws on an evaluated value: only the outcome is compared (the run loop observes errorTerm at a racy point)",
		"element values stay far below 2^63 (no wrap-around in the affine closure grammar)")
	nShapes := c.Pick(120, 2000)
	ksPer := c.Pick(6, 10)
	fails := c.Pick(3, 3)

	var shapes []*c8Shape
	kc := 0
	nextK := func() int64 { k := int64(kc % 201); kc += 1; return k }
	addShape := func(sh *c8Shape) {
		sh.Idx = len(shapes)
		ks := map[int64]bool{}
		for len(ks) < ksPer {
			switch c.rng.Intn(5) {
			case 0:
				ks[int64(c.rng.Intn(4))] = true
			case 1:
				ks[int64(190+c.rng.Intn(11))] = true
			default:
				ks[nextK()] = true
			}
		}
		for k := range ks {
			sh.Ks = append(sh.Ks, k)
		}
		sort.Slice(sh.Ks, func(i, j int) bool { return sh.Ks[i] < sh.Ks[j] })
		shapes = append(shapes, sh)
	}
	// corpus first: the pinned observations of Appendix B (B8) and the hand-written regression shapes
	for _, sh := range c8corpus() {
		addShape(sh)
	}
	if rp := os.Getenv("VERIF_REPLAY"); rp != "" {
		shapes = nil
		data, err := os.ReadFile(rp)
		if err != nil {
			fatal("replay: %v", err)
		}
		var rep struct {
			Shape *c8Shape `json:"shape"`
		}
		if err := json.Unmarshal(data, &rep); err != nil || rep.Shape == nil {
			fatal("replay file has no shape")
		}
		rep.Shape.Idx = 0
		shapes = append(shapes, rep.Shape)
	} else {
		for i := 0; i < nShapes; i++ {
			addShape(c8genShape(c.rng, 0))
		}
	}

	var runs []c8Run
	pending := shapes
	for len(pending) > 0 {
		job := &c8Job{Mode: "explore", Shapes: pending, Fails: fails}
		maxShape := -1
		c8spawn(job, func(r *c8Run) {
			runs = append(runs, *r)
			if r.Shape > maxShape {
				maxShape = r.Shape
			}
		}, func(last *c8Run, why string) {
			// the shape being explored is the culprit
			culprit := maxShape
			if last != nil {
				culprit = last.Shape
			}
			if culprit < 0 {
				culprit = pending[0].Idx
			}
			sh := shapes[culprit]
			maxShape = culprit
			// confirm in fresh children: the announced run alone (or the whole shape), twice
			again := 0
			for attempt := 0; attempt < 2; attempt++ {
				dead := false
				job2 := &c8Job{Mode: "explore", Shapes: []*c8Shape{sh}, Fails: fails}
				if last != nil {
					one := *last
					one.Start = false
					job2 = &c8Job{Mode: "rerun", Shapes: []*c8Shape{sh}, Runs: []c8Run{one}}
				}
				c8spawn(job2, func(*c8Run) {}, func(*c8Run, string) { dead = true })
				if dead {
					again++
				}
			}
			if again < 2 {
				c.Count("worker-death-not-reproduced")
				nr, _ := c.extra["worker_deaths_not_reproduced"].([]string)
				if len(nr) < 10 {
					c.extra["worker_deaths_not_reproduced"] = append(nr, sh.program()+": "+why)
				}
				return
			}
			rep := map[string]any{"shape": sh, "program": sh.program(), "why": why}
			if last != nil {
				rep["run"] = last
			}
			c.Violation("no-prompt-termination:"+c8consKind(sh), "evaluating "+sh.program()+": "+why, rep)
		})
		var rest []*c8Shape
		for _, sh := range pending {
			if sh.Idx > maxShape {
				rest = append(rest, sh)
			}
		}
		if len(rest) == len(pending) {
			break
		}
		pending = rest
		if len(c.violations) > 20 {
			break
		}
	}

	issues := c8evaluate(c, shapes, runs, true)
	// confirm every issue in a fresh child (twice); timing-dependent switches of MapAuto do not reproduce
	if len(issues) > 0 {
		var confirmed []c8Issue
		limit := issues
		if len(limit) > 150 {
			limit = limit[:150]
		}
		for _, is := range limit {
			repro := 0
			for attempt := 0; attempt < 2; attempt++ {
				var rr []c8Run
				need := []c8Run{is.run}
				var baseRun *c8Run
				for i := range runs {
					if runs[i].Shape == is.run.Shape && runs[i].Seq == is.run.Base && is.run.Base >= 0 {
						baseRun = &runs[i]
					}
				}
				if baseRun != nil {
					need = []c8Run{*baseRun, is.run}
				}
				dead := false
				c8spawn(&c8Job{Mode: "rerun", Shapes: []*c8Shape{shapes[is.run.Shape]}, Runs: need}, func(r *c8Run) { rr = append(rr, *r) }, func(*c8Run, string) { dead = true })
				if dead {
					repro++
					continue
				}
				// keep the original sequence numbers so that the baseline link still works
				sub := c8evaluate(nil, shapes, rr, false)
				for _, s2 := range sub {
					if s2.run.Kind == is.run.Kind && s2.sig == is.sig {
						repro++
						break
					}
				}
			}
			if repro == 2 {
				confirmed = append(confirmed, is)
			} else {
				c.Count("not-reproduced(timing)")
				nr, _ := c.extra["not_reproduced"].([]string)
				if len(nr) < 10 {
					c.extra["not_reproduced"] = append(nr, is.sig+": "+is.what)
				}
			}
		}
		for _, is := range confirmed {
			sh := shapes[is.run.Shape]
			rep := map[string]any{"shape": sh, "program": sh.program(), "run": is.run, "model": is.model,
				"request": sh.request(is.run.N, is.run.V, is.run.J)}
			if is.corrOnly {
				c.disagree++
				c.Broken("corr:PIPE", is.what, rep)
			} else {
				c.Violation(is.sig, is.what, rep)
			}
		}
	}
	if len(c.BrokenObligs()) > 0 {
		c.Count("broken-obligations-present")
	}
}

// c8evaluate applies the property predicates and the model comparison to a batch of runs.
func c8evaluate(c *Ctx, shapes []*c8Shape, runs []c8Run, count bool) []c8Issue {
	var issues []c8Issue
	bySeq := map[[2]int]*c8Run{}
	for i := range runs {
		r := &runs[i]
		bySeq[[2]int{r.Shape, r.Seq}] = r
	}
	var reqs []string
	var reqRun []*c8Run
	for i := range runs {
		r := &runs[i]
		sh := shapes[r.Shape]
		if r.Err != "" {
			issues = append(issues, c8Issue{run: *r, sig: "harness:generator-rejected-program", what: "the generator rejected a generated program: " + r.Err})
			continue
		}
		if r.Kind == "probe" {
			continue
		}
		kinds := map[string]bool{}
		c8stageKinds(sh.List, kinds)
		ck := c8consKind(sh)
		pulled := r.Counts[0]
		if sh.hasHost() {
			pulled = r.HostN
		}
		if count && c != nil {
			canon := fmt.Sprintf("%s|%d|%d|%v", sh.request(r.N, r.V, r.J), r.N, r.V, r.Kind == "build")
			c.Case(canon, sh.lazyStages() >= 1 && pulled >= 2 && r.Kind != "build")
			c.Count("run=" + r.Kind)
			c.Count("consumer=" + sh.Cons.Kind)
			for k := range kinds {
				c.Count("stage=" + k)
			}
			if r.Kind == "base" {
				c.Count(fmt.Sprintf("k=%03d..", (r.K/25)*25))
				switch {
				case pulled < 2:
					c.Count("pulled=0..1")
				case pulled < 20:
					c.Count("pulled=2..19")
				case pulled < 250:
					c.Count("pulled=20..249")
				case pulled < 1000:
					c.Count("pulled=250..999")
				default:
					c.Count("pulled>=1000")
				}
				if r.Decided {
					c.Count("decided-before-source-end")
				} else {
					c.Count("source-exhausted")
				}
			}
			if r.Kind == "fail" {
				switch {
				case !r.InBase:
					c.Count("throw=behind(never-evaluated)")
				case r.HaveMin && r.InMin:
					c.Count("throw=before-or-at-decisive")
				default:
					c.Count("throw=read-ahead-window-or-unknown")
				}
				c.Count("throw-outcome=" + strings.Fields(r.Out+" x")[0])
			}
			if len(c.samples) < 6 && r.Kind == "big" {
				c.Sample(map[string]any{"program": sh.program(), "n": r.N, "v": r.V, "out": r.Out, "ticks": r.Ticks, "ms": r.Ms})
			}
		}
		base := bySeq[[2]int{r.Shape, r.Base}]
		add := func(sig, what string) {
			issues = append(issues, c8Issue{run: *r, sig: sig + ":" + ck, what: what + "  [" + sh.program() + fmt.Sprintf(" n=%d v=%d j=%v]", r.N, r.V, c8failDesc(r))})
		}
		switch r.Kind {
		case "build":
			if r.Ticks != "" || r.HostN != 0 {
				add("closure-evaluated-while-building", "building the pipeline without consuming it evaluated element closures: ticks "+r.Ticks)
			}
			if r.Out != "OK i:0" {
				add("build-program-failed", "let l=<pipeline>; 0 did not return 0: "+r.Out)
			}
		case "size", "big":
			if base != nil {
				if sh.isMulti() && r.Out == "ERR" && base.Out == "ERR" {
					// an error inside a multiUse consumer: the run loop stops at a racy point
				} else if r.Out != base.Out {
					add("size-dependent-outcome", fmt.Sprintf("outcome on a source of %d elements is %s, on %d elements %s, although only %d were demanded", r.N, r.Out, base.N, base.Out, pulled))
				} else if r.Ticks != base.Ticks {
					add("size-dependent-demand", fmt.Sprintf("closure calls on a source of %d elements (%s) differ from those on %d elements (%s)", r.N, r.Ticks, base.N, base.Ticks))
				}
			}
			if r.Kind == "big" && r.Ms > 2000 {
				add("slow-on-1e11", fmt.Sprintf("took %.0f ms on 10^11 elements", r.Ms))
			}
		case "fail":
			if base != nil {
				multiThrow := sh.isMulti() && (r.InBase || r.Out == "ERR" || base.Out == "ERR")
				if !r.InBase {
					if r.Out != base.Out {
						add("error-from-element-behind-decisive", fmt.Sprintf("a closure that throws only on a value the baseline never evaluated changed the outcome from %s to %s", base.Out, r.Out))
					} else if r.Ticks != base.Ticks && !multiThrow {
						add("demand-changed-by-unevaluated-throw", fmt.Sprintf("closure calls changed from %s to %s", base.Ticks, r.Ticks))
					}
				} else {
					if r.Out != "ERR" && r.Out != base.Out {
						add("wrong-outcome-with-throwing-element", fmt.Sprintf("outcome %s is neither the error nor the baseline outcome %s", r.Out, base.Out))
					}
					if r.HaveMin && r.InMin && r.Out != "ERR" && !sh.isMulti() && !c8inAppendHead(sh.List, r.FailId, false) {
						add("missed-error-before-decisive", fmt.Sprintf("a closure throws on a value evaluated at or before the decisive element (shortest source %d) but the outcome is %s", r.Lmin, r.Out))
					}
					if !multiThrow {
						for id := 0; id < 10; id++ {
							if r.Counts[id] > base.Counts[id] {
								add("more-calls-with-throwing-element", fmt.Sprintf("closure %d was called %d times, %d times without the throw", id, r.Counts[id], base.Counts[id]))
								break
							}
						}
					}
				}
			}
		}
		// model request
		if r.Kind == "build" {
			reqs = append(reqs, sh.buildRequest(r.N, r.V, r.J))
		} else {
			reqs = append(reqs, sh.request(r.N, r.V, r.J))
		}
		reqRun = append(reqRun, r)
	}
	if c == nil {
		c = &Ctx{}
	}
	resp := c.Model(reqs)
	for i, line := range resp {
		r := reqRun[i]
		sh := shapes[r.Shape]
		ck := c8consKind(sh)
		f := strings.Split(line, "\t")
		if len(f) != 3 {
			issues = append(issues, c8Issue{run: *r, sig: "corr", what: "model driver rejected the request " + reqs[i] + ": " + line, corrOnly: true, model: line})
			continue
		}
		mOut, mTicks := f[0], f[1]
		add := func(sig, what string, corrOnly bool) {
			issues = append(issues, c8Issue{run: *r, sig: sig + ":" + ck, model: line, corrOnly: corrOnly,
				what: what + "  [" + sh.program() + fmt.Sprintf(" n=%d v=%d j=%v]", r.N, r.V, c8failDesc(r))})
		}
		throwInMulti := sh.isMulti() && (r.Kind == "fail" && r.InBase || r.Out == "ERR")
		if mOut != r.Out && throwInMulti && r.Kind == "fail" && !(r.HaveMin && r.InMin) {
			// read-ahead window of multiUse: after an error item that every consumer swallowed or no longer
			// receives, the run loop goes on with the next element; stateful upstream stages then work on the
			// stale value that came with the error (dead continuation in the model) - either outcome conforms
			if base := bySeq[[2]int{r.Shape, r.Base}]; base != nil && (r.Out == "ERR" || r.Out == base.Out) && (mOut == "ERR" || mOut == base.Out) {
				if c != nil {
					c.Count("multiUse-window-outcome-either")
				}
				continue
			}
		}
		if mOut != r.Out {
			switch {
			case r.Out == "ERR":
				add("error-not-predicted", fmt.Sprintf("the real code reports an error, the model %s: an error from an element the consumer does not need", mOut), false)
			case mOut == "ERR":
				add("error-missed", fmt.Sprintf("the real code answers %s where the model reports the error of an element in front of the decisive one", r.Out), false)
			default:
				add("outcome-differs", fmt.Sprintf("real code %s, model %s", r.Out, mOut), false)
			}
			continue
		}
		if throwInMulti {
			continue
		}
		if mTicks != r.Ticks {
			mt, it := c8parseTicks(mTicks), c8parseTicks(r.Ticks)
			over := ""
			for id := 0; id < 10; id++ {
				if it[id][0] > mt[id][0] {
					over = fmt.Sprintf("closure %d called %d times, demand bound of the model %d", id, it[id][0], mt[id][0])
					break
				}
			}
			if over != "" {
				add("over-evaluation", over+fmt.Sprintf(" (real %s, model %s)", r.Ticks, mTicks), false)
			} else {
				add("corr-ticks", fmt.Sprintf("closure calls differ: real %s, model %s", r.Ticks, mTicks), true)
			}
		}
	}
	return issues
}

// c8inAppendHead: is closure id part of the first operand of a `+`? The read-ahead element of a `top`
// there is evaluated on every source length (it does not depend on the main source), so "evaluated on the
// shortest deciding source" does not imply "at or before the decisive element" for it.
func c8inAppendHead(l *c8List, id int, inHead bool) bool {
	if l == nil {
		return false
	}
	if l.Kind == "st" && inHead && (l.St.Id == id || (l.St.Id1 == id && l.St.Id1 != 0)) {
		return true
	}
	return c8inAppendHead(l.A, id, true) || c8inAppendHead(l.B, id, inHead) || c8inAppendHead(l.L, id, inHead)
}

func c8failDesc(r *c8Run) string {
	if r.FailId < 0 {
		return "-"
	}
	return fmt.Sprintf("closure %d throws on %d", r.FailId, r.J[r.FailId])
}

// c8corpus: fixed shapes that are always run first.
func c8corpus() []*c8Shape {
	num := func() *c8List { return c8tap(&c8List{Kind: "num", Main: true}) }
	var res []*c8Shape
	// B8: numbers(n).map(tick).top(v).size()
	res = append(res, &c8Shape{List: c8wrap(num(), &c8Stage{Kind: "top", UseV: true}), Cons: c8Cons{Kind: "size"}, Ids: []int{0}, Seed: 8})
	// present / indexWhere / ~ directly on the tapped source
	res = append(res, &c8Shape{List: num(), Cons: c8Cons{Kind: "present", Id: 1}, ValTgt: true, Ids: []int{0, 1}, Seed: 9})
	res = append(res, &c8Shape{List: c8wrap(num(), &c8Stage{Kind: "map", Id: 1, P: []int64{2, 1}}), Cons: c8Cons{Kind: "indexWhere", Id: 2}, ValTgt: true, Ids: []int{0, 1, 2}, Seed: 10})
	res = append(res, &c8Shape{List: c8wrap(num(), &c8Stage{Kind: "accept", Id: 1, Pred: "M", P: []int64{3, 2}}), Cons: c8Cons{Kind: "contains"}, ValTgt: true, Ids: []int{0, 1}, Seed: 11})
	// skip(v).first(), skip(v).single()
	res = append(res, &c8Shape{List: c8wrap(num(), &c8Stage{Kind: "skip", UseV: true}), Cons: c8Cons{Kind: "first"}, Ids: []int{0}, Seed: 12})
	res = append(res, &c8Shape{List: c8wrap(c8wrap(num(), &c8Stage{Kind: "combine", Id: 1, P: []int64{1, 1, 0}}), &c8Stage{Kind: "skip", UseV: true}), Cons: c8Cons{Kind: "single"}, Ids: []int{0, 1}, Seed: 13})
	// multiUse of three consumers
	res = append(res, &c8Shape{List: num(), ValTgt: true, Ids: []int{0, 2, 3}, Seed: 14, Cons: c8Cons{Kind: "multi", Branches: []c8Branch{
		{Name: "a", Cons: c8Cons{Kind: "first"}},
		{Name: "b", Cons: c8Cons{Kind: "present", Id: 2}},
		{Name: "c", Stages: []c8Stage{{Kind: "map", Id: 3, P: []int64{1, 0}}, {Kind: "top", P: []int64{3}}}, Cons: c8Cons{Kind: "size"}}}}})
	// host-provided lazy list, appended behind a literal
	res = append(res, &c8Shape{List: c8wrap(&c8List{Kind: "app", A: &c8List{Kind: "lit", Lit: []int64{7, 8}}, B: c8tap(&c8List{Kind: "host", Main: true})}, &c8Stage{Kind: "top", UseV: true}), Cons: c8Cons{Kind: "collect"}, Ids: []int{0}, Seed: 15})
	return res
}
